"""Algebraic normal forms for per-element kernel expressions.

Poly   : Laurent polynomial with exact Fraction coefficients and Fraction exponents over atoms.
Atom   : ('sym', name...) | ('app', fname, argkey...) | ('par', polykey)   (hashable tuples)
GExpr  : guarded expression = list of (guard, Poly); guard = frozenset of (gatom, polarity).
BExpr  : boolean formula in DNF = list of guards.
Guard atoms: ('le0', polykey)  P <= 0 (False if P is NaN) | ('ne0', polykey) | ('nan', symkey) |
             ('flag', name) | ('exists', idxkey, dnfkey) | ('at', gatom, idxkey)

This is global value numbering with an algebraic normaliser; no paths are enumerated and no
solver is involved.  Incompleteness is one-sided: unequal normal forms of equal functions are
possible, which is why a numeric witness filter (`witness_differs`) sits behind every mismatch.
"""
import math
import random
from fractions import Fraction

from .source import AnalysisError

ONE = Fraction(1)
ZERO = Fraction(0)


def frac(x):
    if isinstance(x, Fraction):
        return x
    if isinstance(x, bool):
        return Fraction(int(x))
    if isinstance(x, int):
        return Fraction(x)
    if isinstance(x, float):
        if x != x or x in (float("inf"), float("-inf")):
            raise AnalysisError("non-finite literal")
        return Fraction(repr(x))
    raise AnalysisError("not a number: %r" % (x,))


class Poly:
    __slots__ = ("terms", "_key")

    def __init__(self, terms=None):
        self.terms = {m: c for m, c in (terms or {}).items() if c != 0}
        self._key = None

    # ---- constructors
    @staticmethod
    def const(c):
        return Poly({(): frac(c)})

    @staticmethod
    def atom(a, e=ONE):
        return Poly({((a, frac(e)),): ONE})

    @staticmethod
    def sym(*name):
        return Poly.atom(("sym",) + tuple(name))

    # ---- inspection
    def key(self):
        if self._key is None:
            self._key = tuple(sorted(self.terms.items(), key=repr))
        return self._key

    def __hash__(self):
        return hash(self.key())

    def __eq__(self, other):
        return isinstance(other, Poly) and self.key() == other.key()

    def is_zero(self):
        return not self.terms

    def is_const(self):
        return all(m == () for m in self.terms)

    def const_value(self):
        if not self.is_const():
            raise AnalysisError("not a constant: %s" % self)
        return self.terms.get((), ZERO)

    def single_term(self):
        if len(self.terms) == 1:
            (m, c), = self.terms.items()
            return m, c
        return None

    def atoms(self):
        out = set()
        for m in self.terms:
            for a, _ in m:
                out.add(a)
        return out

    def symbols(self, acc=None):
        """all ('sym', ..) atoms, recursively through app / par arguments"""
        acc = set() if acc is None else acc
        for a in self.atoms():
            _atom_symbols(a, acc)
        return acc

    # ---- arithmetic
    def __add__(self, o):
        o = as_poly(o)
        t = dict(self.terms)
        for m, c in o.terms.items():
            t[m] = t.get(m, ZERO) + c
        return Poly(t)

    __radd__ = __add__

    def __neg__(self):
        return Poly({m: -c for m, c in self.terms.items()})

    def __sub__(self, o):
        return self + (-as_poly(o))

    def __rsub__(self, o):
        return as_poly(o) - self

    def __mul__(self, o):
        o = as_poly(o)
        t = {}
        for m1, c1 in self.terms.items():
            for m2, c2 in o.terms.items():
                m = _mono_mul(m1, m2)
                t[m] = t.get(m, ZERO) + c1 * c2
        return Poly(t)

    __rmul__ = __mul__

    def inv(self):
        return self.pow(Fraction(-1))

    def __truediv__(self, o):
        return self * as_poly(o).inv()

    def __rtruediv__(self, o):
        return as_poly(o) * self.inv()

    def pow(self, e):
        e = frac(e)
        if e == 0:
            return Poly.const(1)
        if e == 1:
            return self
        if self.is_zero():
            if e > 0:
                return Poly()
            raise AnalysisError("division by the zero polynomial")
        st = self.single_term()
        if st is not None:
            m, c = st
            ce = _rat_pow(c, e)
            if e.denominator % 2 == 0:
                # even root: (a^x)^e is |a|^(x e) wherever it is defined
                # (a^x)^e with x an even integer is |a|^(x e); for other x the root is defined only for a >= 0
                m = tuple((a if (_nonneg_atom(a) or not (x.denominator == 1 and int(x) % 2 == 0))
                           else ("app", "abs", Poly.atom(a).key()), x) for a, x in m)
            if ce is not None:
                return Poly({tuple((a, x * e) for a, x in m): ce}).renorm()
            # irrational numeric factor: keep the number as an opaque atom
            if c > 0:
                base = Poly({tuple((a, x * e) for a, x in m): ONE}).renorm()
                return base * Poly.atom(("num", c), e)
        if e.denominator == 1 and 0 < e <= 6:
            r = Poly.const(1)
            for _ in range(int(e)):
                r = r * self
            return r
        if e.denominator == 1:
            c, m, rest = self.content()
            ce = _rat_pow(c, e)
            out = Poly({tuple((a, x * e) for a, x in m): ce}).renorm()
            return out * Poly.atom(("par", rest.key()), e)
        return Poly.atom(("par", self.key()), e)

    def renorm(self):
        """re-sort monomials after exponent scaling, drop zero exponents"""
        t = {}
        for m, c in self.terms.items():
            mm = _mono_mul(m, ())
            t[mm] = t.get(mm, ZERO) + c
        return Poly(t)

    def content(self):
        """self = c * m * rest with rest having leading coefficient 1 and no common monomial factor"""
        if self.is_zero():
            raise AnalysisError("content of zero")
        monos = sorted(self.terms, key=repr)
        common = None
        for m in monos:
            d = dict(m)
            if common is None:
                common = d
            else:
                common = {a: min(x, d[a]) for a, x in common.items() if a in d}
        common = {a: x for a, x in (common or {}).items() if x != 0}
        # only factor monomials with exponents common to every term (min exponent, same atom)
        cm = tuple(sorted(common.items(), key=repr))
        inv_cm = tuple((a, -x) for a, x in cm)
        rest_terms = {}
        for m, c in self.terms.items():
            rest_terms[_mono_mul(m, inv_cm)] = c
        lead = sorted(rest_terms, key=repr)[0]
        c0 = rest_terms[lead]
        rest = Poly({m: c / c0 for m, c in rest_terms.items()})
        return c0, cm, rest

    def subst(self, mapping):
        """replace atoms by polynomials (recursively inside app / par arguments)"""
        out = Poly()
        for m, c in self.terms.items():
            term = Poly.const(c)
            for a, x in m:
                term = term * _atom_subst(a, mapping).pow(x)
            out = out + term
        return out

    def __repr__(self):
        return fmt_poly(self)


def as_poly(x):
    return x if isinstance(x, Poly) else Poly.const(x)


def diff(p, x, chain=None):
    """symbolic derivative of Poly `p` with respect to atom `x`; `chain` maps atoms that depend
    on x to their derivative (Poly).  Raises AnalysisError for constructs it cannot differentiate."""
    chain = chain or {}
    out = Poly()
    for m, c in p.terms.items():
        for i, (a, e) in enumerate(m):
            da = _datom(a, x, chain)
            if da.is_zero():
                continue
            rest = Poly({tuple(m[:i] + m[i + 1:]): c})
            out = out + rest * Poly.atom(a, e - 1) * e * da if e != 1 else out + rest * da
    return out


def _depends(p, x, chain):
    syms_x = {x} | set(chain)
    for a in p.atoms():
        if a in syms_x:
            return True
        if a[0] == "app":
            if any(_depends(poly_from_key(k), x, chain) for k in a[2:]):
                return True
        if a[0] == "par" and _depends(poly_from_key(a[1]), x, chain):
            return True
    return False


def _datom(a, x, chain):
    if a == x:
        return Poly.const(1)
    if a in chain:
        return as_poly(chain[a])
    if a[0] in ("sym", "num"):
        return Poly()
    if a[0] == "par":
        return diff(poly_from_key(a[1]), x, chain)
    if a[0] == "app":
        args = [poly_from_key(k) for k in a[2:]]
        if not any(_depends(u, x, chain) for u in args):
            return Poly()
        f = a[1]
        u = args[0]
        du = diff(u, x, chain)
        if f == "abs":
            return u * Poly.atom(a, -1) * du
        if f == "exp":
            return Poly.atom(a) * du
        if f == "log":
            return du / u
        if f == "log10":
            return du / (u * Poly.atom(("app", "log", Poly.const(10).key())))
        raise AnalysisError("cannot differentiate %s" % fmt_atom(a))
    raise AnalysisError("cannot differentiate atom %r" % (a,))


def _mono_mul(m1, m2):
    d = {}
    for a, x in m1:
        d[a] = d.get(a, ZERO) + x
    for a, x in m2:
        d[a] = d.get(a, ZERO) + x
    return tuple(sorted(((a, x) for a, x in d.items() if x != 0), key=repr))


def _rat_pow(c, e):
    """c**e as an exact Fraction or None"""
    if e.denominator == 1:
        if c == 0 and e < 0:
            raise AnalysisError("0 ** negative")
        return c ** int(e)
    if c == 1:
        return ONE
    if c <= 0:
        return None
    num = _int_root(c.numerator, e.denominator)
    den = _int_root(c.denominator, e.denominator)
    if num is None or den is None:
        return None
    return Fraction(num, den) ** e.numerator


def _int_root(n, k):
    r = round(n ** (1.0 / k))
    for cand in (r - 1, r, r + 1):
        if cand >= 0 and cand ** k == n:
            return cand
    return None


def _atom_symbols(a, acc):
    if a[0] == "sym":
        acc.add(a)
    elif a[0] == "app":
        for k in a[2:]:
            poly_from_key(k).symbols(acc)
    elif a[0] == "par":
        poly_from_key(a[1]).symbols(acc)


def poly_from_key(k):
    return Poly(dict(k))


def _atom_subst(a, mapping):
    if a in mapping:
        return as_poly(mapping[a])
    if a[0] == "app":
        args = [poly_from_key(k).subst(mapping) for k in a[2:]]
        return apply_fn(a[1], args)
    if a[0] == "par":
        p = poly_from_key(a[1]).subst(mapping)
        return p  # exponent is applied by the caller through pow()
    return Poly.atom(a)


# --------------------------------------------------------------------------- functions
def apply_fn(name, args):
    args = [as_poly(a) for a in args]
    if name == "abs":
        return f_abs(args[0])
    if name == "sqrt":
        return args[0].pow(Fraction(1, 2))
    if name in ("exp", "log", "log10", "sign", "floor"):
        p = args[0]
        if name == "exp" and p.is_zero():
            return Poly.const(1)
        if name in ("log", "log10") and p.is_const() and p.const_value() == 1:
            return Poly()
        return Poly.atom(("app", name, p.key()))
    if name in ("max", "min"):
        if all(a.is_const() for a in args):
            f = max if name == "max" else min
            return Poly.const(f(a.const_value() for a in args))
        ks = sorted({a.key() for a in args}, key=repr)
        if len(ks) == 1:
            return args[0]
        return Poly.atom(("app", name) + tuple(ks))
    return Poly.atom(("app", name) + tuple(a.key() for a in args))


def f_abs(p):
    if p.is_zero():
        return p
    if p.is_const():
        return Poly.const(abs(p.const_value()))
    st = p.single_term()
    if st is not None:
        m, c = st
        out = Poly.const(abs(c))
        for a, x in m:
            if _nonneg_atom(a) or (x.denominator == 1 and int(x) % 2 == 0):
                out = out * Poly.atom(a, x)
            else:
                out = out * Poly.atom(("app", "abs", Poly.atom(a).key()), x)
        return out
    if all(c > 0 for c in p.terms.values()) and all(_nonneg_atom(a) for a in p.atoms()):
        return p
    c, m, rest = p.content()
    out = f_abs(Poly({m: c}))
    if all(c2 > 0 for c2 in rest.terms.values()) and all(_nonneg_atom(a) for a in rest.atoms()):
        return out * rest
    return out * Poly.atom(("app", "abs", rest.key()))


POSITIVE_HOOKS = []   # callables atom -> bool: physical positivity assumptions registered by rules


def _nonneg_atom(a):
    if a[0] == "app" and a[1] in ("abs", "exp"):
        return True
    for h in POSITIVE_HOOKS:
        if h(a):
            return True
    if a[0] == "par":
        q = poly_from_key(a[1])
        return all(c > 0 for c in q.terms.values()) and all(_nonneg_atom(x) for x in q.atoms())
    if a[0] == "num":
        return True
    if a[0] == "app" and a[1] == "max":
        return any(poly_from_key(k).is_const() and poly_from_key(k).const_value() >= 0 for k in a[2:])
    return False


# --------------------------------------------------------------------------- printing
def fmt_atom(a):
    if a[0] == "sym":
        if len(a) == 6 and a[1] == "col":
            row = ":" if a[3] == "i" else fmt_idx(a[3])
            return "%s[%s,%s]" % (a[2], row, a[5])
        if len(a) == 5 and a[1] == "pos":
            return "%s[%s][%s]" % (a[2], a[3], fmt_idx(a[4]))
        if len(a) >= 4 and a[1] == "tbl":
            return "net.%s.%s%s" % (a[2], a[3], "[filtered]" if len(a) > 4 else "")
        if len(a) >= 3 and a[1] == "gather":
            return "%s[%s]" % (".".join(map(str, a[2])) if isinstance(a[2], tuple) else a[2], fmt_idx(a[3]))
        return ".".join(str(x) for x in a[1:])
    if a[0] == "num":
        return str(float(a[1]))
    if a[0] == "app":
        return "%s(%s)" % (a[1], ", ".join(fmt_poly(poly_from_key(k)) for k in a[2:]))
    if a[0] == "par":
        return "(%s)" % fmt_poly(poly_from_key(a[1]))
    return str(a)


def _fmt_num(c):
    if c.denominator == 1:
        return str(c.numerator)
    f = float(c)
    if Fraction(repr(f)) == c:
        return repr(f)
    return "%d/%d" % (c.numerator, c.denominator)


def fmt_poly(p):
    if p.is_zero():
        return "0"
    parts = []
    for m, c in sorted(p.terms.items(), key=repr):
        fs = []
        for a, x in m:
            s = fmt_atom(a)
            if x != 1:
                s += "^" + _fmt_num(x)
            fs.append(s)
        if not fs:
            parts.append(_fmt_num(c))
        elif c == 1:
            parts.append("*".join(fs))
        elif c == -1:
            parts.append("-" + "*".join(fs))
        else:
            parts.append(_fmt_num(c) + "*" + "*".join(fs))
    return " + ".join(parts).replace("+ -", "- ")


# --------------------------------------------------------------------------- guards / booleans
TRUE_G = frozenset()


def g_consistent(g):
    seen = {}
    for a, pol in g:
        if seen.setdefault(a, pol) != pol:
            return False
    return True


def g_and(g1, g2):
    g = g1 | g2
    return g if g_consistent(g) else None


class BExpr:
    """boolean formula in DNF: list of guards (frozensets of literals)"""
    __slots__ = ("dnf",)

    def __init__(self, dnf):
        out = []
        for g in dnf:
            if g is not None and g_consistent(g) and g not in out:
                out.append(g)
        # absorption
        self.dnf = [g for g in out if not any(h < g for h in out)]

    @staticmethod
    def true():
        return BExpr([TRUE_G])

    @staticmethod
    def false():
        return BExpr([])

    @staticmethod
    def lit(atom, pol=True):
        return BExpr([frozenset([(atom, pol)])])

    def is_true(self):
        return TRUE_G in self.dnf

    def is_false(self):
        return not self.dnf

    def __and__(self, o):
        return BExpr([g_and(a, b) for a in self.dnf for b in o.dnf])

    def __or__(self, o):
        return BExpr(self.dnf + o.dnf)

    def __invert__(self):
        r = BExpr.true()
        for g in self.dnf:
            r = r & BExpr([frozenset([(a, not pol)]) for a, pol in g])
        return r

    def key(self):
        return tuple(sorted((tuple(sorted(g, key=repr)) for g in self.dnf), key=repr))

    def atoms(self):
        return {a for g in self.dnf for a, _ in g}

    def eval(self, assign):
        return any(all(assign[a] == pol for a, pol in g) for g in self.dnf)

    def __repr__(self):
        if self.is_true():
            return "True"
        if self.is_false():
            return "False"
        return " | ".join("(" + " & ".join(("" if pol else "~") + fmt_gatom(a) for a, pol in sorted(g, key=repr)) + ")"
                          for g in self.dnf)


def fmt_gatom(a):
    if a[0] == "le0":
        return "[%s <= 0]" % fmt_poly(poly_from_key(a[1]))
    if a[0] == "ne0":
        return "[%s != 0]" % fmt_poly(poly_from_key(a[1]))
    if a[0] == "nan":
        return "isnan(%s)" % ",".join(fmt_atom(s) for s in a[1])
    if a[0] == "flag":
        return str(a[1])
    if a[0] == "exists":
        return "exists-branch[%s: %s]" % (fmt_idx(a[1]), BExpr([frozenset(g) for g in a[2]]))
    if a[0] == "at":
        return "%s@%s" % (fmt_gatom(a[1]), fmt_idx(a[2]))
    return str(a)


def fmt_idx(k):
    try:
        return fmt_poly(poly_from_key(k))
    except Exception:
        return str(k)


def b_le0(p):
    """P <= 0 (False when P is NaN)"""
    p = as_poly(p)
    if p.is_const():
        return BExpr.true() if p.const_value() <= 0 else BExpr.false()
    # scale by |leading coefficient| (keeps the sign)
    lead = sorted(p.terms, key=repr)[0]
    c = abs(p.terms[lead])
    p = Poly({m: x / c for m, x in p.terms.items()})
    return BExpr.lit(("le0", p.key()))


def b_nan(p):
    p = as_poly(p)
    syms = sorted(p.symbols(), key=repr)
    r = BExpr.false()
    for s in syms:
        r = r | BExpr.lit(("nan", (s,)))
    return r


def b_gt0(p):
    """P > 0 (False when P is NaN)"""
    return ~b_le0(p) & ~b_nan(p)


def b_ne0(p):
    p = as_poly(p)
    if p.is_const():
        return BExpr.true() if p.const_value() != 0 else BExpr.false()
    lead = sorted(p.terms, key=repr)[0]
    c = p.terms[lead]
    p = Poly({m: x / c for m, x in p.terms.items()})
    return BExpr.lit(("ne0", p.key()))


class GExpr:
    """guarded expression: cases partition (a part of) the guard space"""
    __slots__ = ("cases",)

    def __init__(self, cases):
        out = []
        for g, p in cases:
            if g is None or not g_consistent(g):
                continue
            out.append((g, as_poly(p)))
        self.cases = out

    @staticmethod
    def of(p):
        return GExpr([(TRUE_G, as_poly(p))])

    def plain(self):
        if len(self.cases) == 1 and self.cases[0][0] == TRUE_G:
            return self.cases[0][1]
        return None

    def map2(self, o, f):
        o = as_gexpr(o)
        return GExpr([(g_and(g1, g2), f(p1, p2)) for g1, p1 in self.cases for g2, p2 in o.cases
                      if g_and(g1, g2) is not None])

    def map1(self, f):
        return GExpr([(g, f(p)) for g, p in self.cases])

    def __add__(self, o):
        return self.map2(o, lambda a, b: a + b)

    def __sub__(self, o):
        return self.map2(o, lambda a, b: a - b)

    def __mul__(self, o):
        return self.map2(o, lambda a, b: a * b)

    def __truediv__(self, o):
        return self.map2(o, lambda a, b: a / b)

    def __neg__(self):
        return self.map1(lambda a: -a)

    def restrict(self, guard):
        return GExpr([(g_and(g, guard), p) for g, p in self.cases])

    def atoms(self):
        return {a for g, _ in self.cases for a, _ in g}

    def value_at(self, assign):
        vals = []
        for g, p in self.cases:
            if all(assign.get(a) == pol for a, pol in g):
                vals.append(p)
        if not vals:
            return None
        k0 = vals[0].key()
        for v in vals[1:]:
            if v.key() != k0:
                return ("AMBIGUOUS", vals)
        return vals[0]

    def merged(self):
        """merge cases with equal values (keeps DNF of guards per value)"""
        by = {}
        for g, p in self.cases:
            by.setdefault(p.key(), (p, []))[1].append(g)
        return [(BExpr(gs), p) for p, gs in by.values()]

    def __repr__(self):
        pl = self.plain()
        if pl is not None:
            return fmt_poly(pl)
        return "{" + "; ".join("%s -> %s" % (b, fmt_poly(p)) for b, p in self.merged()) + "}"


def as_gexpr(x):
    if isinstance(x, GExpr):
        return x
    return GExpr.of(as_poly(x))


def select(cond, a, b):
    """elementwise  a if cond else b"""
    a, b = as_gexpr(a), as_gexpr(b)
    cases = []
    for c in cond.dnf:
        for g, p in a.cases:
            cases.append((g_and(g, c), p))
    for c in (~cond).dnf:
        for g, p in b.cases:
            cases.append((g_and(g, c), p))
    return GExpr(cases)


# --------------------------------------------------------------------------- comparing guarded values
def _assignments(atoms):
    atoms = sorted(atoms, key=repr)
    if len(atoms) > 14:
        raise AnalysisError("too many guard atoms (%d) for a decision table" % len(atoms))
    n = len(atoms)
    for bits in range(1 << n):
        assign = {a: bool((bits >> i) & 1) for i, a in enumerate(atoms)}
        if _feasible(assign):
            yield assign


def _le0_parts(a):
    p = poly_from_key(a[1])
    c = p.terms.get((), ZERO)
    rest = Poly({m: x for m, x in p.terms.items() if m != ()})
    return rest.key(), c


def _feasible(assign):
    les = [(a, v) for a, v in assign.items() if a[0] == "le0"]
    nans = [a for a, v in assign.items() if a[0] == "nan" and v]
    # nan(x) => no comparison involving x holds
    for a, v in les:
        if v:
            syms = poly_from_key(a[1]).symbols()
            for n in nans:
                if set(n[1]) & syms:
                    return False
    # rest + c1 <= 0 and c2 <= c1  =>  rest + c2 <= 0
    for a1, v1 in les:
        r1, c1 = _le0_parts(a1)
        for a2, v2 in les:
            if a1 is a2:
                continue
            r2, c2 = _le0_parts(a2)
            if r1 == r2 and c2 <= c1 and v1 and not v2:
                return False
    # P <= 0 and -P <= 0 only on the null set P == 0; neither is impossible (for non-NaN P, covered above)
    for a1, v1 in les:
        p1 = poly_from_key(a1[1])
        for a2, v2 in les:
            if a1 is a2:
                continue
            if (-p1).key() == a2[1] and v1 == v2:
                if v1:
                    return False
                if not any(a[0] == "nan" and v for a, v in assign.items()):
                    return False
    # ne0(P) false => le0(P) true and le0(-P) true
    for a, v in assign.items():
        if a[0] == "ne0" and not v:
            p = poly_from_key(a[1])
            for b, w in les:
                q = poly_from_key(b[1])
                if (q.key() == p.key() or (-q).key() == p.key()) and not w:
                    return False
    return True


def _exp_vector(m, order):
    d = dict(m)
    return tuple(d.get(a, ZERO) for a in order)


def poly_divide(s, p, cap=200):
    """exact division of Laurent polynomials: returns q with s == q*p, or None"""
    if p.is_zero():
        return None
    order = sorted(s.atoms() | p.atoms(), key=repr)
    lead_p = max(p.terms, key=lambda m: _exp_vector(m, order))
    cp = p.terms[lead_p]
    inv_lead = tuple((a, -x) for a, x in lead_p)
    q = Poly()
    rem = s
    for _ in range(cap):
        if rem.is_zero():
            return q
        lm = max(rem.terms, key=lambda m: _exp_vector(m, order))
        t = Poly({_mono_mul(lm, inv_lead): rem.terms[lm] / cp})
        q = q + t
        rem = rem - t * p
        if len(rem.terms) > 4 * (len(s.terms) + len(p.terms)) + 8:
            return None
    return None


def simplify_par(poly, depth=0):
    """cancel  P * par(P)^-n  ->  par(P)^-(n-1)  where a group of terms is an exact multiple of P"""
    if depth > 6:
        return poly
    for a in sorted(poly.atoms(), key=repr):
        if a[0] != "par":
            continue
        p = poly_from_key(a[1])
        exps = sorted({dict(m)[a] for m in poly.terms if a in dict(m) and dict(m)[a] < 0 and dict(m)[a].denominator == 1})
        for e in exps:
            grp = {m: c for m, c in poly.terms.items() if dict(m).get(a) == e}
            rest = Poly({m: c for m, c in poly.terms.items() if dict(m).get(a) != e})
            stripped = Poly({_mono_mul(m, ((a, -e),)): c for m, c in grp.items()})
            q = poly_divide(stripped, p)
            if q is not None:
                new = rest + q * Poly.atom(a, e + 1) if e + 1 != 0 else rest + q
                return simplify_par(new, depth + 1)
    return poly


def compare(a, b, rng=None, npoints=48):
    """Compare two guarded values as functions of their atoms.
    Returns list of differences: each {guard, left, right, proved: 'symbolic'|'numeric', point}.
    Empty list = equal.  Also returns the number of decision-table rows and how many of them were
    equal only numerically (normal forms differ but no witness found)."""
    a, b = as_gexpr(a), as_gexpr(b)
    atoms = a.atoms() | b.atoms()
    diffs, rows, numeric_only = [], 0, 0
    seen = set()
    for assign in _assignments(atoms):
        rows += 1
        va, vb = a.value_at(assign), b.value_at(assign)
        if isinstance(va, tuple) or isinstance(vb, tuple):
            raise AnalysisError("ill-formed guarded value (overlapping cases disagree): %s / %s" % (a, b))
        ka = va.key() if va is not None else None
        kb = vb.key() if vb is not None else None
        if ka == kb:
            continue
        if va is not None and vb is not None and (ka, kb) not in seen:
            if simplify_par(va - vb).is_zero():
                continue
        if (ka, kb) in seen:
            continue
        if va is not None and vb is not None:
            pt = witness_differs(va, vb, rng, npoints)
            if pt is None:
                numeric_only += 1
                seen.add((ka, kb))
                continue
        else:
            pt = None
        seen.add((ka, kb))
        g = " & ".join(("" if v else "~") + fmt_gatom(x) for x, v in sorted(assign.items(), key=repr)) or "always"
        diffs.append({"guard": g, "left": fmt_poly(va) if va is not None else "undefined",
                      "right": fmt_poly(vb) if vb is not None else "undefined", "point": pt})
    return diffs, rows, numeric_only


# --------------------------------------------------------------------------- numeric witnesses
def eval_poly(p, env):
    tot = 0.0
    for m, c in p.terms.items():
        v = float(c)
        for a, x in m:
            base = eval_atom(a, env)
            xf = float(x)
            if base < 0 and x.denominator != 1:
                raise ValueError("fractional power of negative")
            if base == 0 and xf < 0:
                raise ZeroDivisionError
            v *= base ** (int(x) if x.denominator == 1 else xf)
        tot += v
    return tot


def eval_atom(a, env):
    if a[0] == "sym":
        return env[a]
    if a[0] == "num":
        return float(a[1])
    if a[0] == "par":
        return eval_poly(poly_from_key(a[1]), env)
    if a[0] == "app":
        args = [eval_poly(poly_from_key(k), env) for k in a[2:]]
        f = a[1]
        if f == "abs":
            return abs(args[0])
        if f == "exp":
            return math.exp(args[0])
        if f == "log":
            return math.log(args[0])
        if f == "log10":
            return math.log10(args[0])
        if f == "max":
            return max(args)
        if f == "min":
            return min(args)
        if f == "sign":
            return (args[0] > 0) - (args[0] < 0)
        # uninterpreted function: deterministic pseudo-random smooth map of its arguments
        import zlib
        h = zlib.crc32(repr((f,) + tuple(round(x, 9) for x in args)).encode()) % 100003   # deterministic across processes
        val = 0.5 + h / 100003.0
        if not _nonneg_atom(a) and (h % 2 == 1):
            val = -val        # uninterpreted functions may be negative unless assumed positive
        return val
    raise ValueError("cannot evaluate atom %r" % (a,))


def _breakpoints(p, acc=None):
    """[(constant, symbols of the other arguments)] for every max/min application with a constant argument: the two sides of
    such a clamp are distinguishable only by sample points on both sides of the constant"""
    acc = [] if acc is None else acc

    def atom(a):
        if not isinstance(a, tuple) or not a:
            return
        if a[0] == "app" and a[1] in ("max", "min"):
            args = [poly_from_key(k) for k in a[2:]]
            consts = [x.const_value() for x in args if x.is_const()]
            scope = set()
            for x in args:
                if not x.is_const():
                    scope |= x.symbols()
            for c in consts:
                if c != 0 and scope:
                    acc.append((float(c), scope))
        if a[0] in ("app", "par"):
            for k in a[2:] if a[0] == "app" else a[1:]:
                if isinstance(k, tuple):
                    try:
                        _breakpoints(poly_from_key(k), acc)
                    except Exception:
                        pass
    for a in p.atoms():
        atom(a)
    return acc


def witness_differs(p, q, rng=None, npoints=48):
    """search a numeric point where p and q differ; returns the point (dict) or None"""
    rng = rng or random.Random(0)
    syms = sorted(p.symbols() | q.symbols(), key=repr)
    bps = _breakpoints(p) + _breakpoints(q)
    tried = 0
    for k in range(npoints * 4):
        if tried >= npoints:
            break
        env = {}
        for s in syms:
            v = rng.uniform(0.3, 3.0)
            if k % 3 == 1 and rng.random() < 0.3:
                v = -v
            env[s] = v
        if bps and k % 2 == 0:
            # probe both sides of a clamp constant: the symbols inside the clamp get the magnitude of the constant
            c, scope = bps[(k // 2) % len(bps)]
            f = rng.choice((0.03, 0.3, 3.0, 30.0))
            for s in scope:
                if s in env:
                    env[s] = abs(c) * f * (1 if env[s] > 0 else -1)
        if s_pi in env:
            env[s_pi] = math.pi
        try:
            a, b = eval_poly(p, env), eval_poly(q, env)
        except (ValueError, ZeroDivisionError, OverflowError):
            continue
        tried += 1
        # relative comparison (values around a clamp constant are tiny: an absolute floor would hide the difference)
        if abs(a - b) > 1e-7 * max(abs(a), abs(b)) + 1e-200:
            return {fmt_atom(s): float("%.6g" % v) for s, v in env.items()}
    if tried == 0:
        return {"note": "no evaluable sample point found"}
    return None


s_pi = ("sym", "pi")
