"""Behaviour-preserving whole-package rewrites used to probe the rules for dependence on layout and on local names
(see tools/alpha.py and the thorough tier)."""
import ast


class Renamer(ast.NodeTransformer):
    def __init__(self):
        self.stack = []

    def _locals(self, fn):
        params = {a.arg for a in fn.args.posonlyargs + fn.args.args + fn.args.kwonlyargs}
        if fn.args.vararg:
            params.add(fn.args.vararg.arg)
        if fn.args.kwarg:
            params.add(fn.args.kwarg.arg)
        assigned, banned = set(), set(params)
        nested_used = set()

        def visit(n, top):
            for c in ast.iter_child_nodes(n):
                if isinstance(c, (ast.FunctionDef, ast.AsyncFunctionDef, ast.Lambda, ast.ClassDef)):
                    for x in ast.walk(c):
                        if isinstance(x, ast.Name):
                            nested_used.add(x.id)
                    if isinstance(c, (ast.FunctionDef, ast.ClassDef)):
                        banned.add(c.name)
                    continue
                if isinstance(c, (ast.Global, ast.Nonlocal)):
                    banned.update(c.names)
                if isinstance(c, ast.Name) and isinstance(c.ctx, (ast.Store, ast.Del)):
                    assigned.add(c.id)
                if isinstance(c, (ast.Import, ast.ImportFrom)):
                    for a in c.names:
                        banned.add((a.asname or a.name).split(".")[0])
                if isinstance(c, ast.ExceptHandler) and c.name:
                    banned.add(c.name)
                if isinstance(c, (ast.ListComp, ast.SetComp, ast.DictComp, ast.GeneratorExp)):
                    # comprehension variables are their own scope: do not rename (keeps the transformer simple)
                    for g in c.generators:
                        for x in ast.walk(g.target):
                            if isinstance(x, ast.Name):
                                banned.add(x.id)
                visit(c, False)
        visit(fn, True)
        return {n for n in assigned if n not in banned and n not in nested_used and not n.startswith("__")}

    def visit_FunctionDef(self, node):
        names = self._locals(node)
        self.stack.append(names)
        node.body = [self.visit(s) for s in node.body]
        self.stack.pop()
        return node

    def visit_Lambda(self, node):
        return node

    def visit_ClassDef(self, node):
        self.stack.append(set())
        node.body = [self.visit(s) for s in node.body]
        self.stack.pop()
        return node

    def visit_Name(self, node):
        if self.stack and node.id in self.stack[-1]:
            return ast.copy_location(ast.Name(id=node.id + "_v", ctx=node.ctx), node)
        return node


def rewrite(text, mode):
    tree = ast.parse(text)
    if mode == "rename":
        tree = Renamer().visit(tree)
        ast.fix_missing_locations(tree)
    return ast.unparse(tree) + "\n"


def package_overrides(sp, mode):
    """{module: rewritten source} for every module of the package"""
    out = {}
    for m in sp.modules():
        if m.startswith("ppsa_spec"):
            continue
        new = rewrite(sp.text(m), mode)
        compile(new, m, "exec")
        out[m] = new
    return out
