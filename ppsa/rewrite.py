"""Behaviour-preserving whole-package rewrites used to probe the rules for dependence on layout and on local names
(see tools/alpha.py and the thorough tier)."""
import ast


class Renamer(ast.NodeTransformer):
    def __init__(self):
        self.stack = []

    def _locals(self, fn):
        params = {a.arg for a in fn.args.posonlyargs + fn.args.args + fn.args.kwonlyargs}
        if fn.args.vararg:
            params.add(fn.args.vararg.arg)
        if fn.args.kwarg:
            params.add(fn.args.kwarg.arg)
        assigned, banned = set(), set(params)
        nested_used = set()

        def visit(n, top):
            for c in ast.iter_child_nodes(n):
                if isinstance(c, (ast.FunctionDef, ast.AsyncFunctionDef, ast.Lambda, ast.ClassDef)):
                    for x in ast.walk(c):
                        if isinstance(x, ast.Name):
                            nested_used.add(x.id)
                    if isinstance(c, (ast.FunctionDef, ast.ClassDef)):
                        banned.add(c.name)
                    continue
                if isinstance(c, (ast.Global, ast.Nonlocal)):
                    banned.update(c.names)
                if isinstance(c, ast.Name) and isinstance(c.ctx, (ast.Store, ast.Del)):
                    assigned.add(c.id)
                if isinstance(c, (ast.Import, ast.ImportFrom)):
                    for a in c.names:
                        banned.add((a.asname or a.name).split(".")[0])
                if isinstance(c, ast.ExceptHandler) and c.name:
                    banned.add(c.name)
                if isinstance(c, (ast.ListComp, ast.SetComp, ast.DictComp, ast.GeneratorExp)):
                    # comprehension variables are their own scope: do not rename (keeps the transformer simple)
                    for g in c.generators:
                        for x in ast.walk(g.target):
                            if isinstance(x, ast.Name):
                                banned.add(x.id)
                visit(c, False)
        visit(fn, True)
        return {n for n in assigned if n not in banned and n not in nested_used and not n.startswith("__")}

    def visit_FunctionDef(self, node):
        names = self._locals(node)
        self.stack.append(names)
        node.body = [self.visit(s) for s in node.body]
        self.stack.pop()
        return node

    def visit_Lambda(self, node):
        return node

    def visit_ClassDef(self, node):
        self.stack.append(set())
        node.body = [self.visit(s) for s in node.body]
        self.stack.pop()
        return node

    def visit_Name(self, node):
        if self.stack and node.id in self.stack[-1]:
            return ast.copy_location(ast.Name(id=node.id + "_v", ctx=node.ctx), node)
        return node


class Respell(ast.NodeTransformer):
    """equivalent spellings a maintainer (or a formatter / linter autofix) may choose"""

    def visit_Subscript(self, node):
        self.generic_visit(node)
        # np.where(c)[0]  ->  np.flatnonzero(c)
        v = node.value
        if isinstance(v, ast.Call) and isinstance(v.func, ast.Attribute) and v.func.attr == "where" and isinstance(v.func.value, ast.Name) \
                and v.func.value.id in ("np", "numpy") and len(v.args) == 1 and not v.keywords \
                and isinstance(node.slice, ast.Constant) and node.slice.value == 0 and isinstance(node.ctx, ast.Load):
            return ast.copy_location(ast.Call(func=ast.Attribute(value=v.func.value, attr="flatnonzero", ctx=ast.Load()),
                                              args=v.args, keywords=[]), node)
        return node

    def visit_BinOp(self, node):
        self.generic_visit(node)
        # x * (-1), x * -1, (-1) * x  ->  -x
        if isinstance(node.op, ast.Mult):
            for a, b in ((node.left, node.right), (node.right, node.left)):
                if isinstance(b, ast.UnaryOp) and isinstance(b.op, ast.USub) and isinstance(b.operand, ast.Constant) and b.operand.value == 1:
                    return ast.copy_location(ast.UnaryOp(op=ast.USub(), operand=a), node)
        # "... %s ..." % name  ->  f-string (one plain %s, a name or attribute chain as argument)
        if isinstance(node.op, ast.Mod) and isinstance(node.left, ast.Constant) and isinstance(node.left.value, str) \
                and node.left.value.count("%") == 1 and "%s" in node.left.value and "{" not in node.left.value and "}" not in node.left.value \
                and isinstance(node.right, (ast.Name, ast.Attribute)):
            pre, post = node.left.value.split("%s")
            vals = ([ast.Constant(value=pre)] if pre else []) + [ast.FormattedValue(value=node.right, conversion=-1)] \
                + ([ast.Constant(value=post)] if post else [])
            return ast.copy_location(ast.JoinedStr(values=vals), node)
        return node

    def visit_Call(self, node):
        self.generic_visit(node)
        f = node.func
        # dict() -> {}, list() -> []
        if isinstance(f, ast.Name) and not node.args and not node.keywords:
            if f.id == "dict":
                return ast.copy_location(ast.Dict(keys=[], values=[]), node)
            if f.id == "list":
                return ast.copy_location(ast.List(elts=[], ctx=ast.Load()), node)
        # np.divide(a, b) -> a / b  (two positional arguments, outside numba kernels this is the same ufunc)
        return node

    def visit_FunctionDef(self, node):
        # numba kernels keep their spelling (np.divide vs / differ there in error behaviour)
        if any("jit" in ast.unparse(d) for d in node.decorator_list):
            return node
        self.generic_visit(node)
        return node


class Keywordize(ast.NodeTransformer):
    """positional arguments of calls to package functions (resolved by unique name) become keyword arguments"""

    def __init__(self, sigs):
        self.sigs = sigs

    def visit_Call(self, node):
        self.generic_visit(node)
        f = node.func
        if isinstance(f, ast.Name) and f.id in self.sigs and len(node.args) >= 2 and not any(isinstance(a, ast.Starred) for a in node.args):
            params = self.sigs[f.id]
            if len(node.args) <= len(params) and not any(k.arg in params[:len(node.args)] for k in node.keywords if k.arg):
                kws = [ast.keyword(arg=p_, value=a) for p_, a in zip(params[1:], node.args[1:])]
                node.keywords = kws + node.keywords
                node.args = node.args[:1]
        return node


def signatures(texts):
    """{function name: positional parameter names} of the module-level functions whose name is unique in the package and that
    take no *args"""
    seen, dup = {}, set()
    for t in texts:
        for n in ast.parse(t).body:
            if isinstance(n, ast.FunctionDef):
                if n.name in seen:
                    dup.add(n.name)
                if n.args.vararg is None and not n.decorator_list:
                    seen[n.name] = [a.arg for a in n.args.posonlyargs + n.args.args]
                else:
                    dup.add(n.name)
    return {k: v for k, v in seen.items() if k not in dup and not n_is_builtin(k)}


def n_is_builtin(name):
    import builtins
    return hasattr(builtins, name)


def rewrite(text, mode, sigs=None):
    tree = ast.parse(text)
    if mode == "rename":
        tree = Renamer().visit(tree)
    elif mode == "respell":
        tree = Respell().visit(tree)
    elif mode == "kwargs":
        tree = Keywordize(sigs or {}).visit(tree)
    ast.fix_missing_locations(tree)
    return ast.unparse(tree) + "\n"


def package_overrides(sp, mode):
    """{module: rewritten source} for every module of the package"""
    out = {}
    mods = [m for m in sp.modules() if not m.startswith("ppsa_spec")]
    sigs = signatures([sp.text(m) for m in mods]) if mode == "kwargs" else None
    for m in mods:
        new = rewrite(sp.text(m), mode, sigs)
        compile(new, m, "exec")
        out[m] = new
    return out
