"""ppsa -- pandapipes static analysis.

Repository-specific static checkers (stdlib ``ast`` only) deciding structural clauses of the
properties in /verif/properties.jsonl on the *current* source tree of /repo.  pandapipes is never
imported or executed by anything in this package.
"""
