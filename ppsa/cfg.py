"""Statement-level control-flow graph for the statement kinds pandapipes uses.

Nodes are simple statements and the *test* of compound statements.  Edges carry a label:
None (sequential), 'T'/'F' (test outcome), 'exc' (into an exception handler), 'back' (loop back).
Two synthetic exits: EXIT (normal return / fall off the end) and RAISE (uncaught raise).
Implicit exceptions of arbitrary calls are modelled only inside ``try`` bodies.
"""
import ast

from .source import AnalysisError


class Node:
    __slots__ = ("id", "kind", "ast", "test")

    def __init__(self, id, kind, node, test=None):
        self.id = id
        self.kind = kind      # 'stmt' | 'if' | 'while' | 'for' | 'entry' | 'exit' | 'raise' | 'handler' | 'with'
        self.ast = node
        self.test = test

    def __repr__(self):
        s = ast.unparse(self.test if self.test is not None else self.ast)[:60] if self.ast is not None else ""
        return "<%d %s %s>" % (self.id, self.kind, s)


class CFG:
    def __init__(self, fnode):
        self.fnode = fnode
        self.nodes = []
        self.succ = {}
        self.entry = self._new("entry", None)
        self.exit = self._new("exit", None)
        self.raise_exit = self._new("raise", None)
        first = self._seq(fnode.body, self.exit, {"brk": None, "cont": None, "handlers": []})
        self._edge(self.entry, first)
        self._pred = None

    # -- construction ------------------------------------------------------------------------
    def _new(self, kind, node, test=None):
        n = Node(len(self.nodes), kind, node, test)
        self.nodes.append(n)
        self.succ[n.id] = []
        return n.id

    def _edge(self, a, b, label=None):
        if (b, label) not in self.succ[a]:
            self.succ[a].append((b, label))

    def _seq(self, stmts, nxt, ctx):
        """build the statement list so that control continues at `nxt`; returns the entry id."""
        cur = nxt
        for st in reversed(stmts):
            cur = self._stmt(st, cur, ctx)
        return cur

    def _exc_targets(self, ctx):
        if ctx["handlers"]:
            return ctx["handlers"][-1]
        return [self.raise_exit]

    def _stmt(self, st, nxt, ctx):
        if isinstance(st, ast.If):
            n = self._new("if", st, st.test)
            self._edge(n, self._seq(st.body, nxt, ctx), "T")
            self._edge(n, self._seq(st.orelse, nxt, ctx) if st.orelse else nxt, "F")
            self._maybe_exc(n, st.test, ctx)
            return n
        if isinstance(st, ast.While):
            n = self._new("while", st, st.test)
            after = self._seq(st.orelse, nxt, ctx) if st.orelse else nxt
            c2 = dict(ctx, brk=nxt, cont=n)
            body = self._seq(st.body, n, c2)
            self._edge(n, body, "T")
            self._edge(n, after, "F")
            return n
        if isinstance(st, (ast.For, ast.AsyncFor)):
            n = self._new("for", st, st.iter)
            after = self._seq(st.orelse, nxt, ctx) if st.orelse else nxt
            c2 = dict(ctx, brk=nxt, cont=n)
            body = self._seq(st.body, n, c2)
            self._edge(n, body, "T")
            self._edge(n, after, "F")
            self._maybe_exc(n, st.iter, ctx)
            return n
        if isinstance(st, ast.Try):
            after = nxt
            if st.finalbody:
                after = self._seq(st.finalbody, nxt, ctx)
            h_entries = []
            for h in st.handlers:
                hn = self._new("handler", h)
                self._edge(hn, self._seq(h.body, after, ctx))
                h_entries.append(hn)
            if not h_entries:
                h_entries = self._exc_targets(ctx)
            else_entry = self._seq(st.orelse, after, ctx) if st.orelse else after
            c2 = dict(ctx, handlers=ctx["handlers"] + [h_entries])
            return self._seq(st.body, else_entry, c2)
        if isinstance(st, (ast.With, ast.AsyncWith)):
            n = self._new("with", st)
            self._edge(n, self._seq(st.body, nxt, ctx))
            return n
        if isinstance(st, ast.Return):
            n = self._new("stmt", st)
            self._edge(n, self.exit, "ret")
            if st.value is not None:
                self._maybe_exc(n, st.value, ctx)
            return n
        if isinstance(st, ast.Raise):
            n = self._new("stmt", st)
            for t in self._exc_targets(ctx):
                self._edge(n, t, "exc")
            return n
        if isinstance(st, ast.Break):
            n = self._new("stmt", st)
            if ctx["brk"] is None:
                raise AnalysisError("break outside loop")
            self._edge(n, ctx["brk"], "brk")
            return n
        if isinstance(st, ast.Continue):
            n = self._new("stmt", st)
            self._edge(n, ctx["cont"], "back")
            return n
        if isinstance(st, (ast.FunctionDef, ast.AsyncFunctionDef, ast.ClassDef)):
            n = self._new("stmt", st)
            self._edge(n, nxt)
            return n
        if isinstance(st, ast.Match):
            raise AnalysisError("match statement not supported by the CFG builder")
        n = self._new("stmt", st)
        self._edge(n, nxt)
        self._maybe_exc(n, st, ctx)
        return n

    def _maybe_exc(self, n, node, ctx):
        # inside a try body, anything containing a call may transfer to the handlers
        if ctx["handlers"] and any(isinstance(x, (ast.Call, ast.Subscript, ast.Attribute))
                                   for x in ast.walk(node)):
            for t in ctx["handlers"][-1]:
                self._edge(n, t, "exc")

    # -- queries ------------------------------------------------------------------------------
    def pred(self):
        if self._pred is None:
            p = {n.id: [] for n in self.nodes}
            for a, outs in self.succ.items():
                for b, lab in outs:
                    p[b].append((a, lab))
            self._pred = p
        return self._pred

    def reachable(self, starts, edge_ok=None, include_starts=False):
        """forward reachability from the successors of `starts`; `edge_ok(a, b, label)` filters."""
        seen = set()
        work = []
        for s in starts:
            for b, lab in self.succ[s]:
                if edge_ok is None or edge_ok(s, b, lab):
                    work.append(b)
        if include_starts:
            seen.update(starts)
        while work:
            a = work.pop()
            if a in seen:
                continue
            seen.add(a)
            for b, lab in self.succ[a]:
                if b not in seen and (edge_ok is None or edge_ok(a, b, lab)):
                    work.append(b)
        return seen

    def stmt_nodes(self):
        return [n for n in self.nodes if n.ast is not None]

    def node_of(self, astnode):
        for n in self.nodes:
            if n.ast is astnode:
                return n
        return None

    def containing(self, sub):
        """CFG node whose own expression(s) contain the ast node `sub` (not nested statements)."""
        for n in self.nodes:
            if n.ast is None:
                continue
            roots = [n.test] if n.test is not None else ([n.ast] if n.kind in ("stmt",) else
                                                         ([i.context_expr for i in n.ast.items]
                                                          if n.kind == "with" else []))
            for r in roots:
                for x in ast.walk(r):
                    if x is sub:
                        return n
        return None

    def always_raises(self, entry_ids, stop=None):
        """True iff every path from the given nodes ends in RAISE without reaching EXIT."""
        seen = set()
        work = list(entry_ids)
        while work:
            a = work.pop()
            if a in seen:
                continue
            seen.add(a)
            if a == self.exit:
                return False
            for b, lab in self.succ[a]:
                work.append(b)
        return True

    def dominators(self):
        ids = [n.id for n in self.nodes]
        pred = self.pred()
        dom = {i: set(ids) for i in ids}
        dom[self.entry] = {self.entry}
        changed = True
        while changed:
            changed = False
            for i in ids:
                if i == self.entry:
                    continue
                ps = [p for p, _ in pred[i]]
                if not ps:
                    new = {i}
                else:
                    new = set.intersection(*[dom[p] for p in ps]) | {i}
                if new != dom[i]:
                    dom[i] = new
                    changed = True
        return dom


def calls_in(node):
    """all Call nodes inside a CFG node's own expressions, in source order."""
    roots = []
    if isinstance(node, Node):
        if node.test is not None:
            roots = [node.test]
        elif node.kind == "with":
            roots = [i.context_expr for i in node.ast.items]
        elif node.kind == "stmt" and not isinstance(node.ast, (ast.FunctionDef, ast.ClassDef)):
            roots = [node.ast]
    else:
        roots = [node]
    out = []
    for r in roots:
        out.extend(x for x in ast.walk(r) if isinstance(x, ast.Call))
    out.sort(key=lambda c: (c.lineno, c.col_offset))
    return out
