"""Source access: files of the pandapipes package -> text -> ast.

The repository root is ``$PPSA_REPO`` (default ``/repo``).  ``overrides`` maps a module name to
replacement source text; that is how in-memory mutants are analysed without scratch copies.
"""
import ast
import os


class AnalysisError(Exception):
    """The analysis itself cannot proceed (anchor vanished, unsupported construct, floor not met).
    Never a property verdict: reported as ANALYSIS-ERROR, exit code 2."""


def repo_root():
    return os.environ.get("PPSA_REPO", "/repo")


class SourceProvider:
    PKG = "pandapipes"

    def __init__(self, root=None, overrides=None):
        self.repo = root or repo_root()
        self.pkg_dir = os.path.join(self.repo, "src", self.PKG)
        if not os.path.isdir(self.pkg_dir):
            raise AnalysisError("package directory %s not found" % self.pkg_dir)
        self.overrides = dict(overrides or {})
        self._mods = None
        self._text = {}
        self._tree = {}

    # -- module discovery -------------------------------------------------------------------
    def modules(self):
        """dict module name -> path, all .py files of the package except the test suite."""
        if self._mods is None:
            mods = {}
            for dp, dns, fns in os.walk(self.pkg_dir):
                rel = os.path.relpath(dp, self.pkg_dir)
                parts = [] if rel == "." else rel.split(os.sep)
                if parts and parts[0] == "test":
                    dns[:] = []
                    continue
                dns[:] = sorted(d for d in dns if d != "__pycache__")
                for fn in sorted(fns):
                    if not fn.endswith(".py"):
                        continue
                    if fn == "__init__.py":
                        name = ".".join([self.PKG] + parts)
                    else:
                        name = ".".join([self.PKG] + parts + [fn[:-3]])
                    mods[name] = os.path.join(dp, fn)
            spec_dir = os.path.join(os.path.dirname(os.path.abspath(__file__)), "spec")
            for fn in sorted(os.listdir(spec_dir)) if os.path.isdir(spec_dir) else []:
                if fn.endswith(".py") and fn != "__init__.py":
                    mods["ppsa_spec." + fn[:-3]] = os.path.join(spec_dir, fn)
            self._mods = mods
        return self._mods

    def package_modules(self):
        return {m: p for m, p in self.modules().items() if m.startswith(self.PKG)}

    def is_package(self, mod):
        p = self.modules().get(mod)
        return p is not None and p.endswith("__init__.py")

    def path(self, mod):
        try:
            return self.modules()[mod]
        except KeyError:
            raise AnalysisError("module %s not found in %s" % (mod, self.pkg_dir))

    def relpath(self, mod):
        p = self.path(mod)
        if mod.startswith("ppsa_spec."):
            return "verif:" + os.path.relpath(p, os.path.dirname(os.path.dirname(os.path.abspath(__file__))))
        return os.path.relpath(p, self.repo)

    def text(self, mod):
        if mod in self.overrides:
            return self.overrides[mod]
        if mod not in self._text:
            with open(self.path(mod), encoding="utf-8") as fh:
                self._text[mod] = fh.read()
        return self._text[mod]

    def tree(self, mod):
        if mod not in self._tree:
            try:
                self._tree[mod] = ast.parse(self.text(mod), filename=self.path(mod))
            except SyntaxError as e:
                raise AnalysisError("cannot parse %s: %s" % (mod, e))
        return self._tree[mod]

    # -- non-python package data ---------------------------------------------------------------
    def data_path(self, *parts):
        return os.path.join(self.pkg_dir, *parts)

    def doc_path(self, *parts):
        return os.path.join(self.repo, "doc", "source", *parts)
