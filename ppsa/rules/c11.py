"""C11 -- heat exchangers, consumers and circulation pumps report consistent heat duties.

 R11.1 the five heat-consumer mode formulas are instances of  Q = m * cp_mean * (T_in - T_out)
 R11.2 the mode table: distinct codes, each assigned under exactly its two prescribed inputs, every test uses a defined code
 R11.3 reported quantities: qext_w, deltat_k of consumer and circulation pump, heat-exchanger heat input
"""
import ast

from .. import phys
from ..algebra import BExpr, GExpr, Poly, apply_fn, b_ne0, frac, select
from ..astutil import U, assignments, calls, callee_name, const_str, own_walk
from ..kernelir import PyVal
from ..phys import bcol, check_equal, g, ncol, run_spec
from ..source import AnalysisError

HC = "pandapipes.component_models.heat_consumer_component.HeatConsumer"

EXPLANATION = (
    "The heat-consumer hooks are summarised by forward substitution for the concrete class (MRO-resolved cls./"
    "super() calls, component array columns, masks as guards) and compared with the one thermal branch relation "
    "Q = m * mean(cp(T_in), cp(T_out)) * (T_in - T_out) (the lumped form of the thermal branch residual decided under "
    "C10): (R11.1) QE_DT sets m = Q/(cp dT); MF_DT sets Q = cp m dT; MF_TR sets Q = cp m (T_in - T_return); QE_TR "
    "linearises -Q + df_dm*m with df_dm = -cp (T_out - T_in) and pins the thermal row; all modes pin the hydraulic "
    "row to the prescribed mass flow (identity quartet); cp is get_branch_cp of the same rows. (R11.2) the five mode "
    "codes are distinct, each is assigned under the conjunction of exactly its two non-NaN inputs, every comparison "
    "with a mode uses a defined code, and creation enforces 'exactly two'. (R11.3) res qext_w <- QEXT, deltat_k <- "
    "T[flow-corrected from node] - TOUTINIT for consumer and circulation pump, the pump's qext is m (cp(T_out) T_out - "
    "cp(T_in) T_in), the heat exchanger writes QEXT <- qext_w. (R11.4, shared with C07 R7.1) the numba twin of the thermal kernel computes the same residuals as the numpy kernel the mode formulas are checked against. Decided: the formulas and wiring; not decided: "
    "loop-level energy closure of a solved network (a sum over runtime results).")
ASSUMPTIONS = [phys.POSITIVITY_TEXT, "transient=False"]
TECHNIQUE = "per-class value numbering of component hooks vs one transcribed relation; class-attribute table checks"
EXPLANATION += (' ' + '(R11.5, the comparison of C10 R10.1) the thermal branch residual and its derivatives, of which the duty formulas are the inverse, equal the documented relation.')
EXPLANATION += (' ' + '(R11.6, shared with C02 R2.4) the branch results the heat components report (t_outlet, temp_from, temp_to, qext, mass flows) are the pit columns of the solved state for every row.')


def _hc(ix):
    return [c for c in ix.components() if c.name == "HeatConsumer"][0]


def _arr(name):
    return Poly.sym("col", "heat_consumer.array", "i", "array", name)


def _mode_is(ix, name):
    code = ix.eval_const(_hc(ix).module, _hc(ix).attrs[name])
    return ~b_ne0(_arr("MODE") - code)


def _cp_mean():
    t_in = ncol("TINIT", phys.FROM_C)
    t_out = bcol("TOUTINIT")
    return (apply_fn("fluid.get_heat_capacity", [t_in]) + apply_fn("fluid.get_heat_capacity", [t_out])) / 2


def r11_1(run):
    ix = run.index
    ci = _hc(ix)
    cp = _cp_mean()
    t_in = ncol("TINIT", phys.FROM_C)
    t_out = bcol("TOUTINIT")
    m, q = bcol("MDOTINIT"), bcol("QEXT")

    def hook(name):
        ki, k = phys.hook_summary(ix, ci, name)
        f = ix.lookup_method(ci, name)
        run.analysed(f)
        return {key[3]: v for key, v in ki.pit.items() if key[0] == "branch_pit"}, run.where(f, f.node)

    # QE_DT: m = Q / (cp dT)   <=>   Q = heat_balance(cp, m, T_in - T_out = dT)
    got, w = hook("adaption_before_derivatives_hydraulic")
    dT = _arr("DELTAT")
    want = select(_mode_is(ix, "QE_DT"), g(q / (cp * dT)), g(m))
    check_equal(run, "QE_DT|mdot=Q/(cp*dT)", got.get("MDOTINIT", g(Poly.sym("missing"))), want,
                "mode QE_DT prescribes the mass flow Q/(mean cp * deltat) and leaves other modes untouched", w)
    # consistency with the one relation: substituting back gives Q
    hb = run_spec(ix, "heat_balance", {"cp": g(cp), "m": g(q / (cp * dT)), "t_in": g(dT), "t_out": g(Poly())})[0]
    check_equal(run, "QE_DT|inverse-of-heat-balance", hb, g(q), "Q = cp m dT evaluated at that mass flow returns Q", w)
    # MF_DT / MF_TR
    got, w = hook("adaption_before_derivatives_thermal")
    q_dt = run_spec(ix, "heat_balance", {"cp": g(cp), "m": g(m), "t_in": g(dT), "t_out": g(Poly())})[0]
    q_tr = run_spec(ix, "heat_balance", {"cp": g(cp), "m": g(m), "t_in": g(t_in), "t_out": g(_arr("TRETURN"))})[0]
    want = select(_mode_is(ix, "MF_TR"), q_tr, select(_mode_is(ix, "MF_DT"), q_dt, g(q)))
    check_equal(run, "MF_DT,MF_TR|qext", got.get("QEXT", g(Poly.sym("missing"))), want,
                "MF_DT: Q = cp m deltat; MF_TR: Q = cp m (T_in - T_return); other modes keep their Q", w)
    # hydraulic row: identity quartet on all rows, QE_TR linearisation
    got, w = hook("adaption_after_derivatives_hydraulic")
    for colname, val in (("JAC_DERIV_DP", 0), ("JAC_DERIV_DP1", 0)):
        check_equal(run, "hydraulic-row|%s" % colname, got.get(colname, g(Poly.sym("missing"))), g(Poly.const(val)),
                    "%s = %d on every heat-consumer row (mass flow is prescribed)" % (colname, val), w)
    qe_tr = _mode_is(ix, "QE_TR")
    dfdm = -cp * (t_out - t_in)
    from ..algebra import b_le0
    ign = b_le0(t_in - t_out) | ~b_ne0(q)          # t_out >= t_in  or  Q == 0
    want_dm = select(qe_tr & ~ign, g(dfdm), g(Poly.const(1)))
    check_equal(run, "hydraulic-row|JAC_DERIV_DM", got.get("JAC_DERIV_DM", g(Poly.sym("missing"))), want_dm,
                "JAC_DERIV_DM = 1 (prescribed flow) except QE_TR rows with heat demand, where it is -cp (T_out - T_in)", w)
    m_after = select(qe_tr & ign, g(Poly()), g(m))
    want_lv = select(qe_tr, g(-q) + g(dfdm) * m_after, g(Poly()))
    check_equal(run, "hydraulic-row|LOAD_VEC_BRANCHES", got.get("LOAD_VEC_BRANCHES", g(Poly.sym("missing"))), want_lv,
                "residual = 0 (flow prescribed) except QE_TR: -Q + df_dm * m, i.e. Q = cp m (T_in - T_out) linearised in m", w)
    # thermal row of QE_TR
    got, w = hook("adaption_after_derivatives_thermal")
    on = qe_tr & b_ne0(q)
    for colname, val in (("LOAD_VEC_BRANCHES_T", 0), ("JAC_DERIV_DTOUT", 1), ("JAC_DERIV_DT", 0)):
        want = select(on, g(Poly.const(val)), g(bcol(colname)))
        check_equal(run, "thermal-row|QE_TR|%s" % colname, got.get(colname, g(Poly.sym("missing"))), want,
                    "QE_TR rows with heat demand pin the outlet temperature (thermal identity row): %s = %d" % (colname, val), w)
    run.floor(10)


EXPECT_INPUTS = {"MF_DT": {"controlled_mdot_kg_per_s", "deltat_k"}, "MF_TR": {"controlled_mdot_kg_per_s", "treturn_k"},
                 "QE_MF": {"qext_w", "controlled_mdot_kg_per_s"}, "QE_DT": {"qext_w", "deltat_k"},
                 "QE_TR": {"qext_w", "treturn_k"}}


def r11_2(run):
    ix = run.index
    ci = _hc(ix)
    codes = {}
    for name in EXPECT_INPUTS:
        if name not in ci.attrs:
            run.ob("mode-code|%s" % name, False, "mode code %s is defined" % name, run.where(ci, ci.node))
            continue
        codes[name] = ix.eval_const(ci.module, ci.attrs[name])
    run.ob("mode-codes-distinct", len(set(codes.values())) == len(codes) == 5 and 0 not in codes.values(),
           "the five mode codes are distinct and non-zero (0 = no mode): %s" % codes, run.where(ci, ci.node))
    f = ci.methods["create_component_array"]
    run.analysed(f)
    # whole-function terms: `arr[<mask>, cls.MODE] = cls.<CODE>` with <mask> a conjunction of `~isnan(<table>.<column>.values)`
    from ..arrnf import ANF as _ANF, conjuncts as _conj
    ra = _ANF(ix, f).run()

    def given_column(t):
        """column name when t is ~np.isnan(<table>.<col>.values) / ~np.isnan(<table>[<col>].values)"""
        if not (t[0] == "u" and t[1] == "~" and t[2][0] == "call" and t[2][1] == ("x", "numpy.isnan") and len(t[2][2]) == 1):
            return None
        v = t[2][2][0]
        while v[0] == "attr" and v[2] == "values":
            v = v[1]
        if v[0] == "attr":
            return v[2]
        if v[0] == "idx" and len(v[2]) == 1 and v[2][0][0] == "c":
            return v[2][0][1]
        return None
    assigned = {}
    for e in ra.stores():
        if len(e.index) == 2 and e.index[1] == ("attr", ("n", "cls"), "MODE") and e.value[0] == "attr" and e.value[1] == ("n", "cls"):
            cols_ = [given_column(x) for x in _conj(e.index[0])]
            assigned[e.value[2]] = (cols_, e)
    for mode, want in EXPECT_INPUTS.items():
        ok = mode in assigned
        got = None
        if ok:
            cols_, ev_ = assigned[mode]
            ok = None not in cols_ and set(cols_) == want
            got = set(cols_)
        run.ob("mode-assignment|%s" % mode, ok,
               "mode %s is assigned where exactly %s are given (not NaN)" % (mode, sorted(want)), run.where(f, f.node),
               detail="assigned under %s" % got)
    # every comparison with a mode code uses a defined one
    n_cmp = 0
    for mname, m in ci.methods.items():
        for n in ast.walk(m.node):
            if isinstance(n, ast.Compare) and "cls.MODE" in U(n.left) and isinstance(n.comparators[0], ast.Attribute):
                n_cmp += 1
                run.ob("mode-test|%s|%s" % (mname, n.comparators[0].attr), n.comparators[0].attr in codes,
                       "comparison with a defined mode code", run.where(m, n))
    run.ob("mode-tests-found", n_cmp >= 5, "mode comparisons found in the hooks (%d)" % n_cmp, run.where(ci, ci.node))
    # creation enforces "exactly two"
    cr = ix.func("pandapipes.create.create_heat_consumer")
    run.analysed(cr)
    src = U(cr.node)
    ok = any(isinstance(n, ast.If) and "!= 2" in U(n.test).replace(" ", " ") and any(isinstance(x, ast.Raise) for x in n.body)
             for n in ast.walk(cr.node))
    run.ob("create_heat_consumer|exactly-two", ok,
           "create_heat_consumer raises unless exactly two of the four quantities are given", run.where(cr, cr.node))
    crs = ix.func("pandapipes.create.create_heat_consumers")
    ok = any(isinstance(n, ast.If) and any(isinstance(x, ast.Raise) for x in n.body) and "2" in U(n.test)
             for n in ast.walk(crs.node))
    run.ob("create_heat_consumers|exactly-two", ok,
           "create_heat_consumers raises unless exactly two of the four quantities are given per consumer", run.where(crs, crs.node))
    run.floor(12)


def r11_3(run):
    ix = run.index
    t_in = ncol("TINIT", phys.FROM_C)
    t_out = bcol("TOUTINIT")
    consts = {"fluid.is_gas": False, "any:*": False}
    args = {"mode": PyVal("sequential"), "options": PyVal({"calc_compression_power": PyVal(True)})}
    for cname in ("HeatConsumer", "CirculationPumpMass", "CirculationPumpPressure"):
        ci = [c for c in ix.components() if c.name == cname][0]
        ki, k = phys.hook_summary(ix, ci, "extract_results", consts, args)
        f = ix.lookup_method(ci, "extract_results")
        run.analysed(f)
        w = run.where(f, f.node)
        wr = {x["column"]: x for x in ki.res_writes}
        if "deltat_k" in wr:
            check_equal(run, "%s|deltat_k" % cname, wr["deltat_k"]["value"], g(t_in - t_out),
                        "deltat_k = T(flow-corrected inlet node) - outlet temperature", w)
        else:
            run.ob("%s|deltat_k" % cname, False, "deltat_k is reported", w)
        if cname == "HeatConsumer":
            check_equal(run, "%s|qext_w" % cname, wr["qext_w"]["value"] if "qext_w" in wr else g(Poly.sym("missing")), g(bcol("QEXT")),
                        "qext_w is the QEXT column of the consumer's own rows", w)
        else:
            cpo = apply_fn("fluid.get_heat_capacity", [t_out])
            cpi = apply_fn("fluid.get_heat_capacity", [t_in])
            want = bcol("MDOTINIT") * (cpo * t_out - cpi * t_in)
            check_equal(run, "%s|qext_w" % cname, wr["qext_w"]["value"] if "qext_w" in wr else g(Poly.sym("missing")), g(want),
                        "pump heat = m (cp(T_out) T_out - cp(T_in) T_in)", w)
    # heat exchanger: QEXT <- qext_w (unscaled, W)
    he = [c for c in ix.components() if c.name == "HeatExchanger"][0]
    ki, k = phys.hook_summary(ix, he, "create_pit_branch_entries", {"option:transient": False}, partial=True)
    f = ix.lookup_method(he, "create_pit_branch_entries")
    run.analysed(f)
    got = {key[3]: v for key, v in ki.pit.items() if key[0] == "branch_pit"}
    check_equal(run, "HeatExchanger|QEXT<-qext_w", got.get("QEXT", g(Poly.sym("missing"))), g(Poly.sym("tbl", "heat_exchanger", "qext_w")),
                "the heat exchanger's QEXT column is the user's qext_w", run.where(f, f.node))
    run.floor(7)


def r11_4(run):
    """the heat duty enters the solver through the thermal branch relation; the numba twin of that kernel must compute the same
    guarded expressions as the numpy twin the mode formulas are checked against (shared with C07 R7.1, thermal pair)"""
    from .c07 import r7_1
    r7_1(run, only={"derivatives_thermal"}, floor=4, residual_only=True)


def r11_5(run):
    """the heat a consumer / exchanger reports is mdot * cp_mean * temperature drop with the same mean heat capacity the thermal
    branch equation uses: that equation is the documented law with cp evaluated at the branch's own inlet and outlet temperature
    (shared with C10 R10.1)"""
    from .c10 import r10_1
    r10_1(run)


RULES = [("R11.1", r11_1), ("R11.2", r11_2), ("R11.3", r11_3), ("R11.4", r11_4), ("R11.5", r11_5)]


def r11_6(run):
    """the duty is reported from the same quantities it was calculated with: the generic branch results the heat components report
    (t_outlet, temp_from, temp_to, qext, the mass flows) are the pit columns of the solved state, for every row, whatever the
    flow direction -- shared with C02 R2.4 (get_basic_branch_results maps every result key to its pit column / formula)"""
    from .c02 import r2_4
    r2_4(run)


RULES.append(("R11.6", r11_6))
