"""C07 -- numba and numpy engines and the matrix-update option give the same answer.

 R7.1 twin kernels define the same guarded per-element function (value numbering + normal form)
 R7.2 kernel selection binds the same local names to matching twins and shares the call
 R7.3 the cached sparse structure depends only on topology columns, is used only for the hydraulic
      system, and internal data is dropped unless reuse was requested
"""
import ast
import hashlib
import random

from ..algebra import BExpr, GExpr, Poly, compare, select
from ..astutil import U, assignments, calls, callee_name, const_str, own_walk, returns
from ..kernelir import IndexSet, KInterp, PyVal, Unsupported
from ..pathcond import parents, path_condition
from ..source import AnalysisError

DC = "pandapipes.pf.derivative_calculation"
RE = "pandapipes.pf.result_extraction"
BSM = "pandapipes.pf.build_system_matrix"
P = "pandapipes.pipeflow"
PS = "pandapipes.pf.pipeflow_setup"

EXPLANATION = (
    "(R7.1) For every numpy/numba twin pair selected under `use_numba` (derivatives_hydraulic_incomp/_comp, "
    "derivatives_thermal, calc_lambda_nikuradse_incomp/_comp, calc_medium_pressure_with_derivative, "
    "calc_derived_values, get_branch_results_gas) both implementations are translated by forward substitution into "
    "guarded per-element expressions (numpy masks and numba `if`/loops become guards; three relational idioms are "
    "recognised) and compared as exact rational normal forms over a decision table of the canonical guard atoms "
    "(|x|<=tol, x!=y, isnan, node-incident-to-flowing-branch), with transient=False constant-propagated; the number "
    "and order of outputs must agree with the callers' unpacking. A mismatch is reported only if a numeric witness "
    "confirms that the two normal forms differ. (R7.2) the two arms of each `use_numba` selection bind the same "
    "local names and the call is shared. (R7.3) the backward slice of the sparse structure (rows/cols/ordering) in "
    "build_system_matrix reads only topology/type columns, every access of the cached structure is restricted to "
    "the hydraulic system, system_data and load_vector are recomputed on both arms, the cache is written only under "
    "the update option, internal data is dropped by hydraulics/bidirectional unless reuse_internal_data, and "
    "init_options forces reuse_internal_data off without only_update_hydraulic_matrix. "
    "Decided: equality of the twin kernels as functions and the structure of the cache logic; not decided: equality "
    "of end results of two runs (floating-point summation order), the _sum_by_group twins (shape only, under C06).")
ASSUMPTIONS = [
    "numba compiles the loop kernels with the semantics of the Python source (nopython mode, IEEE arithmetic)",
    "strict and non-strict comparison at a single threshold value are not distinguished (null set)",
    "transient=False (transient arms are outside the listed properties)",
]
TECHNIQUE = "global value numbering of both twin kernels into guarded rational normal forms, decision-table comparison with numeric witness filter; backward slicing / path conditions for the matrix cache"
EXPLANATION += (' ' + '(R7.4, the analysis of C06 R6.3 applied to both engines) the numpy and the numba group sum order the indices and every value array by the same permutation before the segment sums; an engine that sorts only the keys pairs sums with the wrong nodes.')


def _h(*parts):
    return hashlib.sha1("||".join(parts).encode()).hexdigest()[:10]


def twin_pairs(ix):
    """(alias, (mod_nb, name_nb), (mod_np, name_np), selecting function) from the `use_numba` selections"""
    pairs = []
    for modname in (DC, RE):
        mi = ix.module(modname)
        for fi in mi.functions.values():
            for n in own_walk(fi.node):
                if not (isinstance(n, ast.If) and "use_numba" in U(n.test)):
                    continue
                arms = []
                for body in (n.body, n.orelse):
                    imp = {}
                    for s in body:
                        if isinstance(s, ast.ImportFrom):
                            for al in s.names:
                                if ix.has_module("%s.%s" % (s.module, al.name)):
                                    continue        # a module is imported, not a kernel (kernels looked up by name: _reflective_pairs)
                                imp[al.asname or al.name] = (s.module, al.name)
                    arms.append(imp)
                if arms[0] and arms[1]:
                    for alias in sorted(set(arms[0]) | set(arms[1])):
                        pairs.append((alias, arms[0].get(alias), arms[1].get(alias), fi, n))
                elif arms[0] and not n.orelse:
                    # `if use_numba: import X; return X(..)`  followed by  `import Y; return Y(..)`
                    rest = fi.node.body[fi.node.body.index(n) + 1:]
                    imp2 = {}
                    for s in rest:
                        if isinstance(s, ast.ImportFrom):
                            for al in s.names:
                                imp2[al.asname or al.name] = (s.module, al.name)
                    if len(arms[0]) == 1 and len(imp2) == 1:
                        (a0, v0), = arms[0].items()
                        (a1, v1), = imp2.items()
                        pairs.append((a0.replace("_numba", ""), v0, v1, fi, n))
                elif not arms[0] and not arms[1]:
                    # arms call different module-level functions
                    c0 = [c for s in n.body for c in calls(s) if isinstance(c.func, ast.Name)]
                    c1 = [c for s in n.orelse for c in calls(s) if isinstance(c.func, ast.Name)]
                    c0 = [c for c in c0 if ix.resolve_in(fi, c.func.id) and ix.resolve_in(fi, c.func.id)[0] == "func"]
                    c1 = [c for c in c1 if ix.resolve_in(fi, c.func.id) and ix.resolve_in(fi, c.func.id)[0] == "func"]
                    if len(c0) == 1 and len(c1) == 1:
                        f0 = ix.resolve_in(fi, c0[0].func.id)[1]
                        f1 = ix.resolve_in(fi, c1[0].func.id)[1]
                        pairs.append((f1.name, (f0.module, f0.name), (f1.module, f1.name), fi, n))
    pairs.extend(_reflective_pairs(ix, {(p[1], p[2]) for p in pairs}))
    return pairs


def _reflective_pairs(ix, have):
    """twins that are selected by name: a selector function that looks its result up with getattr(<module>, <computed name>) in the
    arms of a use_numba test, called with string constants S for which <S>_numba and <S>_np exist in the modules it imports"""
    out = []
    for modname in (DC, RE):
        mi = ix.module(modname)
        selectors = {}
        for g in mi.functions.values():
            refl = [n for n in ast.walk(g.raw_node) if isinstance(n, ast.Call) and isinstance(n.func, ast.Name) and n.func.id == "getattr"
                    and len(n.args) >= 2 and not isinstance(n.args[1], ast.Constant)]
            if not refl or not any(isinstance(n, ast.If) and "use_numba" in U(n.test) for n in ast.walk(g.raw_node)):
                continue
            mods = []
            for n in ast.walk(g.raw_node):
                if isinstance(n, ast.ImportFrom):
                    for al in n.names:
                        full = (n.module or "") + "." + al.name
                        if ix.has_module(full):
                            mods.append(full)
                        elif n.module and ix.has_module(n.module):
                            mods.append(n.module)
                elif isinstance(n, ast.Import):
                    mods.extend(al.name for al in n.names if ix.has_module(al.name))
            tests = [n for n in ast.walk(g.raw_node) if isinstance(n, ast.If) and "use_numba" in U(n.test)]
            if len(set(mods)) == 2 and len(tests) == 1:
                selectors[g.name] = (sorted(set(mods), key=lambda m_: not m_.endswith("numba")), g, tests[0])
        if not selectors:
            continue
        for fi in mi.functions.values():
            for c in calls(fi.raw_node):
                if isinstance(c.func, ast.Name) and c.func.id in selectors:
                    (m_nb, m_np), g, test = selectors[c.func.id]
                    names = [x.value for a in c.args for x in ast.walk(a) if isinstance(x, ast.Constant) and isinstance(x.value, str)]
                    # the argument that feeds the tested parameter at this call site
                    gp = g.params()
                    tested = U(test.test)
                    fed = U(c.args[gp.index(tested)]) if tested in gp and gp.index(tested) < len(c.args) else tested
                    for s_ in names:
                        nb, np_ = (m_nb, s_ + "_numba"), (m_np, s_ + "_np")
                        if nb[1] in ix.module(m_nb).functions and np_[1] in ix.module(m_np).functions and (nb, np_) not in have:
                            have.add((nb, np_))
                            sel_if = ast.If(test=ast.parse(fed, mode="eval").body, body=[], orelse=[])
                            ast.copy_location(sel_if, c)
                            out.append((s_, nb, np_, fi, sel_if))
    return out


def _tonum(v):
    if isinstance(v, IndexSet):
        v = v.b
    if isinstance(v, BExpr):
        return select(v, GExpr.of(1), GExpr.of(0))
    if isinstance(v, PyVal):
        return GExpr.of(Poly.sym("py", repr(v.v)))
    return v


def _handlers():
    def get_fluid(ki, e, st):
        return GExpr.of(Poly.sym("fluid"))
    return {"get_fluid": get_fluid}


def r7_1(run, only=None, floor=40, residual_only=False):
    """only: optional set of selection aliases to restrict the comparison to (used by the properties whose law the kernels
    implement: the law is compared with the numpy twin there, and this rule carries it over to the numba twin)"""
    ix = run.index
    def base(p):
        # name of the twin pair independent of the alias the selecting function binds it to
        for q, suf in ((p[2], "_np"), (p[1], "_numba")):
            if q is not None:
                nm = q[1] if isinstance(q, tuple) else getattr(q, "name", str(q))
                return nm[:-len(suf)] if nm.endswith(suf) else nm
        return p[0]
    pairs = [p for p in twin_pairs(ix) if only is None or base(p) in only or p[0] in only]
    rng = random.Random(run.seed)
    npts = 48 if run.tier == "quick" else 512
    n_pairs = 0
    for alias, nb, np_, sel, ifn in pairs:
        w = run.where(sel, ifn)
        if nb is None or np_ is None:
            run.ob("selection|%s|%s" % (sel.name, alias), False,
                   "alias %s is bound in both arms of the use_numba selection" % alias, w)
            continue
        f_nb = ix.func(nb[0] + "." + nb[1])
        f_np = ix.func(np_[0] + "." + np_[1])
        run.analysed(f_nb)
        run.analysed(f_np)
        n_pairs += 1
        pn, pb = f_np.params(), f_nb.params()
        run.ob("%s|same-parameters" % alias, pn == pb,
               "twins take the same positional parameters (%s vs %s)" % (pn, pb), w)
        consts = {"transient": False}
        try:
            args_np = None
            if alias.startswith("get_branch_results_gas"):
                # the numpy twin receives from_nodes as a parameter, the numba helper re-derives it
                bp = Poly.sym("col", "branch_pit", "i", "idx_branch", "FROM_NODE")
                tp = Poly.sym("col", "branch_pit", "i", "idx_branch", "TO_NODE")
                args_np = {"from_nodes": GExpr.of(bp), "to_nodes": GExpr.of(tp)}
            k_np = KInterp(ix, consts, _handlers()).run(f_np, args_np)
            k_nb = KInterp(ix, consts, _handlers()).run(f_nb, args_np)
        except Unsupported as e:
            raise AnalysisError("twin pair %s is outside the supported kernel forms: %s" % (alias, e))
        run.ob("%s|same-output-count" % alias, len(k_np.outputs) == len(k_nb.outputs) and len(k_np.outputs) > 0,
               "twins return the same number of outputs (%d vs %d)" % (len(k_np.outputs), len(k_nb.outputs)), w)
        # the caller unpacks positionally
        for c in calls(sel.node):
            if isinstance(c.func, ast.Name) and c.func.id == alias:
                par = parents(sel.node)
                p = par.get(c)
                while p is not None and not isinstance(p, (ast.Assign, ast.Return)):
                    p = par.get(p)
                if isinstance(p, ast.Assign) and isinstance(p.targets[0], ast.Tuple):
                    run.ob("%s|caller-unpacks-all" % alias, len(p.targets[0].elts) == len(k_np.outputs),
                           "the caller unpacks %d values from a kernel returning %d"
                           % (len(p.targets[0].elts), len(k_np.outputs)), run.where(sel, c))
        # early returns of the numpy twin are shortcuts: they must equal the fall-through values
        for cond, vals, names in k_np.early:
            for nm, ev, fv in zip(names, vals, k_np.outputs):
                for g in cond.dnf:
                    d, _, _ = compare(_tonum(ev).restrict(g), _tonum(fv).restrict(g), rng, npts)
                    run.ob("%s|early-return-is-shortcut|%s" % (alias, nm), not d,
                           "the early return under all(%s) equals the fall-through value" % cond, w,
                           detail=d[:1] or None)
        for i, (a, b) in enumerate(zip(k_np.outputs, k_nb.outputs)):
            name = k_np.output_names[i]
            if residual_only and (name.startswith("df") or name.startswith("der_") or name.startswith("d") and "_d" in name):
                continue        # Jacobian entries steer the iteration; the law concerns the residual and the reported quantities
            d, rows, numonly = compare(_tonum(a), _tonum(b), rng, npts)
            run.stat("decision_table_rows", rows)
            run.stat("rows_equal_only_numerically", numonly)
            if not d:
                run.ob("%s|%s|equal" % (alias, name), True,
                       "output %d (%s) of %s and %s is the same guarded expression (%d guard rows)"
                       % (i, name, f_np.name, f_nb.name, rows), run.where(f_nb, f_nb.node))
            for dd in d:
                run.ob("%s|%s|differs|%s" % (alias, name, _h(dd["left"], dd["right"])), False,
                       "output %d (%s): numpy gives `%s`, numba gives `%s` when %s"
                       % (i, name, dd["left"][:160], dd["right"][:160], dd["guard"][:200]),
                       run.where(f_nb, f_nb.node), detail=dd)
    run.stat("twin_pairs", n_pairs)
    run.floor(floor)


def r7_2(run):
    ix = run.index
    pairs = twin_pairs(ix)
    by_sel = {}
    for alias, nb, np_, sel, ifn in pairs:
        by_sel.setdefault((sel.qualname, ifn.lineno), []).append((alias, nb, np_, sel, ifn))
    for (q, _), items in sorted(by_sel.items()):
        sel, ifn = items[0][3], items[0][4]
        for alias, nb, np_, _, _ in items:
            ok = nb is not None and np_ is not None
            same_stem = ok and nb[1].replace("_numba", "") == np_[1].replace("_np", "")
            run.ob("%s|%s|bound-in-both-arms" % (sel.name, alias), ok and same_stem,
                   "alias %s is bound to matching twins in both arms (%s / %s)" % (alias, nb, np_), run.where(sel, ifn))
            if ok:
                run.ob("%s|%s|numba-arm-is-numba" % (sel.name, alias),
                       nb[0].endswith("_numba") or nb[1].endswith("_numba"),
                       "the use_numba arm selects the numba implementation", run.where(sel, ifn))
    # the test of each selection reads the option (not a constant)
    for alias, nb, np_, sel, ifn in pairs:
        t = U(ifn.test)
        run.ob("%s|selection-test|%s" % (sel.name, alias), t in ('options["use_numba"]', "options['use_numba']", "use_numba",
                                                                  'get_net_option(net, "use_numba")', "get_net_option(net, 'use_numba')"),
               "the selection tests the use_numba option itself: `%s`" % t, run.where(sel, ifn))
    run.floor(14)


TOPOLOGY_COLS = {"FROM_NODE", "TO_NODE", "NODE_TYPE", "NODE_TYPE_T", "BRANCH_TYPE", "INFEED", "FROM_NODE_T_SWITCHED"}


def _backward_slice_names(fnode, seeds):
    """names (transitively) read by the right-hand sides that define `seeds`"""
    seen, work = set(), list(seeds)
    while work:
        n = work.pop()
        if n in seen:
            continue
        seen.add(n)
        for st, val, pos in assignments(fnode, n):
            for x in ast.walk(val):
                if isinstance(x, ast.Name) and x.id not in seen:
                    work.append(x.id)
    return seen


def internal_data_lifecycle(run):
    """a call starts from an empty net['_internal_data'] whenever reuse_internal_data is off (whatever an earlier call left on the
    net), and removes it at the end unless reuse is on"""
    from ..arrnf import ANF, C, base_of, norm_cond, roots, key as tkey, show as tshow, walk
    ix = run.index
    for name in ("hydraulics", "bidirectional"):
        g = ix.func(P + "." + name)
        run.analysed(g)
        r = ANF(ix, g, param_alias={g.params()[0]: "net"}).run()
        reuse = ("call", ("f", PS + ".get_net_option"), (("n", "net"), C("reuse_internal_data")), ())
        def is_reuse0(t):
            return t[0] == "call" and t[1] == ("f", PS + ".get_net_option") and len(t[2]) == 2 and t[2][1] == C("reuse_internal_data")
        inits = [s_ for s_ in r.stores() if base_of(s_.base) == ("n", "net") and s_.index == (C("_internal_data"),)
                 and s_.value[0] == "new" and s_.value[2] == "dict"]
        ok2 = False
        for s_ in inits:
            if not s_.cond:
                ok2 = True
            elif len(s_.cond) == 1:
                c_, p_ = norm_cond(*s_.cond[0])
                parts = list(c_[2]) if c_[0] == "bool" and c_[1] == "or" else [c_]
                lits = [norm_cond(x, True) for x in parts]
                ok2 = ok2 or (p_ and any(is_reuse0(l_) and pol is False for l_, pol in lits))
        run.ob("%s|fresh-internal-data-unless-reuse" % name, ok2,
               "%s starts from an empty net['_internal_data'] whenever reuse_internal_data is off (not only when the entry is "
               "missing)" % name, run.where(g, inits[0].node if inits else g.node),
               detail="; ".join(tshow(c_)[:120] for s_ in inits for c_, _p in s_.cond))
        pops = [c for c in r.calls() if c.fn[0] == "attr" and c.fn[2] == "pop" and roots(c.fn[1]) == {tkey(("n", "net"))}
                and c.args[:1] == (C("_internal_data"),)]
        def is_reuse(t):
            return t[0] == "call" and t[1] == ("f", PS + ".get_net_option") and len(t[2]) == 2 and t[2][1] == C("reuse_internal_data") \
                and roots(t[2][0]) == {tkey(("n", "net"))}
        ok = any(len(c.cond) >= 1 and is_reuse(norm_cond(*c.cond[-1])[0]) and norm_cond(*c.cond[-1])[1] is False for c in pops)
        run.ob("%s|drops-internal-data-unless-reuse" % name, ok,
               "%s pops net['_internal_data'] when reuse_internal_data is off" % name, run.where(g, g.node))


def _mentions(t, const):
    from ..arrnf import walk
    return any(x == ("c", const) for x in walk(t))


def _event_terms(e):
    out = [c for c, _ in e.cond]
    for a in ("base", "value", "term", "target_term"):
        v = getattr(e, a, None)
        if isinstance(v, tuple):
            out.append(v)
    if getattr(e, "index", None):
        out.extend(e.index)
    return out


def r7_3(run):
    """the cached sparse structure, on the term model of the assembler (ppsa/bsm.py): no names or statement layout involved"""
    from ..bsm import Model, strip_int_casts
    from ..arrnf import base_of, key as tkey, norm_cond, show as tshow, walk
    ix = run.index
    mh = Model(ix, False)
    mt = Model(ix, True)
    f = mh.f
    run.analysed(f)
    w = run.where(f, f.node)
    # (a) structure arrays: everything the row / column triplets and their bounds are computed from
    cols = set()
    for m_ in (mh, mt):
        for seg in m_.cols + m_.rows:
            for t in (seg.value,) + tuple(seg.index):
                for x in walk(t):
                    if x[0] == "k" and x[1].startswith(("idx_branch.", "idx_node.")):
                        cols.add(x[1].split(".")[-1])
    type_consts = {"P", "PC", "T", "L", "GE"}
    value_cols = sorted(c for c in cols if c not in TOPOLOGY_COLS and c not in type_consts)
    run.ob("structure-slice-reads-only-topology", not value_cols and len(cols) >= 4,
           "rows/cols of the sparse matrix depend only on topology/type columns (their terms read %s)" % sorted(cols), w,
           detail="value columns in the slice: %s" % value_cols if value_cols else None)
    # (b) every access of the cache is restricted to the hydraulic system: the thermal specialisation contains none
    def accesses(m_):
        return [e for e in m_.r.events if any(_mentions(t, "_internal_data") for t in _event_terms(e))]
    acc_t = accesses(mt)
    for e in acc_t[:5]:
        run.ob("cache-access-hydraulic-only|%s" % e.kind, False, "net['_internal_data'] is accessed only when heat_mode is False",
               run.where(f, e.node), detail="reached with heat_mode=True")
    run.ob("cache-access-hydraulic-only", not acc_t,
           "the specialisation of build_system_matrix for heat_mode=True never touches net['_internal_data']", w)
    acc_h = accesses(mh)
    run.ob("cache-accesses-found", len(acc_h) >= 3, "build_system_matrix accesses the cache (%d events in the hydraulic specialisation)" % len(acc_h), w)
    # (c) cache written only under the update option
    def is_opt(t):
        return any(x[0] == "call" and x[1][0] == "f" and x[1][1].endswith(".get_net_option") and len(x[2]) == 2
                   and x[2][1] == ("c", "only_update_hydraulic_matrix") for x in walk(t))
    writes = [e for e in mh.r.stores() if _mentions(e.base, "_internal_data") and e.index and e.index[0][0] == "c"
              and not str(e.index[0][1]).startswith(".")]
    for e in writes:
        ok = any(is_opt(c) and norm_cond(c, pol)[1] for c, pol in e.cond)
        run.ob("cache-write-under-update-option|%s" % e.index[0][1], ok,
               "the cache entry is written only when only_update_hydraulic_matrix is set", run.where(f, e.node),
               detail="path condition: %s" % [(tshow(c)[:60], p_) for c, p_ in e.cond])
    run.ob("cache-writes-found", {e.index[0][1] for e in writes} >= {"hydraulic_data_sorting", "hydraulic_matrix"},
           "the sort order and the matrix are stored in the cache", w)
    # (d) values are recomputed on both arms: the reuse arm writes the *fresh* data, in the stored order, into the stored matrix
    D = mh.csr.args[0][1][0]
    reuse = [e for e in mh.r.stores() if e.index == (("c", ".data"),)]
    ok = len(reuse) == 1
    if ok:
        v = reuse[0].value
        cache = lambda k_: ("idx", ("idx", ("n", "net"), (("c", "_internal_data"),)), (("c", k_),))
        ok = v[0] == "idx" and len(v[2]) == 1 and tkey(v[1]) == tkey(D) and tkey(v[2][0]) == tkey(cache("hydraulic_data_sorting")) \
            and tkey(reuse[0].base) == tkey(cache("hydraulic_matrix"))
    run.ob("reuse-arm-reorders-data", ok,
           "the reuse arm writes the freshly assembled data, permuted with the stored ordering, into the stored matrix", w,
           detail=tshow(reuse[0].value)[:160] if reuse else None)
    run.ob("system-data-recomputed-on-both-arms", ok and len(mh.data) >= 9,
           "the data written on the reuse arm is the same %d-segment array the fresh arm assembles" % len(mh.data), w)
    # what is cached is the order that was applied to the stored matrix
    srt = [e for e in writes if e.index[0][1] == "hydraulic_data_sorting"]
    mat = [e for e in writes if e.index[0][1] == "hydraulic_matrix"]
    ok = len(srt) == 1 and len(mat) == 1
    why = None
    if ok:
        order = srt[0].value
        mv = mat[0].value
        ok = mv[0] == "call" and mv[1][0] == "x" and mv[1][1].endswith("csr_matrix") and mv[2] and mv[2][0][0] == "tuple" \
            and tkey(mv[2][0][1][0]) == tkey(("idx", D, (order,)))
        if not ok:
            why = "the stored matrix is not built from data[<stored order>]"
        elif order[0] == "call" and order[1] == ("x", "numpy.lexsort"):
            pass        # a two-key sort: no key arithmetic that could overflow
        elif order[0] == "call" and order[1] == ("x", "numpy.argsort") and order[2]:
            # a single sort key row * n + col: the triplet index arrays are 32-bit, so the key must be formed in 64 bits
            wide = any(x[0] == "call" and ((x[1][0] == "attr" and x[1][2] == "astype" and x[2] and tshow(x[2][0]).endswith("int64"))
                                           or x[1] in (("x", "numpy.int64"),)) for x in walk(order[2][0]))
            arith = any(x[0] in ("opn", "op") and x[1] in ("*", "+") for x in walk(order[2][0]))
            if arith and not wide:
                ok, why = False, "single-key sort %s forms row * n + col in the 32-bit type of the index arrays" % tshow(order)[:100]
        else:
            raise AnalysisError("unrecognised shape: ordering of the cached matrix entries: %s" % tshow(order)[:120])
    run.ob("cached-order-is-the-applied-order", ok,
           "the stored matrix holds the data permuted by exactly the (row, column) order that is stored next to it", w, detail=why)
    ent = mh.load_entries()
    lv_cond = [e for e in mh.r.stores() if tkey(base_of(e.base)) in {tkey(base_of(x.base)) for x in mh.r.stores() if x.seq in {y["seq"] for y in ent}}
               and any(_mentions(c, "_internal_data") or is_opt(c) for c, _ in e.cond)]
    run.ob("load-vector-recomputed-on-both-arms", len(ent) >= 8 and not lv_cond,
           "the %d load-vector stores do not depend on the cache or the update option" % len(ent), w)
    # (e) stage functions drop internal data unless reuse requested
    internal_data_lifecycle(run)
    # (f) init_options couples reuse to the update option
    reuse_coupling(run)
    run.floor(12)


def reuse_coupling(run):
    """reuse_internal_data is the user's choice, narrowed only: init_options may switch it *off* (when the matrix-update option is off)
    and never on -- with reuse on, a call starts from the internal data an earlier call left on the net"""
    from ..arrnf import ANF, C, walk, norm_cond, show as tshow
    ix = run.index
    io = ix.func(PS + ".init_options")
    run.analysed(io)
    r = ANF(ix, io, param_alias={io.params()[0]: "net"}).run()
    st = [e for e in r.stores() if e.index == (C("reuse_internal_data"),)]
    ok = bool(st)
    why = None
    for e in st:
        off_only = e.value == C(False)
        guarded = any(any(x == C("only_update_hydraulic_matrix") for x in walk(c_)) and not norm_cond(c_, p_)[1] for c_, p_ in e.cond)
        if not (off_only and guarded):
            ok = False
            why = "stores %s under %s" % (tshow(e.value)[:60], [(tshow(c_)[:50], p_) for c_, p_ in e.cond][-2:])
    run.ob("init_options|reuse-only-with-update-option", ok,
           "init_options only forces reuse_internal_data=False, and only when only_update_hydraulic_matrix is off", run.where(io, io.node), detail=why)


def r7_4(run):
    """the group sum is one of the places where the two engines take different paths: the numba path casts the keys and uses a dense
    kernel, the numpy path must sort keys and values together before it takes the group boundaries (shared with C06 R6.3); an
    unsorted numpy pass returns a key twice and the engines disagree"""
    from .c06 import r6_3
    r6_3(run)


RULES = [("R7.1", r7_1), ("R7.2", r7_2), ("R7.3", r7_3), ("R7.4", r7_4)]
