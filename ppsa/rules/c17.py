"""C17 -- restructuring tools preserve referential integrity (structural part).

 R17.1 reference-map typing: polymorphic reference columns are discriminated wherever the junction map is consumed
 R17.2 cascade: dropping rows of a referenced table also handles the referencing rows; result / geodata tables follow
 R17.3 map completeness: every reference column of the schema appears in element_junction_tuples and vice versa
"""
import ast

from ..astutil import U, assignments, calls, callee_name, const_str, own_walk
from ..pathcond import parents, path_condition
from ..source import AnalysisError

TB = "pandapipes.toolbox"
CR = "pandapipes.create"

EXPLANATION = (
    "The reference schema is derived from the repository: a column is junction-typed if it is one of a branch "
    "component's from_to_node_cols, the `junction` column of a node element or `controlled_junction`; it is "
    "polymorphic if the creating function validates the parameter stored in it against different tables depending on "
    "a sibling parameter (create_valve checks `element` against net.pipe.index under et == 'pi' and against the "
    "junctions under et == 'ju'). (R17.1) every function of toolbox.py that iterates element_junction_tuples and reads "
    "or writes net[element][column] must restrict those accesses with a row mask obtained from a discriminator helper "
    "that tests the discriminator column against the junction value ('ju'); the pipe branch of reindex_elements "
    "rewrites valve.element under et == 'pi'. (R17.2) drop_junctions cascades to drop_elements_at_junctions, drop_pipes "
    "removes the valves attached to the dropped pipes, and every drop / reindex of a table also treats its res_ and "
    "_geodata tables. (R17.3) the static component list of element_junction_tuples covers every node-element and branch "
    "component class of the package, and the special junction columns equal the schema's extra junction columns. Not "
    "decided: equality of results up to relabelling (runtime).")
ASSUMPTIONS = ["pandapower.auxiliary.get_indices maps every value through the lookup", "DataFrame.drop / .loc semantics"]
TECHNIQUE = "schema derivation from create functions and component classes; guarded-access check over consumers of the reference map"


def polymorphic_columns(ix):
    """{(table, column): (discriminator column, junction value, {value: table})} derived from the create functions"""
    out = {}
    from .c16 import create_functions, written_columns
    for f in create_functions(ix):
        try:
            table, cols, wcall = written_columns(f)
        except AnalysisError:
            continue
        params = set(f.params())
        par = parents(f.node)
        for col, v in cols.items():
            if not (isinstance(v, ast.Name) and v.id in params):
                continue
            p = v.id
            targets = {}
            for n in ast.walk(f.node):
                tbl = None
                if isinstance(n, ast.Call) and callee_name(n) in ("_check_element", "_check_multiple_elements") and len(n.args) >= 2 \
                        and U(n.args[1]) == p:
                    for k in n.keywords:
                        if k.arg == "element" and const_str(k.value):
                            tbl = const_str(k.value)
                    if tbl is None and len(n.args) >= 3 and const_str(n.args[2]):
                        tbl = const_str(n.args[2])
                elif isinstance(n, ast.Compare) and U(n.left) == p and isinstance(n.ops[0], ast.NotIn) and ".index" in U(n.comparators[0]):
                    tbl = "pipe" if "pipe" in U(n.comparators[0]) or "elm_tab" in U(n.comparators[0]) else None
                if tbl is None:
                    continue
                pc = path_condition(f.node, n, par)
                for lit, pol in pc:
                    s = lit.replace(" ", "").replace('"', "'")
                    if pol and "=='" in s:
                        dcol, val = s.split("==")
                        targets[val.strip("'")] = (dcol, tbl)
            if len({t for _, t in targets.values()}) >= 2:
                dcols = {d for d, _ in targets.values()}
                if len(dcols) == 1:
                    dcol = dcols.pop()
                    jval = [v_ for v_, (d, t) in targets.items() if t == "junction"]
                    out[(table, col)] = (dcol, jval[0] if jval else None, {v_: t for v_, (d, t) in targets.items()})
    return out


def r17_1(run):
    ix = run.index
    poly = polymorphic_columns(ix)
    run.ob("schema|polymorphic-columns", ("valve", "element") in poly and poly[("valve", "element")][:2] == ("et", "ju"),
           "polymorphic reference columns derived from the create functions: %s" % poly, CR)
    if not poly:
        return
    dcol, jval, _ = poly.get(("valve", "element"), ("et", "ju", {}))
    mi = ix.module(TB)
    # discriminator helpers: functions that compare the discriminator column with the junction value for that table/column
    helpers = []
    for f in mi.functions.values():
        src = U(f.node).replace('"', "'")
        if "'%s'" % dcol in src and "== '%s'" % jval in src and "'element'" in src and "'valve'" in src and "column" in f.params():
            helpers.append(f.name)
    run.ob("discriminator-helper", len(helpers) >= 1,
           "a helper yields the rows in which a listed column really refers to a junction (tests %s == %r): %s" % (dcol, jval, helpers), TB)
    consumers = [f for f in mi.functions.values() if any(callee_name(c) == "element_junction_tuples" for c in calls(f.node))
                 and f.name not in ("pp_elements",)]
    run.ob("consumers-found", len(consumers) >= 4, "consumers of the reference map: %s" % [f.name for f in consumers], TB)
    for f in consumers:
        run.analysed(f)
        # loop variables bound to (table, column) pairs of the map
        pairs = []
        for n in ast.walk(f.node):
            if isinstance(n, (ast.For, ast.comprehension)) and isinstance(n.target, ast.Tuple) and len(n.target.elts) == 2 \
                    and all(isinstance(e, ast.Name) for e in n.target.elts):
                it = n.iter
                src_names = {x.id for x in ast.walk(it) if isinstance(x, ast.Name)}
                if callee_name(it) == "element_junction_tuples" if isinstance(it, ast.Call) else bool(src_names & {"comp_tuples"}):
                    pairs.append((n.target.elts[0].id, n.target.elts[1].id, n))
        # select_subnet regroups the tuples: comp_tbl / jr
        for n in ast.walk(f.node):
            if isinstance(n, ast.For) and isinstance(n.target, ast.Tuple) and U(n.iter).endswith(".items()") and "junc_rows" in U(n.target):
                pairs.append((n.target.elts[0].id, "jr", n))
        accesses = []
        for tv, cv, loop in pairs:
            body = loop.body if isinstance(loop, ast.For) else []
            for st in body:
                for n in ast.walk(st):
                    if isinstance(n, ast.Subscript) and U(n.value) == "net[%s]" % tv and U(n.slice) == cv:
                        accesses.append((st, n, tv, cv))
                    elif isinstance(n, ast.Subscript) and isinstance(n.value, ast.Attribute) and n.value.attr == "loc" \
                            and U(n.value.value) == "net[%s]" % tv and isinstance(n.slice, ast.Tuple) and U(n.slice.elts[1]) == cv:
                        accesses.append((st, n, tv, cv))
        run.ob("%s|accesses-found" % f.name, bool(accesses),
               "%s reads/writes the listed reference columns (%d accesses)" % (f.name, len(accesses)), run.where(f, f.node))
        # masks obtained from a helper with (net, table var, column var)
        masks = set()
        for n in ast.walk(f.node):
            if isinstance(n, ast.Assign) and isinstance(n.value, ast.Call) and callee_name(n.value) in helpers and isinstance(n.targets[0], ast.Name):
                masks.add(n.targets[0].id)
        seen = set()
        for st, n, tv, cv in accesses:
            key = U(st).split("\n")[0][:70]
            if key in seen:
                continue
            seen.add(key)
            names = {x.id for x in ast.walk(st) if isinstance(x, ast.Name)}
            helper_inline = any(callee_name(c) in helpers for c in calls(st))
            derived = set()
            for m in masks:
                derived.add(m)
            # names derived from the mask inside the function (rows = index[mask], at_junctions = ... & mask)
            changed = True
            while changed:
                changed = False
                for a in ast.walk(f.node):
                    if isinstance(a, ast.Assign) and isinstance(a.targets[0], ast.Name) and a.targets[0].id not in derived:
                        if {x.id for x in ast.walk(a.value) if isinstance(x, ast.Name)} & derived or any(callee_name(c) in helpers for c in calls(a.value)):
                            derived.add(a.targets[0].id)
                            changed = True
            ok = helper_inline or bool(names & derived)
            run.ob("%s|guarded|%s" % (f.name, key), ok,
                   "the access to net[%s][%s] is restricted to rows whose reference really is a junction" % (tv, cv), run.where(f, n))
    # the pipe branch of reindex_elements
    f = ix.func(TB + ".reindex_elements")
    src = U(f.node).replace('"', "'")
    ok = "net['valve']['et'] == 'pi'" in src and "get_indices(pipe_valves, lookup)" in src
    run.ob("reindex_elements|pipe-valves-follow-pipes", ok,
           "reindexing pipes rewrites valve.element for valves attached to pipes", run.where(f, f.node))
    run.floor(10)


def r17_2(run):
    ix = run.index
    f = ix.func(TB + ".drop_junctions")
    run.analysed(f)
    src = U(f.node).replace('"', "'")
    run.ob("drop_junctions|cascade", "drop_elements_at_junctions(net, junctions)" in src,
           "drop_junctions cascades to the elements at the dropped junctions (unless drop_elements=False is requested)", run.where(f, f.node))
    run.ob("drop_junctions|res-and-geodata", "net['junction_geodata'].drop(" in src and "net['res_junction'].drop(" in src,
           "junction geodata and results are dropped with the junctions", run.where(f, f.node))
    f = ix.func(TB + ".drop_pipes")
    run.analysed(f)
    src = U(f.node).replace('"', "'")
    ok = "net['valve']['et'] == 'pi'" in src and "net['valve']['element'].isin(pipes)" in src and "net['valve'].drop(" in src
    run.ob("drop_pipes|cascade-to-pipe-valves", ok, "drop_pipes removes the valves attached to the dropped pipes", run.where(f, f.node))
    run.ob("drop_pipes|res-and-geodata", "net['pipe_geodata'].drop(" in src and "net['res_pipe'].drop(" in src,
           "pipe geodata and results are dropped with the pipes", run.where(f, f.node))
    f = ix.func(TB + ".drop_elements_at_junctions")
    run.analysed(f)
    src = U(f.node).replace('"', "'")
    run.ob("drop_elements_at_junctions|pipes-via-drop_pipes", "drop_pipes(net, eid)" in src and "element == 'pipe'" in src,
           "pipes at dropped junctions are removed through drop_pipes (so their valves follow)", run.where(f, f.node))
    run.ob("drop_elements_at_junctions|results-follow", "res_element = 'res_' + element" in src and "net[res_element].drop(" in src,
           "result rows of dropped elements are dropped", run.where(f, f.node))
    f = ix.func(TB + ".reindex_elements")
    run.analysed(f)
    src = U(f.node).replace('"', "'")
    ok = "geo_table = element + '_geodata'" in src and "net[geo_table].index = get_indices(" in src and "res_table = 'res_' + element" in src \
        and "net[res_table].index = get_indices(" in src
    run.ob("reindex_elements|res-and-geodata-follow", ok, "geodata and result tables are reindexed with the element table", run.where(f, f.node))
    f = ix.func(TB + ".fuse_junctions")
    src = U(f.node).replace('"', "'")
    run.ob("fuse_junctions|drops-fused", "drop_junctions(net, j2, drop_elements=False)" in src,
           "the fused junctions are dropped after their references were redirected (elements are kept)", run.where(f, f.node))
    f = ix.func(TB + ".select_subnet")
    src = U(f.node).replace('"', "'")
    ok = "p2['valve']['et'] == 'pi'" in src and "isin(kept_pipes)" in src
    run.ob("select_subnet|pipe-valves-with-their-pipe", ok, "a pipe valve is selected only together with its pipe", run.where(f, f.node))
    run.floor(9)


def r17_3(run):
    ix = run.index
    f = ix.func(TB + ".element_junction_tuples")
    run.analysed(f)
    w = run.where(f, f.node)
    lst = None
    for n in ast.walk(f.node):
        if isinstance(n, ast.Assign) and U(n.targets[0]) == "comp_list" and isinstance(n.value, ast.List):
            lst = [U(e) for e in n.value.elts]
    have = set(lst or [])
    want = {c.name for c in ix.components() if ix.is_subclass(c, "BranchComponent") or ix.is_subclass(c, "NodeElementComponent")}
    run.ob("static-component-list-complete", lst is not None and want <= have,
           "the static component list covers every node-element / branch component of the package", w,
           detail="missing: %s" % sorted(want - have))
    from .c16 import reference_columns
    refs = reference_columns(ix)
    special = set()
    for n in ast.walk(f.node):
        if isinstance(n, ast.Assign) and U(n.targets[0]) == "special_elements_junctions" and isinstance(n.value, ast.List):
            for e in n.value.elts:
                special.add(tuple(const_str(x) for x in e.elts))
    extra = set()
    for c in ix.components():
        tbl = ix.method_const(c, "table_name")
        ft = set(ix.method_const(c, "from_to_node_cols") or []) if ix.is_subclass(c, "BranchComponent") else set()
        for col, kind in refs.get(tbl, {}).items():
            if kind == "junction" and col not in ft and col != "junction":
                extra.add((tbl, col))
    run.ob("special-junction-columns", special == extra,
           "the special junction columns of the map equal the schema's extra junction columns: %s" % sorted(extra), w,
           detail="map: %s" % sorted(special))
    src = U(f.node)
    run.ob("branch-columns-from-class", "comp.from_to_node_cols()" in src and "issubclass(comp, BranchComponent)" in src,
           "branch reference columns are taken from each class's from_to_node_cols", w)
    run.ob("node-element-column", "(elm, 'junction')" in src.replace('"', "'") and "issubclass(comp, NodeElementComponent)" in src,
           "node elements reference their junction through the column `junction`", w)
    run.floor(4)


RULES = [("R17.1", r17_1), ("R17.2", r17_2), ("R17.3", r17_3)]
