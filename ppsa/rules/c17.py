"""C17 -- restructuring tools preserve referential integrity (structural part).

 R17.1 reference-map typing: polymorphic reference columns are discriminated wherever the junction map is consumed
 R17.2 cascade: dropping rows of a referenced table also handles the referencing rows; result / geodata tables follow
 R17.3 map completeness: every reference column of the schema appears in element_junction_tuples and vice versa
"""
import ast

from ..astutil import U, assignments, calls, callee_name, const_str, own_walk
from ..arrnf import ANF, C, base_of, contains, expect, key, match, show, walk
from ..pathcond import parents, path_condition
from ..source import AnalysisError

TB = "pandapipes.toolbox"
CR = "pandapipes.create"

EXPLANATION = (
    "The reference schema is derived from the repository: a column is junction-typed if it is one of a branch component's"
    ' from_to_node_cols, the `junction` column of a node element or `controlled_junction`; it is polymorphic if the '
    'creating function validates the parameter stored in it against different tables depending on a sibling parameter '
    "(create_valve checks `element` against net.pipe.index under et == 'pi' and against the junctions under et == 'ju'). "
    '(R17.1) every function of toolbox.py that iterates element_junction_tuples and reads or writes net[element][column] '
    'must restrict those accesses with a row mask obtained from a discriminator helper that tests the discriminator '
    "column against the junction value ('ju'); the pipe branch of reindex_elements rewrites valve.element under et == "
    "'pi'. (R17.2) drop_junctions cascades to drop_elements_at_junctions, drop_pipes removes the valves attached to the "
    'dropped pipes, and every drop / reindex of a table also treats its res_ and _geodata tables; in fuse_junctions the '
    'junction the references are redirected to is removed (set difference) from the collection that is dropped '
    'afterwards, and the redirection precedes the drop. (R17.3) the static component list of element_junction_tuples '
    'covers every node-element and branch component class of the package, and the special junction columns equal the '
    "schema's extra junction columns. (R17.4) each index is renumbered once: the tables whose index reindex_elements "
    'rewrites together with the element (computed: res_<element>, <element>_geodata) are excluded from the direct '
    "renumbering in create_continuous_elements_index, otherwise the element's lookup of old labels is applied to an "
    "already renumbered index depending on set iteration order. (R17.5) select_subnet's fresh-net arm carries the "
    'configuration the solver reads: fluid, user_pf_options, component_list and std_types are each copied from the source'
    ' net (member of the copied parameter list, or an explicit deep copy). Not decided: equality of results up to '
    'relabelling (runtime).')
ASSUMPTIONS = ["pandapower.auxiliary.get_indices maps every value through the lookup", "DataFrame.drop / .loc semantics"]
TECHNIQUE = "schema derivation from create functions and component classes; guarded-access check over consumers of the reference map"
EXPLANATION += (' ' + '(R17.6) element_junction_tuples, the work list of the dropping and reindexing tools, is put into normal form with all include_* flags False (with and without a net): no (table, column) pair may be added, so a column that is listed whenever its table exists (and makes a tool touch elements of an excluded kind) is reported.')
EXPLANATION += (' ' + "(R17.7) a parameter of a tool that is handed on unchanged to another package function is bound to the callee's parameter of the same name (up to an include_ / respect_ prefix); a binding to a differently named parameter although the callee has one of that name -- two flags crossed in a positional call -- is reported.")
EXPLANATION += (' ' + "(R17.8) wherever a function of toolbox.py replaces the index of a table (T.index = v, T.set_index(v), T.set_axis(v)), v is computed from T's own old index.")


def _validated_table(ix, f, c, p):
    """the table in which a validator call checks the existence of parameter p (None when the call is no such validator)"""
    if c.fn[0] == "x" and c.fn[1].rsplit(".", 1)[-1] in ("_check_element", "_check_multiple_elements"):
        if len(c.args) >= 2 and c.args[1] == ("n", p):
            if len(c.args) >= 3 and c.args[2][0] == "c":
                return c.args[2][1]
            for k_, v_ in c.kw:
                if k_ == "element" and v_[0] == "c":
                    return v_[1]
        return None
    if c.fn[0] == "f" and len(c.args) >= 2 and c.args[1] == ("n", p):
        # a validator of the package: the table its own body hands to pandapower's existence check for this argument
        try:
            g = ix.func(c.fn[1])
        except AnalysisError:
            return None
        gp = g.params()
        if len(gp) < 2:
            return None
        rg = ANF(ix, g).run()
        for c2 in rg.calls():
            t = _validated_table(ix, g, c2, gp[1])
            if t is not None:
                return t
    return None


def polymorphic_columns(ix):
    """{(table, column): (discriminator column, junction value, {value: table})} derived from the create functions: a column written
    from a parameter whose existence is validated against different tables under different values of another written parameter"""
    out = {}
    from .c16 import create_functions, written_columns
    from ..arrnf import norm_cond
    for f in create_functions(ix):
        try:
            table, cols, wcall = written_columns(f)
        except AnalysisError:
            continue
        params = set(f.params())
        cand = {col: v.id for col, v in cols.items() if isinstance(v, ast.Name) and v.id in params}
        if len(cand) < 2:
            continue
        col_of_param = {pn: col for col, pn in cand.items()}
        try:
            r = ANF(ix, f, param_alias={f.params()[0]: "net"}).run()
        except AnalysisError:
            continue
        for col, p in cand.items():
            targets = {}
            sites = []
            for c in r.calls():
                t = _validated_table(ix, f, c, p)
                if t is not None:
                    sites.append((t, c.cond))
            for e in r.raises():
                # raise under `p not in net[<T>].index`
                for c_, pol in e.cond:
                    c2, p2 = norm_cond(c_, pol)
                    neg = (c2[0] == "cmp" and c2[1] == "not in" and p2) or (c2[0] == "cmp" and c2[1] == "in" and not p2)
                    if neg and c2[2] == ("n", p) and c2[3][0] == "attr" and c2[3][2] == "index" and c2[3][1][0] == "idx" \
                            and c2[3][1][1] == ("n", "net") and c2[3][1][2][0][0] == "c":
                        sites.append((c2[3][1][2][0][1], tuple(x for x in e.cond if x != (c_, pol))))
            for tbl, cond in sites:
                for c_, pol in cond:
                    c2, p2 = norm_cond(c_, pol)
                    if p2 and c2[0] == "cmp" and c2[1] == "==":
                        for a_, b_ in ((c2[2], c2[3]), (c2[3], c2[2])):
                            if a_[0] == "c" and isinstance(a_[1], str) and b_[0] == "n" and b_[1] in col_of_param and b_[1] != p:
                                targets[a_[1]] = (col_of_param[b_[1]], tbl)
            if len({t for _, t in targets.values()}) >= 2:
                dcols = {d for d, _ in targets.values()}
                if len(dcols) == 1:
                    dcol = dcols.pop()
                    jval = [v_ for v_, (d, t) in targets.items() if t == "junction"]
                    out[(table, col)] = (dcol, jval[0] if jval else None, {v_: t for v_, (d, t) in targets.items()})
    return out


MUTATORS = {"drop", "update", "pop", "append", "extend", "insert", "remove", "rename", "set_index", "reindex", "fillna",
            "replace", "sort_index", "sort_values", "reset_index", "clear", "add", "discard", "setdefault", "drop_duplicates"}


def _net_tbl(t):
    """net[A] / net.A  ->  A (term) or None"""
    if t[0] == "idx" and t[1][0] == "n" and len(t[2]) == 1:
        return t[2][0]
    if t[0] == "attr" and t[1][0] == "n":
        return C(t[2])
    return None


def _reference_accesses(ix, f, r, mask_fn):
    """scan all terms of a function summary for reads / writes of net[A][B] (or net[A].loc[rows, B]) with non-constant
    A and B, and classify each as guarded by mask_fn(net, A, B) or not"""
    found = {}

    def M(net, A, B):
        return ("call", ("f", mask_fn), (net, A, B), ())

    def is_mask(x):
        return x[0] == "call" and x[1] == ("f", mask_fn)

    def scan(t, guards, where):
        if not isinstance(t, tuple) or not t:
            return
        if not isinstance(t[0], str):
            for x in t:
                scan(x, guards, where)
            return
        if t[0] == "idx" and len(t[2]) == 1 and t[1][0] in ("idx", "attr") and _net_tbl(t[1]) is not None:
            A, B = _net_tbl(t[1]), t[2][0]
            if A[0] != "c" and B[0] not in ("c", "opn", "u", "cmp", "call", "idx", "slice", "list", "tuple"):
                net = t[1][1]
                found.setdefault((key(A), key(B)), []).append((key(M(net, A, B)) in guards, t, where))
        if t[0] == "idx" and len(t[2]) == 2 and t[1][0] == "attr" and t[1][2] in ("loc", "at") and _net_tbl(t[1][1]) is not None:
            A, B, rows = _net_tbl(t[1][1]), t[2][1], t[2][0]
            if A[0] != "c" and B[0] not in ("c", "slice"):
                net = t[1][1][1]
                found.setdefault((key(A), key(B)), []).append((key(M(net, A, B)) in guards or contains(rows, M(net, A, B)), t, where))
        g2 = guards
        if t[0] == "opn" and t[1] == "&":
            g2 = guards | {key(x) for x in t[2] if is_mask(x)}
        elif t[0] == "opn" and t[1] == "|":
            g2 = guards | {key(x[2]) for x in t[2] if x[0] == "u" and x[1] == "~" and is_mask(x[2])}
        for x in t[1:]:
            scan(x, g2, where)

    for e in r.events:
        if e.kind == "store":
            # the target itself
            tgt = ("idx", e.base, e.index)
            scan(tgt, frozenset(), e.node)
            scan(e.value, frozenset(), e.node)
        elif e.kind == "call" and (e.fn[0] == "f" or (e.fn[0] == "attr" and e.fn[2] in MUTATORS)):
            # sinks only: the result of a pure method call (isin, values ...) is scanned where it is used
            scan(e.term, frozenset(), e.node)
        elif e.kind in ("return", "raise"):
            scan(e.value, frozenset(), e.node)
        for c, _ in e.cond:
            scan(c, frozenset(), e.node)
    return found


def r17_1(run):
    ix = run.index
    poly = polymorphic_columns(ix)
    run.ob("schema|polymorphic-columns", ("valve", "element") in poly and poly[("valve", "element")][:2] == ("et", "ju"),
           "polymorphic reference columns derived from the create functions: %s" % poly, CR)
    if not poly:
        return
    dcol, jval, tbls = poly.get(("valve", "element"), ("et", "ju", {}))
    pval = [v for v, t in tbls.items() if t == "pipe"]
    mi = ix.module(TB)
    # discriminator helper: a function (net, table, column) whose result for (valve, element) is `et == 'ju'` of the rows
    helpers = []
    for f in mi.functions.values():
        ps = f.params()
        if len(ps) != 3:
            continue
        try:
            r = ANF(ix, f, consts={ps[1]: "valve", ps[2]: "element"}, param_alias={ps[0]: "net"}).run()
        except AnalysisError:
            continue
        cmp_ = ("cmp", "==", C(jval), None)
        for e in r.returns():
            if any(x[0] == "cmp" and ((x[1] == "==" and C(jval) in (x[2], x[3])) or (x[1] == "!=" and pval and C(pval[0]) in (x[2], x[3])))
                   and any(contains(y, C(dcol)) for y in (x[2], x[3])) for x in walk(e.value)):
                helpers.append(f)
    run.ob("discriminator-helper", len(helpers) == 1,
           "one helper yields the rows in which a listed column really refers to a junction (tests %s == %r): %s"
           % (dcol, jval, [h.name for h in helpers]), TB)
    if len(helpers) != 1:
        return
    helper = helpers[0]
    run.analysed(helper)
    # for any other (table, column) the helper must not exclude rows
    ps = helper.params()
    r = ANF(ix, helper, consts={ps[1]: "sink", ps[2]: "junction"}, param_alias={ps[0]: "net"}).run()
    rets = r.returns()
    ok = len(rets) == 1 and rets[0].value[0] == "call" and rets[0].value[1] == ("x", "numpy.ones")
    run.ob("discriminator-helper|all-rows-otherwise", ok, "for monomorphic columns the helper selects all rows", run.where(helper, helper.node),
           detail=show(rets[0].value)[:120] if rets else None)
    ejt = ix.func(TB + ".element_junction_tuples")
    consumers = []
    for f in mi.functions.values():
        if f.name in ("pp_elements", "element_junction_tuples"):
            continue
        if any(callee_name(c) == "element_junction_tuples" for c in calls(f.node)):
            consumers.append(f)
    run.ob("consumers-found", len(consumers) >= 4, "consumers of the reference map: %s" % [f.name for f in consumers], TB)
    for f in consumers:
        run.analysed(f)
        r = ANF(ix, f).run()
        found = _reference_accesses(ix, f, r, helper.qualname)
        run.ob("%s|accesses-found" % f.name, bool(found),
               "%s reads/writes the listed reference columns (%d distinct accesses)" % (f.name, len(found)), run.where(f, f.node))
        n = 0
        for (ka, kb), occ in sorted(found.items()):
            bad = [o for o in occ if not o[0]]
            forms = sorted({show(o[1])[:70] for o in occ})
            for form in forms:
                these = [o for o in occ if show(o[1])[:70] == form]
                b_ = [o for o in these if not o[0]]
                run.ob("%s|guarded|%s" % (f.name, form), not b_,
                       "every use of %s is restricted to the rows in which the column really holds a junction "
                       "(combined with %s(net, table, column))" % (form, helper.name), run.where(f, (b_ or these)[0][2]))
    # the pipe branch of reindex_elements
    f = ix.func(TB + ".reindex_elements")
    ps = f.params()
    r = ANF(ix, f, consts={ps[1]: "pipe"}, param_alias={ps[0]: "net", ps[2]: "lookup"}).run()
    pv = expect(ix, f, "net['valve'].loc[net['valve'][%r] == %r, 'element']" % (dcol, pval[0] if pval else "pi"))
    good = []
    for s_ in r.stores():
        if s_.base == ("attr", expect(ix, f, "net['valve']"), "loc") and len(s_.index) == 2 and s_.index[1] == C("element"):
            v = s_.value
            if v[0] == "call" and v[1][0] in ("f", "x") and v[1][1].endswith("get_indices") and len(v[2]) >= 2 \
                    and key(v[2][0]) == key(pv) and v[2][1] == ("n", "lookup") and contains(s_.index[0], pv):
                good.append(s_)
    run.ob("reindex_elements|pipe-valves-follow-pipes", len(good) >= 1,
           "reindexing pipes rewrites valve.element (through the lookup) for exactly the valves attached to pipes", run.where(f, f.node))
    run.floor(10)


def _drop_calls(r, tbl_term):
    return [c for c in r.calls() if c.fn[0] == "attr" and c.fn[2] == "drop" and key(c.fn[1]) == key(tbl_term)]


def r17_2(run):
    ix = run.index
    poly = polymorphic_columns(ix)
    dcol, jval, tbls = poly.get(("valve", "element"), ("et", "ju", {}))
    pval = ([v for v, t in tbls.items() if t == "pipe"] or ["pi"])[0]
    f = ix.func(TB + ".drop_junctions")
    run.analysed(f)
    w = run.where(f, f.node)
    ps = f.params()
    _sh(len(ps) == 3, "drop_junctions(net, junctions, drop_elements)")
    r = ANF(ix, f, param_alias=dict(zip(ps, ("net", "junctions", "drop_elements")))).run()
    de = ix.func(TB + ".drop_elements_at_junctions")
    cs = [c for c in r.calls() if c.fn == ("f", de.qualname)]
    ok = len(cs) == 1 and cs[0].args[:2] == (("n", "net"), ("n", "junctions")) and not cs[0].kw \
        and all(a_ == ("c", True) for a_ in cs[0].args[2:]) \
        and all(key(c) == key(("n", "drop_elements")) and p for c, p in cs[0].cond)
    run.ob("drop_junctions|cascade", ok,
           "drop_junctions cascades to all elements at the dropped junctions (unless drop_elements=False is requested)", w)
    for tbl in ("junction", "junction_geodata", "res_junction"):
        ds = _drop_calls(r, expect(ix, f, "net[%r]" % tbl))
        run.ob("drop_junctions|drops|%s" % tbl, len(ds) >= 1 and all(contains(d.args[0], ("n", "junctions")) for d in ds if d.args),
               "rows of %s are dropped with the junctions" % tbl, w)
    f = ix.func(TB + ".drop_pipes")
    run.analysed(f)
    w = run.where(f, f.node)
    ps = f.params()
    r = ANF(ix, f, param_alias=dict(zip(ps, ("net", "pipes")))).run()
    for tbl in ("pipe", "pipe_geodata", "res_pipe"):
        ds = _drop_calls(r, expect(ix, f, "net[%r]" % tbl))
        run.ob("drop_pipes|drops|%s" % tbl, len(ds) >= 1 and all(contains(d.args[0], ("n", "pipes")) for d in ds if d.args),
               "rows of %s are dropped with the pipes" % tbl, w)
    sel = expect(ix, f, "(net['valve'][%r] == %r) & net['valve']['element'].isin(pipes)" % (dcol, pval))
    ds = _drop_calls(r, expect(ix, f, "net['valve']"))
    ok = len(ds) >= 1 and all(d.args and contains(d.args[0], sel) for d in ds)
    run.ob("drop_pipes|cascade-to-pipe-valves", ok, "drop_pipes removes exactly the valves attached to the dropped pipes", w,
           detail="; ".join(show(d.args[0])[:150] for d in ds if d.args))
    ds2 = _drop_calls(r, expect(ix, f, "net['res_valve']"))
    run.ob("drop_pipes|res_valve-follows", len(ds2) >= 1 and all(d.args and contains(d.args[0], sel) for d in ds2),
           "results of the dropped valves are dropped", w)
    f = ix.func(TB + ".drop_elements_at_junctions")
    run.analysed(f)
    w = run.where(f, f.node)
    r = ANF(ix, f, param_alias={f.params()[0]: "net", f.params()[1]: "junctions"}).run()
    dp = ix.func(TB + ".drop_pipes")
    cs = [c for c in r.calls() if c.fn == ("f", dp.qualname)]
    ok = len(cs) == 1 and any(c[0] == "cmp" and c[1] == "==" and C("pipe") in (c[2], c[3]) and p for c, p in cs[0].cond)
    run.ob("drop_elements_at_junctions|pipes-via-drop_pipes", ok,
           "pipes at dropped junctions are removed through drop_pipes (so their valves follow)", w)
    gen = [c for c in r.calls() if c.fn[0] == "attr" and c.fn[2] == "drop" and c.loops]
    tabs = {key(c.fn[1]) for c in gen}
    T = [x for c in gen for x in walk(c.fn[1]) if x[0] == "loop"]
    ok = bool(T) and key(("idx", ("n", "net"), (T[0],))) in tabs and key(("idx", ("n", "net"), (("cat", (C("res_"), T[0])),))) in tabs
    run.ob("drop_elements_at_junctions|results-follow", ok, "rows of the element table and of its result table are dropped", w,
           detail=str(sorted(show(c.fn[1]) for c in gen)))
    if cs and gen:
        e0 = [c for c in gen if key(c.fn[1]) == key(("idx", ("n", "net"), (T[0],)))]
        run.ob("drop_elements_at_junctions|same-rows", bool(e0) and key(e0[0].args[0]) == key(cs[0].args[1]),
               "the same row selection is used for pipes and for all other elements", w)
    f = ix.func(TB + ".reindex_elements")
    run.analysed(f)
    w = run.where(f, f.node)
    ps = f.params()
    r = ANF(ix, f, param_alias=dict(zip(ps, ("net", "element", "lookup")))).run()
    for nm, tt in (("element", "net[element]"), ("geodata", "net[element + '_geodata']"), ("results", "net['res_' + element]")):
        tbl = expect(ix, f, tt)
        st = [s_ for s_ in r.stores() if key(base_of(s_.base)) == key(tbl) and s_.index == (C(".index"),)]
        ok = len(st) == 1 and st[0].value[0] == "call" and st[0].value[1][1].endswith("get_indices") and len(st[0].value[2]) >= 2 \
            and key(st[0].value[2][0]) == key(("attr", tbl, "index")) and st[0].value[2][1] == ("n", "lookup")
        run.ob("reindex_elements|index-follows|%s" % nm, ok, "the index of the %s table is mapped through the lookup" % nm, w)
    f = ix.func(TB + ".fuse_junctions")
    run.analysed(f)
    r = ANF(ix, f).run()
    dj = ix.func(TB + ".drop_junctions")
    cs = [c for c in r.calls() if c.fn == ("f", dj.qualname)]
    kw = dict(cs[0].kw) if cs else {}
    de_arg = kw.get(dj.params()[2], cs[0].args[2] if cs and len(cs[0].args) > 2 else None)
    run.ob("fuse_junctions|drops-fused", len(cs) == 1 and de_arg == C(False),
           "the fused junctions are dropped after their references were redirected (elements are kept)", run.where(f, f.node))
    if cs:
        red = [s_ for s_ in r.stores() if s_.loops and s_.base[0] == "attr" and s_.base[2] == "loc"]
        # the junction the references are redirected to must not be among the dropped ones
        tgt = {key(s_.value) for s_ in red}
        D = cs[0].args[1] if len(cs[0].args) > 1 else dict(cs[0].kw).get(dj.params()[1])
        excl = D is not None and len(tgt) == 1 and any(
            x[0] == "op" and x[1] == "-" and x[3][0] in ("set", "list", "tuple") and any(key(i) in tgt for i in x[3][1]) for x in walk(D))
        run.ob("fuse_junctions|target-survives", excl,
               "the junction the references are redirected to is removed from the collection of junctions that is dropped "
               "(fusing a group that contains the target must keep the target)", run.where(f, cs[0].node), detail=show(D)[:200] if D else None)
        run.ob("fuse_junctions|redirect-before-drop", bool(red) and all(s_.seq < cs[0].seq for s_ in red),
               "references are redirected before the junctions are dropped", run.where(f, f.node))
    f = ix.func(TB + ".select_subnet")
    run.analysed(f)
    r = ANF(ix, f).run()
    st = [s_ for s_ in r.stores() if s_.index == (C("valve"),) and not s_.loops]
    ok = False
    for s_ in st:
        v = s_.value
        if v[0] == "idx" and len(v[2]) == 1 and v[2][0][0] == "opn" and v[2][0][1] == "|":
            items = v[2][0][2]
            neg = [x for x in items if x[0] == "u" and x[1] == "~" and x[2][0] == "cmp" and C(pval) in (x[2][2], x[2][3])]
            isin = [x for x in items if x[0] == "call" and x[1][0] == "attr" and x[1][2] == "isin" and contains(x[1][1], C("element"))
                    and x[2] and contains(x[2][0], C("pipe"))]
            ok = ok or (bool(neg) and bool(isin))
    run.ob("select_subnet|pipe-valves-with-their-pipe", ok, "a pipe valve is selected only together with its pipe", run.where(f, f.node))
    run.floor(9)


def _sh(ok, what):
    if not ok:
        raise AnalysisError("unrecognised shape: " + what)


def r17_3(run):
    ix = run.index
    f = ix.func(TB + ".element_junction_tuples")
    run.analysed(f)
    w = run.where(f, f.node)
    r0 = ANF(ix, f, consts={"net": None}).run()
    # the static class list: the iterable of the {comp.table_name(): comp for comp in [...]} comprehension
    lst = None
    special = None
    for e in r0.events:
        t = e.term if e.kind == "call" else getattr(e, "value", None)
        if t is None:
            continue
        for x in walk(t):
            if x[0] == "comp" and x[1] == "DictComp" and x[2][0] == "kv" and x[2][2] == ("b", 0) and len(x[3]) == 1 \
                    and x[3][0][1][0] in ("list", "tuple"):
                names = [y[1].split(".")[-1] for y in x[3][0][1][1] if y[0] in ("f", "n", "x")]
                if len(names) == len(x[3][0][1][1]):
                    lst = names
            # (the same comprehension over a display arrives expanded: {Cls.table_name(): Cls, ...})
            if x[0] == "dict" and x[1] and all(v_[0] in ("f", "n", "x") and k_[0] == "call" and k_[1][0] == "attr" and k_[1][1] == v_
                                               and k_[1][2] == "table_name" for k_, v_ in x[1]):
                lst = [v_[1].split(".")[-1] for _, v_ in x[1]]
            # the special columns: (el, jn) for el, jn in [("press_control", "controlled_junction"), ...]
            if x[0] == "comp" and x[1] == "GeneratorExp" and len(x[3]) == 1 and x[3][0][1][0] in ("list", "tuple") \
                    and all(y[0] == "tuple" and len(y[1]) == 2 and all(z[0] == "c" for z in y[1]) for y in x[3][0][1][1]):
                special = {tuple(z[1] for z in y[1]) for y in x[3][0][1][1]}
    have = set(lst or [])
    want = {c.name for c in ix.components() if ix.is_subclass(c, "BranchComponent") or ix.is_subclass(c, "NodeElementComponent")}
    run.ob("static-component-list-complete", lst is not None and want <= have,
           "the static component list covers every node-element / branch component of the package", w,
           detail="missing: %s" % sorted(want - have))
    from .c16 import reference_columns
    refs = reference_columns(ix)
    extra = set()
    for c in ix.components():
        tbl = ix.method_const(c, "table_name")
        ft = set(ix.method_const(c, "from_to_node_cols") or []) if ix.is_subclass(c, "BranchComponent") else set()
        for col, kind in refs.get(tbl, {}).items():
            if kind == "junction" and col not in ft and col != "junction":
                extra.add((tbl, col))
    run.ob("special-junction-columns", special is not None and special == extra,
           "the special junction columns of the map equal the schema's extra junction columns: %s" % sorted(extra), w,
           detail="map: %s" % sorted(special or []))
    ps = f.params()
    _sh("net" in ps, "element_junction_tuples has a net parameter")
    r = ANF(ix, f, consts={"net": None}).run()
    ups = [c for c in r.calls() if c.fn[0] == "attr" and c.fn[2] == "update" and c.args]
    from ..arrnf import subst as _subst

    def forms(c):
        """(items with the element variables replaced by ("V", k), iterable term) of a `set.update` that adds entries per element:
        inside a loop over the elements, or with a generator / list comprehension over them"""
        a0 = c.args[0]
        if c.loops and a0[0] in ("list", "tuple", "set"):
            lid = c.loops[-1]
            m_ = {key(("loop", lid, 0)): ("V", 0), key(("loop", lid, 1)): ("V", 1)}
            return [_subst(i, m_) for i in a0[1]], r.loops[lid]["iter"]
        if a0[0] == "comp" and len(a0[3]) == 1 and not a0[3][0][2]:
            bv = a0[3][0][0]
            m_ = {key(bv): ("V", 0), key(bv + (0,)): ("V", 0), key(bv + (1,)): ("V", 1)}
            elt = _subst(a0[2], m_)
            return [elt], a0[3][0][1]
        return None, None

    def filt(it, clsname):
        return any(x[0] == "call" and x[1] == ("x", "builtins.issubclass") and len(x[2]) == 2 and x[2][1][0] == "f"
                   and x[2][1][1].endswith("." + clsname) for x in walk(it))
    br_ok = nd_ok = False
    # entries added per element by several statements of one loop body (ejts.add(..); ejts.add(..)) are one group
    groups = {}
    for c in ups:
        items, it = forms(c)
        if items is None:
            continue
        gk = (c.loops, key(it), key(c.fn[1]), tuple((key(c_), p_) for c_, p_ in c.cond)) if c.loops else ("single", id(c))
        if gk in groups:
            groups[gk][0].extend(items)
        else:
            groups[gk] = (list(items), it, c)
    for items, it, c in groups.values():
        T, F = ("V", 0), ("V", 1)
        from ..arrnf import norm_cond as _nc

        def filtered(clsname):
            # the class filter: in the iterable (comprehension condition) or as the path condition of the update (if / continue)
            if filt(it, clsname):
                return True
            for c_, p_ in c.cond:
                c2, p2 = _nc(c_, p_)
                if p2 and filt(c2, clsname):
                    return True
            return False

        def ftn_component(x, k):
            """x is component k of <class>.from_to_node_cols(): of the loop's second variable (whose iterable calls it), or of a call"""
            if x == ("idx", F, (C(k),)) and any(y[0] == "call" and y[1][0] == "attr" and y[1][2] == "from_to_node_cols" for y in walk(it)):
                return True
            src = x[1] if x[0] == "proj" and x[2] == k else (x[1] if x[0] == "idx" and x[2] == (C(k),) else None)
            return src is not None and src[0] == "call" and src[1][0] == "attr" and src[1][2] == "from_to_node_cols"
        if len(items) == 2 and all(i[0] == "tuple" and len(i[1]) == 2 and i[1][0] == T for i in items) \
                and {k for i in items for k in (0, 1) if ftn_component(i[1][1], k)} == {0, 1} and filtered("BranchComponent"):
            br_ok = True
        if len(items) == 1 and key(items[0]) == key(("tuple", (T, C("junction")))) and filtered("NodeElementComponent"):
            nd_ok = True
    run.ob("branch-columns-from-class", br_ok,
           "for every BranchComponent table both columns of the class's from_to_node_cols() are listed", w)
    run.ob("node-element-column", nd_ok,
           "for every NodeElementComponent table the column `junction` is listed", w)
    run.floor(4)


def r17_4(run):
    """each index is renumbered once: reindex_elements(net, E, lookup) also rewrites the index of res_E and E_geodata with E's
    lookup, so a driver that visits a set of tables must not pass those dependent tables to the renumbering themselves (the
    second renumbering applies a lookup of old labels to an already renumbered index -- KeyError or results attached to the
    wrong rows, depending on the iteration order of the set)"""
    ix = run.index
    f = ix.func(TB + ".reindex_elements")
    ps = f.params()
    r = ANF(ix, f, param_alias=dict(zip(ps, ("net", "element", "lookup")))).run()
    dependents = []
    for s_ in r.stores():
        if s_.index == (C(".index"),) and s_.base[0] == "idx" and s_.base[1] == ("n", "net"):
            k = s_.base[2][0]
            if k[0] == "cat" and len(k[1]) == 2:
                if k[1][0][0] == "c" and k[1][1] == ("n", "element"):
                    dependents.append(("prefix", k[1][0][1]))
                elif k[1][1][0] == "c" and k[1][0] == ("n", "element"):
                    dependents.append(("suffix", k[1][1][1]))
    run.ob("reindex_elements|dependent-tables", ("prefix", "res_") in dependents and ("suffix", "_geodata") in dependents,
           "tables whose index reindex_elements rewrites together with the element: %s" % dependents, run.where(f, f.node))
    d = ix.func(TB + ".create_continuous_elements_index")
    run.analysed(d)
    r = ANF(ix, d).run()
    inner = ix.func(TB + ".create_continuous_element_index")
    cs = [c for c in r.calls() if c.fn == ("f", inner.qualname) and c.loops]
    _sh(len(cs) >= 1, "create_continuous_elements_index calls create_continuous_element_index in a loop")
    ppe = ix.func(TB + ".pp_elements")
    for c in cs:
        lv = c.args[1] if len(c.args) > 1 else None
        _sh(lv is not None and lv[0] == "loop", "the table name passed on is the loop variable")
        it = r.loops[lv[1]]["iter"]
        with_res = False
        for x in walk(it):
            if x[0] == "call" and x[1] == ("f", ppe.qualname):
                kw = dict(x[3])
                pos = dict(zip(ppe.params(), x[2]))
                v = kw.get("include_res_elements", pos.get("include_res_elements", C(False)))
                with_res = with_res or v != C(False)
        excluded = set()
        for t, pol in c.cond:
            for x in walk(t):
                if x[0] == "call" and x[1][0] == "attr" and key(x[1][1]) == key(lv) and x[1][2] in ("startswith", "endswith") and x[2] \
                        and x[2][0][0] == "c" and not pol:
                    excluded.add(("prefix" if x[1][2] == "startswith" else "suffix", x[2][0][1]))
                if x[0] == "cmp" and x[1] == "in" and key(x[2]) == key(lv) and x[3][0] in ("list", "tuple", "set") and not pol:
                    for i in x[3][1]:
                        if i[0] == "c" and isinstance(i[1], str) and i[1].endswith("_geodata"):
                            excluded.add(("suffix", "_geodata"))
        run.ob("create_continuous_elements_index|result-tables-not-renumbered-twice", (not with_res) or ("prefix", "res_") in excluded,
               "result tables are renumbered only together with their element table (the set of visited tables contains res_ tables: %s; "
               "excluded from the direct renumbering: %s)" % (with_res, sorted(excluded)), run.where(d, c.node))
        run.ob("create_continuous_elements_index|geodata-tables-not-renumbered-twice", ("suffix", "_geodata") in excluded,
               "geodata tables are renumbered only together with their element table", run.where(d, c.node))
    run.floor(3)


def r17_5(run):
    """a sub-network reproduces the results of the region it was cut from only if it carries the net-level data every calculation
    reads: the fluid, the stored pipeflow options (user_pf_options), the component list and the std-type library.  On the path of
    select_subnet that builds a new net (keep_everything_else=False) each of them is taken from the source net -- copied into the
    new net, or handed to create_empty_network."""
    from ..arrnf import ANF, C, base_of, contains, key as tkey, norm_cond, roots, walk
    ix = run.index
    f = ix.func(TB + ".select_subnet")
    run.analysed(f)
    ps = f.params()
    r = ANF(ix, f, param_alias={ps[0]: "net"}).run()
    w = run.where(f, f.node)
    cen = [c for c in r.calls() if c.fn[0] == "f" and c.fn[1].endswith(".create_empty_network")]
    _sh(len(cen) >= 1, "select_subnet builds the new net with create_empty_network")
    got = {}
    for k_, v_ in cen[0].kw:
        if contains(v_, ("n", "net")):
            got[k_] = "create_empty_network(%s=...)" % k_
    for pn, a_ in zip(ix.func(cen[0].fn[1]).params(), cen[0].args):
        if contains(a_, ("n", "net")):
            got[pn] = "create_empty_network(%s)" % pn
    new_net = cen[0].term
    for e in r.stores():
        if tkey(new_net) in roots(e.base) and len(e.index) == 1 and e.index[0][0] == "c" and isinstance(e.index[0][1], str):
            k_ = e.index[0][1].lstrip(".")
            src = ("idx", ("n", "net"), (C(k_),))
            if any(tkey(x) == tkey(src) for x in walk(e.value)) or contains(e.value, ("call", ("attr", ("n", "net"), "get"), (C(k_), C(None)), ())):
                got[k_] = "copied"
    for k_ in ("fluid", "user_pf_options", "component_list", "std_types"):
        run.ob("select_subnet|carries|%s" % k_, k_ in got,
               "the new net of select_subnet takes %s from the source net" % k_, w, detail=str(sorted(got)))
    run.floor(4)


def r17_6(run):
    """the tools only touch what they were asked to touch: element_junction_tuples is the work list of drop_elements_at_junctions and
    of the reindexing tools; with include_node_elements, include_branch_elements and include_res_elements all False it lists
    nothing -- every entry it adds is tied to one of the requested element kinds (a column that is added whenever its table exists
    makes a tool change elements of a kind that was excluded)"""
    from ..arrnf import ANF, show as tshow
    ix = run.index
    f = ix.func(TB + ".element_junction_tuples")
    run.analysed(f)
    ps = f.params()
    flags = [p_ for p_ in ps if p_.startswith("include_")]
    _sh(len(flags) >= 2, "element_junction_tuples has include_* flags")
    w = run.where(f, f.node)
    for net_known in (False, True):
        consts = {p_: False for p_ in flags}
        if not net_known and "net" in ps:
            consts["net"] = None
        r = ANF(ix, f, consts=consts).run()
        adds = [c for c in r.calls() if c.fn[0] == "attr" and c.fn[2] in ("update", "add") and c.args
                and not (c.args[0][0] in ("list", "tuple", "set") and not c.args[0][1])]
        st = [e for e in r.stores() if e.aug]
        run.ob("element_junction_tuples|nothing-requested-nothing-listed|%s" % ("net" if net_known else "no-net"), not adds and not st,
               "with all include_* flags False no (table, column) pair is listed", run.where(f, adds[0].node) if adds else w,
               detail=tshow(adds[0].term)[:200] if adds else None)
    run.floor(2)


RULES = [("R17.1", r17_1), ("R17.2", r17_2), ("R17.3", r17_3), ("R17.4", r17_4), ("R17.5", r17_5), ("R17.6", r17_6)]


def _stem(name):
    for pre in ("include_", "respect_status_", "respect_", "with_", "use_"):
        if name.startswith(pre):
            return name[len(pre):]
    return name


def crossed_arguments(ix, modules=None):
    """[(caller, call, caller parameter, callee parameter it is bound to, the callee parameter of the same name)]: a parameter of the
    caller is handed, unchanged, to a parameter of a package function that is named differently although the callee has a parameter
    named (up to an include_/respect_ prefix) like the caller's; and the number of parameter-to-parameter bindings looked at"""
    sites, n = [], 0
    for f in ix.all_functions():
        if ".test." in f.module or (modules and not f.module.startswith(tuple(modules))):
            continue
        params = set(f.params())
        for c in calls(f.raw_node):
            if not isinstance(c.func, ast.Name) or any(isinstance(a, ast.Starred) for a in c.args):
                continue
            r = ix.resolve_in(f, c.func.id)
            if not r or r[0] != "func":
                continue
            g = r[1]
            if g.node.args.vararg is not None:
                continue
            gparams = g.params()
            bound = {}
            for q, a in zip(gparams, c.args):
                bound[q] = a
            for k in c.keywords:
                if k.arg is not None:
                    bound[k.arg] = k.value
            gstems = {_stem(q): q for q in gparams}
            for q, a in bound.items():
                if not (isinstance(a, ast.Name) and a.id in params):
                    continue
                n += 1
                sp_, sq = _stem(a.id), _stem(q)
                if sp_ != sq and sp_ in gstems and gstems[sp_] != q:
                    # the same-named parameter of the callee gets something else (or nothing): the two are crossed
                    other = bound.get(gstems[sp_])
                    if not (isinstance(other, ast.Name) and other.id == a.id):
                        sites.append((f, c, a.id, q, gstems[sp_]))
    return sites, n


def r17_7(run, modules=("pandapipes.toolbox",), label="the restructuring tools", min_n=20):
    """a tool touches the element kinds it was asked to touch: a flag parameter (node_elements, branch_elements, ...) that is handed
    on to another function of the package goes to the parameter of the same name there.  A caller parameter bound to a *differently*
    named parameter of the callee although the callee has one of that name (up to an include_ / respect_ prefix) -- two flags crossed
    in a positional call -- makes the tool work on the kind that was excluded."""
    ix = run.index
    sites, n = crossed_arguments(ix, modules)
    for f, c, p_, q, better in sites:
        run.analysed(f)
        run.ob("%s|%s->%s|forwarded-to-the-same-named-parameter" % (f.short, p_, q), False,
               "in %s every parameter handed on unchanged goes to the callee's parameter of the same name" % label, run.where(f, c),
               detail="%s is bound to %s although %s has the parameter %s" % (p_, q, U(c.func), better))
    if n < min_n // 2:
        raise AnalysisError("only %d parameter-to-parameter bindings found in %s" % (n, "/".join(modules)))
    run.ob("parameter-forwardings-examined", not sites,
           "parameter-to-parameter bindings in calls of package functions examined: %d, none crossed" % n, "/".join(modules))
    run.floor(1)


RULES.append(("R17.7", r17_7))


def relabel_sites(ix):
    """[(function, node, table term, new-labels term, ok)]: the index of a table of the net is replaced (`T.index = v`,
    `T.set_index(v)`, `T.set_axis(v)`); ok iff v is computed from T's own index (a label map), not taken from elsewhere"""
    from ..arrnf import ANF, C, base_of, contains, key as tkey, walk
    out = []
    for f in ix.module(TB).functions.values():
        if not any(isinstance(n, ast.Attribute) and n.attr in ("index", "set_index", "set_axis") for n in ast.walk(f.raw_node)):
            continue
        try:
            r = ANF(ix, f, strip=False).run()
        except AnalysisError:
            continue
        seen = set()
        for e in r.events:
            if e.kind == "store" and e.index == (C(".index"),):
                tbl = base_of(e.base)
                out.append((f, e.node, tbl, e.value, contains(e.value, ("attr", tbl, "index"))))
            for t in (getattr(e, "term", None), getattr(e, "value", None)):
                if not isinstance(t, tuple):
                    continue
                for x in walk(t):
                    if isinstance(x, tuple) and x and x[0] == "call" and x[1][0] == "attr" and x[1][2] in ("set_index", "set_axis") and x[2] \
                            and tkey(x) not in seen:
                        seen.add(tkey(x))
                        tbl = base_of(x[1][1])
                        new = x[2][0]
                        if new[0] == "c" or (new[0] in ("list", "tuple") and all(y[0] == "c" for y in new[1])):
                            continue        # a column name: set_index("name") moves a column into the index
                        out.append((f, e.node, tbl, new, contains(new, ("attr", tbl, "index"))))
    return out


def r17_8(run):
    """the tools that give elements new labels keep every row with its element: the index of a table is replaced only by a map of
    its OWN old labels (`T.index = get_indices(T.index, lookup)`), never by the labels of another table assigned by position
    (`res.set_index(net[element].index)` pairs the k-th result row with the k-th element row, which is another element whenever
    the two tables are not in the same row order)."""
    from ..arrnf import show as tshow
    ix = run.index
    sites = relabel_sites(ix)
    for f, node, tbl, new, ok in sites:
        run.analysed(f)
        run.ob("%s|%s|relabelled-by-a-map-of-its-own-labels" % (f.short, tshow(tbl)[:40]), ok,
               "the new index of %s is computed from its own old index" % tshow(tbl)[:40], run.where(f, node), detail=tshow(new)[:120])
    run.stat("index_replacements_in_toolbox", len(sites))
    run.floor(2)


RULES.append(("R17.8", r17_8))

EXPLANATION += (' ' + '(R17.9, shared with C05 R5.8) the restructuring tools may leave a result table in another row order than its element table (relabelled, '
                'subset taken in the order asked for); the next pipeflow is unaffected because init_results_element rebinds every result table to a fresh '
                'frame with the index of the element table on every path, never re-uses the old one.')


def r17_9(run):
    """physics after restructuring: result extraction writes by position in element-table order, so the result table of the next run
    must carry the element table's index in the element table's order -- guaranteed by rebinding it from net[element].index on every
    path (shared with C05 R5.8); a kept table whose labels merely form the same set puts results under the wrong labels."""
    from .c05 import r5_8
    r5_8(run)


RULES.append(("R17.9", r17_9))
