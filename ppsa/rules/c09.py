"""C09 -- physically equivalent descriptions of a network give identical results (kernel-level clauses).

 R9.1 reversal oddness of the hydraulic residuals
 R9.2 pressure-shift invariance for liquids
 R9.3 per-section repetition of pipe parameters and interpolation of internal nodes
 R9.4 load aggregation and signs (shared with C03 R3.4)
 R9.5 thermal direction switch (shared with C10 R10.5)
 R9.6 an out-of-service element / closed valve contributes nothing: ACTIVE column and in_service factors
 R9.7 end symmetry of the pit construction (TOUTINIT is the temperature of the TO_NODE)
"""
import ast

from .. import phys
from ..algebra import GExpr, Poly, apply_fn
from ..astutil import U, calls, callee_name, own_walk
from ..kernelir import PyVal
from ..phys import DT, PT, bcol, check_equal, component, g, hook_summary, ncol, pit_cols, run_kernel, tonum
from ..source import AnalysisError

EXPLANATION = (
    'Algebraic symmetries are decided on the normal forms of the numpy hydraulic kernels (tied to the numba twins by '
    'C07): (R9.1) substituting p_from<->p_to, dh->-dh, m->-m, PL->0 turns the liquid and the gas residual into their '
    "negation and leaves the friction loss' magnitude unchanged, so reversing a branch only flips the sign of its flow; "
    '(R9.2) adding a constant to both end pressures leaves the liquid residual unchanged and the liquid density / heat '
    'capacity read no pressure; (R9.3) in Pipe/BranchWInternals.create_pit_branch_entries every per-element column is '
    'repeated per section (np.repeat by the section count), LENGTH is length_km*1000/sections, and internal node '
    'temperature/pressure/height are interpolated between the end junctions (vinterp) and PAMB is the barometric pressure'
    ' of the interpolated height; (R9.4) several const-flow elements on a junction accumulate (+=) their scaled, signed, '
    'in-service mass flows and a source is a negative sink; (R9.5) the thermal direction switch; (R9.6) every branch '
    'component writes its ACTIVE column from its in_service/opened column and const-flow loads carry the in_service '
    'factor; (R9.8, shared with C04 R4.5) flow-return-connecting branches (heat consumers, active flow controllers) are '
    're-admitted after the connectivity search only if they are in service. (R9.7) end symmetry of the pit construction: '
    'wherever a create_pit_branch_entries writes TOUTINIT from node temperatures it reads TINIT of exactly the node it '
    'stores in TO_NODE for the same rows (the from side is read as TINIT of FROM_NODE in the kernels), so swapping '
    'from/to mirrors the pair of end temperatures the fluid properties are evaluated at; prescribed outlet temperatures '
    '(heat consumer return, pump flow temperature) involve no node value. (R9.9, shared with C06 R6.3) the group sum that'
    ' adds up the loads of one junction sorts indices and values together before it takes the group boundaries, so every '
    'junction is returned once with the sum of all its entries. Not decided: equality of the results of two networks '
    '(runtime).')
ASSUMPTIONS = [phys.POSITIVITY_TEXT, "mean quantities (density, compressibility, mean temperature) are symmetric under branch reversal"]
TECHNIQUE = "substitution in rational normal forms of the kernels; per-class value numbering of pit construction"
EXPLANATION += (' ' + '(R9.10, shared with C04 R4.12) out of service is equivalent to absent also in the per-junction multiplicities (counting groupings take in-service rows only).')
EXPLANATION += (' ' + '(R9.3, restated in round 8) what adds up along a pipe (length, loss coefficient) is divided by the section count, what describes every section (diameter, roughness, heat transfer coefficient, ambient temperature) is repeated. (R9.11, shared with C04 R4.8) hooks on the reduced pit read no element table.')

P_FROM, P_TO, DH = ("sym", "p_init_i_abs"), ("sym", "p_init_i1_abs"), ("sym", "height_difference")
M_ATOM = ("sym", "col", "branch_pit", "i", "idx_branch", "MDOTINIT")
PL_ATOM = ("sym", "col", "branch_pit", "i", "idx_branch", "PL")


def r9_1(run):
    ix = run.index
    for nm in ("derivatives_hydraulic_incomp_np", "derivatives_hydraulic_comp_np"):
        f = ix.func(DT + "." + nm)
        run.analysed(f)
        k, _ = run_kernel(ix, None, fi=f)
        out = dict(zip(k.output_names, k.outputs))
        lv = out["load_vec"].plain()
        fl = out["dp_frict_loss"].plain()
        if lv is None or fl is None:
            raise AnalysisError("guarded residual in %s" % nm)
        mp = {P_FROM: Poly.atom(P_TO), P_TO: Poly.atom(P_FROM), DH: -Poly.atom(DH), M_ATOM: -Poly.atom(M_ATOM), PL_ATOM: Poly()}
        # the mean temperature of the gas law uses the from node: symmetric atom under reversal by assumption
        rev = lv.subst(mp)
        base = lv.subst({PL_ATOM: Poly()})
        w = run.where(f, f.node)
        check_equal(run, "%s|residual-odd-under-reversal" % nm, g(rev), g(-base),
                    "swapping from/to (p_from<->p_to, dh->-dh, m->-m) negates the residual: reversal only flips the flow sign", w)
        check_equal(run, "%s|friction-loss-odd" % nm, g(fl.subst(mp)), g(-fl),
                    "the friction loss changes sign with the flow direction and keeps its magnitude", w)
        c = Poly.sym("shift")
    run.floor(4)


def r9_2(run):
    ix = run.index
    f = ix.func(DT + ".derivatives_hydraulic_incomp_np")
    k, _ = run_kernel(ix, None, fi=f)
    out = dict(zip(k.output_names, k.outputs))
    lv = out["load_vec"].plain()
    c = Poly.sym("c")
    shifted = lv.subst({P_FROM: Poly.atom(P_FROM) + c, P_TO: Poly.atom(P_TO) + c})
    w = run.where(f, f.node)
    check_equal(run, "incomp|pressure-shift-invariant", g(shifted), g(lv),
                "raising both end pressures by a constant leaves the liquid residual unchanged", w)
    for o in ("df_dm", "df_dp", "df_dp1", "dp_frict_loss"):
        p = out[o].plain()
        check_equal(run, "incomp|%s-shift-invariant" % o, g(p.subst({P_FROM: Poly.atom(P_FROM) + c, P_TO: Poly.atom(P_TO) + c})), g(p),
                    "%s does not depend on the pressure level" % o, w)
    from .c10 import kind_of, _all_app_atoms
    for fname in ("get_branch_real_density", "get_branch_cp"):
        f2 = ix.func(PT + "." + fname)
        run.analysed(f2)
        k2, _ = run_kernel(ix, None, fi=f2, consts={"fluid.is_gas": False})
        v = tonum(k2.outputs[0])
        press = set()
        for gd, p in v.cases:
            for a in p.symbols():
                if len(a) == 6 and a[1] == "col" and a[5] in ("PINIT", "PAMB"):
                    press.add(a[5])
        run.ob("liquid|%s-reads-no-pressure" % fname, not press,
               "the liquid arm of %s reads no pressure column" % fname, run.where(f2, f2.node), detail=str(sorted(press)))
    run.floor(7)


PER_ELEMENT = {"ELEMENT_IDX": "<index>", "ACTIVE": "in_service", "D": "inner_diameter_mm", "LOSS_COEFFICIENT": "loss_coefficient",
               "LENGTH": "length_km", "K": "k_mm", "ALPHA": "u_w_per_m2k", "TEXT": "text_k"}


def r9_3(run):
    ix = run.index
    pipe = component(ix, "Pipe")
    f = ix.lookup_method(pipe, "create_pit_branch_entries")
    run.analysed(f)
    ki, k = hook_summary(ix, pipe, "create_pit_branch_entries", {"option:transient": False, "any:*": True}, partial=True)
    cols = pit_cols(ki)
    w = run.where(f, f.node)
    T = lambda c: Poly.sym("tbl", "pipe", c)
    sections = T("sections")
    n_ok = 0
    for colname, user in PER_ELEMENT.items():
        if colname not in cols:
            run.ob("pipe|repeat|%s" % colname, False, "per-element column %s is written%s" % (colname, " (analysis stopped: %s)" % k.error if k.error else ""), w)
            continue
        v = tonum(cols[colname])
        # the first (unconditional) definition is what is repeated; later NaN defaults may wrap it
        txt = str(v)
        rep = [a for gd, p in v.cases for a in _apps(p) if a[1] == "np.repeat"]
        ok = bool(rep)
        if ok:
            from ..algebra import poly_from_key
            entry, count = poly_from_key(rep[0][2]), poly_from_key(rep[0][3])
            ok = count == sections
            uatoms = {a[3] for a in entry.symbols() if len(a) >= 4 and a[1] == "tbl"}
            ok = ok and user in uatoms
            if colname == "LENGTH":
                ok = ok and entry == T("length_km") * 1000 / sections
            if colname == "LOSS_COEFFICIENT":
                # additive along the pipe like the length: each section carries its share, so that n sections lose what one does
                ok = ok and entry == T("loss_coefficient") / sections
            if colname == "D":
                ok = ok and entry == T("inner_diameter_mm") / 1000
            if colname == "K":
                ok = ok and entry == T("k_mm") / 1000
        n_ok += ok
        run.ob("pipe|repeat|%s" % colname, ok,
               "column %s is the user's %s repeated once per section%s" % (colname, user, " (divided by the section count: the sections add up to the pipe)" if colname in ("LENGTH", "LOSS_COEFFICIENT") else ""),
               w, detail=txt[:200])
    # outer diameter: repeated too, defaulting to the inner diameter
    run.ob("pipe|repeat|DO", "DO" in cols and "np.repeat" in str(cols["DO"]),
           "the outer diameter is repeated per section (defaulting to the inner diameter)", w)
    # internal nodes: interpolation between the end junctions (whole-hook terms, arrnf)
    from ..arrnf import ANF, C, FULL, base_of, contains, expect, key as tkey, match, show as tshow, walk
    fn = ix.lookup_method(pipe, "create_pit_node_entries")
    run.analysed(fn)
    rn = ANF(ix, fn, options={"transient": False}).run()
    vi = ix.func("pandapipes.component_models.component_toolbox.vinterp")
    ftc = lambda k: ("proj", ("call", ("attr", ("n", "cls"), "from_to_node_cols"), (), ()), k)
    nint = ("call", ("attr", ("n", "cls"), "get_internal_node_number"), (("n", "net"),), ())
    for colname in ("TINIT", "PINIT", "HEIGHT"):
        colk = ("k", "idx_node." + colname)
        st = [s_ for s_ in rn.stores() if len(s_.index) == 2 and s_.index[0] == FULL and s_.index[1] == colk]
        ok = len(st) == 1
        detail = None
        if ok:
            v = st[0].value
            detail = tshow(v)[:200]
            ok = v[0] == "call" and v[1] == ("f", vi.qualname) and len(v[2]) == 3
            if ok:
                m0 = match(("idx", ("?", "jp"), (("?", "f"), colk)), v[2][0])
                m1 = match(("idx", ("?", "jp"), (("?", "t"), colk)), v[2][1])
                ok = m0 is not None and m1 is not None and tkey(m0["jp"]) == tkey(m1["jp"]) \
                    and contains(m0["f"], ftc(0)) and not contains(m0["f"], ftc(1)) \
                    and contains(m1["t"], ftc(1)) and not contains(m1["t"], ftc(0)) and tkey(v[2][2]) == tkey(nint)
        run.ob("pipe|internal-nodes|%s-interpolated" % colname, ok,
               "internal node %s = vinterp(value at the from junction, value at the to junction, number of internal nodes)" % colname,
               run.where(fn, fn.node), detail=detail)
    # vinterp itself: value_k = a + (b - a)/(n+1) * k for k = 1..n, in the raw arguments a (first) and b (second)
    run.analysed(vi)
    ps = vi.params()
    rv = ANF(ix, vi, param_alias=dict(zip(ps, ("a", "b", "n")))).run()
    rets = rv.returns()
    want = expect(ix, vi, "np.repeat(a, n) + np.repeat((b - a) / (n + 1), n) * (np.arange(n.sum()) - np.repeat(n.cumsum() - n, n) + 1)")
    run.ob("vinterp|linear", len(rets) == 1 and tkey(rets[0].value) == tkey(want),
           "vinterp(a, b, n) returns a + (b - a)/(n+1) * k for k = 1..n in its raw arguments (first argument at the from side)",
           run.where(vi, vi.node), detail=tshow(rets[0].value)[:300] if rets else None)
    # section topology: from_nodes/to_nodes chains
    rb = ANF(ix, f, options={"transient": False}).run()
    FN, TN = ("k", "idx_branch.FROM_NODE"), ("k", "idx_branch.TO_NODE")
    fs = [s_ for s_ in rb.stores() if len(s_.index) == 2 and s_.index[0] == FULL and s_.index[1] == FN]
    ts_ = [s_ for s_ in rb.stores() if len(s_.index) == 2 and s_.index[0] == FULL and s_.index[1] == TN]
    ok = len(fs) == 1 and len(ts_) == 1
    if ok:
        lk = "get_lookup(net, 'node', 'index')[cls.get_connected_node_type().table_name()]"
        env = {"F0": expect(ix, f, "%s[net[cls.table_name()][cls.from_to_node_cols()[0]].values]" % lk),
               "T0": expect(ix, f, "%s[net[cls.table_name()][cls.from_to_node_cols()[1]].values]" % lk)}
        env["P"] = expect(ix, f, "np.repeat(np.arange(len(F0)), cls.get_internal_node_number(net))", env=env)
        env["I"] = expect(ix, f, "np.arange(get_lookup(net, 'node', 'from_to')[cls.internal_node_name()][0], "
                                 "get_lookup(net, 'node', 'from_to')[cls.internal_node_name()][1])")
        wf = expect(ix, f, "np.insert(F0, P + 1, I)", env=env)
        wt = expect(ix, f, "np.insert(T0, P, I)", env=env)

        def arm(v):
            return v[2] if v[0] == "ite" else v
        ok = tkey(arm(fs[0].value)) == tkey(wf) and tkey(arm(ts_[0].value)) == tkey(wt)
    run.ob("pipe|section-chain", ok,
           "sections are chained: internal node j is the to node of section j and the from node of section j+1", w,
           detail="%s / %s" % (tshow(fs[0].value)[:150], tshow(ts_[0].value)[:150]) if fs and ts_ else None)
    run.floor(13)


def _apps(p):
    from .c10 import _all_app_atoms
    return _all_app_atoms(p)


def r9_4(run):
    from .c03 import r3_4
    r3_4(run)
    ix = run.index
    a = ix.method_const(component(ix, "Sink"), "sign")
    b = ix.method_const(component(ix, "Source"), "sign")
    run.ob("source==-sink", a is not None and b is not None and a == -b, "Source.sign() == -Sink.sign()", "component_models")


def r9_5(run):
    from .c10 import r10_5
    r10_5(run)


def r9_6(run):
    ix = run.index
    n = 0
    for c in ix.components():
        if not ix.is_subclass(c, "BranchComponent"):
            continue
        f = ix.lookup_method(c, "create_pit_branch_entries")
        ki, k = hook_summary(ix, c, "create_pit_branch_entries", {"option:transient": False, "any:*": True}, partial=True)
        cols = pit_cols(ki)
        tbl = ix.method_const(c, "table_name")
        act = ix.method_const(c, "active_identifier")
        n += 1
        run.analysed(f)
        ok = "ACTIVE" in cols
        if ok:
            syms = {a[3] for gd, p in tonum(cols["ACTIVE"]).cases for a in p.symbols() if len(a) >= 4 and a[1] == "tbl" and a[2] == tbl}
            ok = syms - {"sections"} == {act}
        run.ob("%s|ACTIVE<-%s" % (c.name, act), ok,
               "the ACTIVE column of %s is its %s column (an out-of-service element takes no part in the calculation)" % (c.name, act),
               run.where(f, f.node), detail=str(cols.get("ACTIVE"))[:200])
    run.floor(10)


def r9_7(run):
    """end symmetry of the pit construction: the temperature a branch carries for its to side before any thermal
    calculation (TOUTINIT) is the initial temperature of the node stored in TO_NODE (the from side reads TINIT of FROM_NODE in
    the kernels), so swapping from/to mirrors the pair of end temperatures the fluid properties are evaluated at"""
    from ..arrnf import ANF, FULL, base_of, contains, expect, key as tkey, match, show as tshow, walk
    ix = run.index
    n = 0
    for c in ix.all_classes():
        m = c.methods.get("create_pit_branch_entries")
        if not m:
            continue
        r = ANF(ix, m, options={"transient": False}).run()
        st = r.stores()
        TO, TOUT, TIN = expect(ix, m, "TO_NODE"), expect(ix, m, "TOUTINIT"), None
        touts = [s_ for s_ in st if len(s_.index) == 2 and s_.index[1][0] == "k" and s_.index[1][1] == "idx_branch.TOUTINIT"]
        if not touts:
            continue
        run.analysed(m)
        for s_ in touts:
            root = tkey(base_of(s_.base))
            tos = [t for t in st if tkey(base_of(t.base)) == root and len(t.index) == 2 and t.index[1][0] == "k"
                   and t.index[1][1] == "idx_branch.TO_NODE" and t.index[0] == FULL]
            where = run.where(m, s_.node)
            v = s_.value
            reads = [x for x in walk(v) if x[0] == "idx" and len(x[2]) == 2 and x[2][1][0] == "k" and x[2][1][1] == "idx_node.TINIT"]
            n += 1
            key0 = "toutinit|%s|%s" % (c.name, tshow(s_.index[0])[:40])
            if not reads:
                # a prescribed outlet temperature (return / flow temperature of the element's table): not an end-node value
                run.ob(key0 + "|prescribed", not any(x[0] == "k" and x[1].startswith("idx_node.") for x in walk(v)),
                       "TOUTINIT of %s rows is a prescribed element temperature (no node value involved)" % c.name, where, detail=tshow(v)[:150])
                continue
            if not tos:
                # TO_NODE is written by a base class: the selector must be computed from the to column of from_to_node_cols()
                def ends(t):
                    out = set()
                    for x in walk(t):
                        if x[0] in ("idx", "proj") and x[1][0] == "call" and x[1][1][0] == "attr" and x[1][1][2] == "from_to_node_cols":
                            k_ = x[2][0][1] if x[0] == "idx" else x[2]
                            out.add(k_)
                    return out
                e_ = ends(reads[0][2][0]) if len(reads) == 1 else set()
                if not e_:
                    raise AnalysisError("%s.create_pit_branch_entries: cannot tell which end TOUTINIT is read from" % c.name)
                run.ob(key0 + "|temperature-of-to-node", e_ == {1} and tkey(v) == tkey(reads[0]),
                       "TOUTINIT of %s rows = TINIT of the node of the element's to column" % c.name, where,
                       detail="reads node rows %s" % tshow(reads[0][2][0])[:160])
                continue
            tov = tos[-1].value
            rows = s_.index[0]
            want_sel = tov if rows == FULL else ("idx", tov, (rows,))
            ok = len(reads) == 1 and tkey(v) == tkey(reads[0]) and tkey(reads[0][2][0]) == tkey(want_sel)
            run.ob(key0 + "|temperature-of-to-node", ok,
                   "TOUTINIT of %s rows = TINIT of the node stored in TO_NODE for the same rows" % c.name, where,
                   detail="reads node rows %s ; TO_NODE = %s" % (tshow(reads[0][2][0])[:120], tshow(want_sel)[:120]))
    run.ob("toutinit-writers-found", n >= 4, "TOUTINIT writers analysed: %d" % n, "component_models")
    run.floor(5)


def r9_8(run):
    """an out-of-service element equals its absence also for the branches that are taken out of the connectivity search and
    re-admitted afterwards (heat consumers, active flow controllers): re-admission requires the branch to be in service
    (shared with C04 R4.5)"""
    from .c04 import r4_5
    r4_5(run)


def r9_9(run):
    """several loads at one junction are one load with the sum: the grouping helper that adds them up returns every junction once
    with the sum of all its entries whatever the row order (shared with C06 R6.3: the numpy path sorts indices and values together
    before the group boundaries are taken; an unsorted pass would return a junction twice and the second `+=` would win)"""
    from .c06 import r6_3
    r6_3(run)


def r9_10(run):
    """an element that is out of service is equivalent to its absence, also where a junction's value is shared among the elements
    connected to it (the slack flow of a junction divided by the number of external grids): the multiplicity counts in-service
    elements only -- shared with C04 R4.12 (keys of every counting grouping are rows selected by the in_service flag)"""
    from .c04 import r4_12
    r4_12(run)


RULES = [("R9.1", r9_1), ("R9.2", r9_2), ("R9.3", r9_3), ("R9.4", r9_4), ("R9.5", r9_5), ("R9.6", r9_6), ("R9.7", r9_7), ("R9.8", r9_8), ("R9.9", r9_9), ("R9.10", r9_10)]


def r9_11(run):
    """out of service = absent also inside the Newton loop: the hooks that work on the reduced pit take per-element data from the pit or
    from the component array (which is reduced by the same active lookup), never from a column of the element table, whose rows still
    include the elements that are not calculated -- shared with C04 R4.8 (the i-th active pump would be evaluated with the curve of
    the i-th table row)."""
    from .c04 import r4_8
    r4_8(run)


RULES.append(("R9.11", r9_11))
