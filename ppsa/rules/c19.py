"""C19 -- fluid and standard-type libraries return what their data and documentation say (structural part).

 R19.1 integral methods: antisymmetric under limit swap, consistent with the property (derivative of the integral = value)
 R19.2 isinstance contradictions (Series-only attributes used in the non-Series arm)
 R19.3 PumpStdType.get_pressure: scalar and array arm are the same function (clamped at 0, 0 for reverse flow)
 R19.4 library data files: compressibility slope = stored derivative, monotone finite tables, all files present
 R19.5 standard-type parameters reach created pipes unchanged
 R19.6 mixture rules (thorough): 1-d and 2-d arms agree with the documented rule; fractions sum to one
"""
import ast
import math
import os

from .. import phys
from ..algebra import BExpr, GExpr, Poly, apply_fn, b_le0, compare, diff, select
from ..astutil import U, assignments, calls, callee_name, const_str, own_walk
from ..kernelir import KInterp, PyVal, Unsupported
from ..phys import check_equal, g, tonum
from ..source import AnalysisError

FL = "pandapipes.properties.fluids"
ST = "pandapipes.std_types.std_type_class"
PT = "pandapipes.properties.properties_toolbox"

EXPLANATION = (
    '(R19.1) get_at_integral_value of every fluid-property class is translated to a normal form (for each answer of its '
    'isinstance tests); swapping the two limits must negate it, and where the property value is an explicit expression '
    '(constant, linear) the derivative of the integral with respect to the upper limit must equal get_at_value. (R19.2) '
    'in the arm where isinstance(x, pd.Series) is false, x is not used through Series-only attributes. (R19.3) both arms '
    'of np.iterable(v) in PumpStdType.get_pressure reduce to select(v < 0, 0, max(0, SUM(reg_par * (3600 v)^(n-1)))). '
    '(R19.4) for every library fluid the slope in compressibility.txt equals der_compressibility.txt, tabulated x values '
    'are finite and strictly increasing, and every fluid named in _LIQUIDS/_GASES has the files call_lib opens. (R19.5) '
    'create_pipe(s) write the values of load_std_type (through retrieve_u) unless the deprecated keyword arguments '
    'override them. (R19.6, thorough) with SUM as an opaque linear operator the 1-d and 2-d arms of each '
    'calculate_mixture_* agree and equal the documented rule; the mass fraction is x M / SUM(x M). (R19.8) result buffers'
    ' of the library classes that are filled with computed values are float by construction (not *_like / asarray of the '
    "caller's argument without dtype=float). (R19.7) the assumption that interp1d interpolates linearly through the "
    "tabulated points holds for its defaults only: every call site of scipy's interp1d in the package keeps kind linear, "
    'leaves assume_sorted False (so any table order is reproduced) and passes no silent constant fill. (R19.9) the '
    'calculate_* mixture functions and the get_at_value / get_at_integral_value methods do not modify the arrays handed '
    'to them: a statement-ordered alias walk (parameter names, np.asarray / ravel / reshape / view / .values / basic '
    'slices of an alias; a name rebound to a fresh value stops being an alias) reports augmented assignments, item '
    'stores, out= arguments and in-place methods on an alias. Not decided: interpolation values (SciPy), bounds of '
    'mixture values.')
ASSUMPTIONS = ["scipy.interpolate.interp1d interpolates linearly and extrapolates linearly with fill_value='extrapolate'",
               "np.sum / sum are linear"]
TECHNIQUE = "normal forms with limit-swap substitution and symbolic differentiation; guarded comparison of sibling arms; parsing of library data files"
EXPLANATION += (' ' + '(R19.10) where a method of the property / std-type classes or a function of properties_toolbox tests its arguments with isinstance(.., pd.Series), values that may still be Series of two different arguments never meet in an arithmetic operation or comparison: each is converted (.values, np.array, to_numpy) first. Decided by a small abstract interpretation of the normal-form terms (conditional values are followed with the isinstance fact of their arm).')
EXPLANATION += (' ' + '(R19.11, shared with C12 R12.8) no memoising decorator and no changed module-level container in fluids.py, properties_toolbox.py and std_type_class.py.')

UP, LO = ("sym", "upper_limit_arg"), ("sym", "lower_limit_arg")


def _classes(ix):
    return [c for c in ix.module(FL).classes.values() if ix.is_subclass(c, "FluidProperty") and c.name != "FluidProperty"]


def _isinstance_names(fnode):
    out = []
    for n in ast.walk(fnode):
        if isinstance(n, ast.Call) and U(n.func) == "isinstance" and n.args and U(n.args[0]) not in out:
            out.append(U(n.args[0]))
    return out


def _eval_method(ix, ci, mname, consts):
    f = ci.methods[mname]
    ki = KInterp(ix, consts, {}, free_syms=True, dyn_cls=ci)
    k = ki.run(f)
    return k


def r19_1(run):
    ix = run.index
    n = 0
    for ci in _classes(ix):
        if "get_at_integral_value" not in ci.methods:
            continue
        f = ci.methods["get_at_integral_value"]
        run.analysed(f)
        w = run.where(f, f.node)
        if all(isinstance(s, (ast.Raise, ast.Expr)) for s in f.node.body):
            run.ob("%s|not-implemented-raises" % ci.name, True, "%s declares its integral as not implemented (raises)" % ci.name, w)
            continue
        # every argument may be a pandas Series or anything array-like (the case distinction may live in a helper)
        names = [p_ for p_ in f.params() if p_ not in ("self", "cls")]
        import itertools
        for vals in itertools.product((True, False), repeat=len(names)):
            consts = {"isinstance:" + nm: v for nm, v in zip(names, vals)}
            tag = ",".join("%s=%s" % (nm.split("_")[0], "Series" if v else "other") for nm, v in zip(names, vals)) or "-"
            try:
                k = _eval_method(ix, ci, "get_at_integral_value", consts)
            except Unsupported as e:
                # a shape the evaluator cannot read is no verdict on the property (it used to be reported as a violation)
                raise AnalysisError("unrecognised shape: %s.get_at_integral_value (%s): %s" % (ci.name, tag, str(e)[:160]))
            val = tonum(k.outputs[0]).plain()
            if val is None:
                raise AnalysisError("guarded integral in %s" % ci.name)
            n += 1
            swapped = val.subst({UP: Poly.atom(LO), LO: Poly.atom(UP)})
            check_equal(run, "%s|%s|antisymmetric" % (ci.name, tag), g(swapped), g(-val),
                        "integral(a, b) = -integral(b, a)", w)
            zero = val.subst({UP: Poly.atom(LO)})
            check_equal(run, "%s|%s|zero-on-equal-limits" % (ci.name, tag), g(zero), g(Poly()), "integral(a, a) = 0", w)
            # fundamental theorem where get_at_value is explicit
            if "get_at_value" in ci.methods and ci.name in ("FluidPropertyLinear", "FluidPropertyConstant"):
                vnames = _isinstance_names(ci.methods["get_at_value"].node)
                kv = None
                try:
                    kv = _eval_method(ix, ci, "get_at_value", {"isinstance:" + nm: False for nm in vnames})
                except Unsupported:
                    kv = None
                if kv is not None and kv.outputs and ci.name == "FluidPropertyLinear":
                    pv = tonum(kv.outputs[0]).plain()
                    arg = [p for p in ci.methods["get_at_value"].params() if p not in ("self",)][0]
                    pv = pv.subst({("sym", arg): Poly.atom(UP)})
                    check_equal(run, "%s|%s|d(integral)/d(upper)=value" % (ci.name, tag), g(diff(val, UP)), g(pv),
                                "the derivative of the integral wrt. its upper limit is the property value", w)
                elif ci.name == "FluidPropertyConstant":
                    check_equal(run, "%s|%s|d(integral)/d(upper)=value" % (ci.name, tag), g(diff(val, UP)), g(Poly.sym("self", "value")),
                                "the derivative of the integral wrt. its upper limit is the constant value", w)
    # polynomial property: integral getter is the antiderivative of the value getter
    pc = [c for c in _classes(ix) if c.name == "FluidPropertyPolynominal"]
    if pc:
        init = pc[0].methods["__init__"]
        src = [U(s).replace(" ", "") for s in own_walk(init.node) if isinstance(s, ast.Assign)]
        run.ob("FluidPropertyPolynominal|integral-getter-is-antiderivative", "self.prop_int_getter=np.polyint(self.prop_getter)" in src,
               "prop_int_getter = polyint(prop_getter)", run.where(init, init.node))
        f = pc[0].methods["get_at_integral_value"]
        k = _eval_method(ix, pc[0], "get_at_integral_value", {})
        val = tonum(k.outputs[0]).plain()
        swapped = val.subst({UP: Poly.atom(LO), LO: Poly.atom(UP)})
        check_equal(run, "FluidPropertyPolynominal|antisymmetric", g(swapped), g(-val), "F(upper) - F(lower) is antisymmetric", run.where(f, f.node))
    run.ob("integral-methods-analysed", n >= 7, "integral method variants analysed: %d" % n, FL)
    run.floor(12)


SERIES_ONLY = {"values", "iloc", "loc", "index", "to_numpy"}


def r19_2(run):
    ix = run.index
    n = 0
    for mi_name in (FL, ST, PT):
        for fi in list(ix.module(mi_name).functions.values()) + [m for c in ix.module(mi_name).classes.values() for m in c.methods.values()]:
            for node in ast.walk(fi.node):
                if isinstance(node, ast.If) and isinstance(node.test, ast.Call) and U(node.test.func) == "isinstance" \
                        and "Series" in U(node.test.args[1]) and isinstance(node.test.args[0], ast.Name):
                    x = node.test.args[0].id
                    n += 1
                    bad = [a for s in node.orelse for a in ast.walk(s) if isinstance(a, ast.Attribute) and a.attr in SERIES_ONLY
                           and isinstance(a.value, ast.Name) and a.value.id == x]
                    run.ob("%s|not-Series-arm|%s" % (fi.short, x), not bad,
                           "in the arm where %s is not a pandas Series it is not used through Series-only attributes" % x,
                           run.where(fi, node), detail="uses %s" % sorted({U(b) for b in bad}) if bad else None)
    # how many Series / non-Series case distinctions exist is the code's business (a helper may hold the only one): the count
    # is reported, not demanded
    run.stat("series_case_distinctions", n)
    run.ob("series-case-distinctions-scanned", True, "%d `isinstance(x, pd.Series)` case distinctions scanned in the fluid / std-type modules" % n,
           "src/pandapipes/properties")
    run.floor(1)


def r19_3(run):
    ix = run.index
    ci = ix.cls(ST + ".PumpStdType")
    f = ci.methods["get_pressure"]
    run.analysed(f)
    w = run.where(f, f.node)
    outs = {}
    pname = f.params()[1] if len(f.params()) > 1 else "vdot_m3_per_s"      # the volume-flow parameter, whatever it is called
    for it in (True, False):
        k = _eval_method(ix, ci, "get_pressure", {"iterable:" + pname: it})
        outs[it] = tonum(k.outputs[0])
    d, rows, _ = compare(outs[True], outs[False])
    run.ob("get_pressure|array==scalar", not d,
           "array and scalar queries of a pump type are the same function of the volume flow (%d guard rows)" % rows, w,
           detail=str(d[0])[:400] if d else None)
    v = Poly.sym(pname)
    n_ = [a for gd, p in outs[False].cases for a in p.atoms() if a[0] == "app" and a[1] == "max"]
    curve = None
    for gd, p in outs[False].cases:
        for a in p.atoms():
            if a[0] == "app" and a[1] == "max":
                curve = a
    ok = curve is not None
    run.ob("get_pressure|clamped-at-zero", ok, "the regression value is clamped at 0 (no negative lift)", w)
    # reverse flow -> 0
    rev = b_le0(v)
    zero_cases = [p for gd, p in outs[False].cases if all(pol for a, pol in gd if a == list(rev.atoms())[0]) and (list(rev.atoms())[0], True) in gd]
    run.ob("get_pressure|zero-for-reverse-flow", bool(zero_cases) and all(p.is_zero() for p in zero_cases),
           "reverse flow (v < 0) gives zero lift", w)
    # the polynomial: SUM(reg_par * (3600 v)^(n-1)) with n = len(reg_par) .. 1
    txt = str(outs[False])
    run.ob("get_pressure|regression-polynomial", "SUM(" in txt and ("3600*" + pname) in txt and "self.reg_par" in txt,
           "the lift is SUM(reg_par * (3600 v)^(n-1))", w, detail=txt[:300])
    from ..arrnf import ANF as _ANF2, walk as _walk2, expect as _expect2, key as _key2
    rgp = _ANF2(ix, f).run()
    wantn = _expect2(ix, f, "np.arange(len(self.reg_par), 0, -1) - 1")
    nd = any(_key2(x) == _key2(wantn) for e in rgp.events for t in ([getattr(e, "value", ())] if e.kind != "call" else [e.term]) for x in _walk2(t))
    run.ob("get_pressure|exponents", nd, "exponents run from len(reg_par)-1 down to 0", w)
    rf = ix.func(ST + ".regression_function")
    _pn = [a.arg for a in rf.node.args.args]
    _fit = [c for c in calls(rf.node) if U(c.func).endswith("polyfit")]
    run.ob("regression_function|polyfit", bool(_fit) and all(len(c.args) >= 2 and [U(a) for a in c.args[:2]] == _pn[:2] and
                                                               (U(c.args[2]) if len(c.args) > 2 else next((U(k.value) for k in c.keywords if k.arg == "deg"), None)) == _pn[2]
                                                               for c in _fit), "regression parameters are numpy.polyfit coefficients (highest power first)", run.where(rf, rf.node))
    run.floor(6)


def _load(path):
    vals = []
    with open(path) as fh:
        for ln in fh:
            ln = ln.split("#")[0].strip()
            if ln:
                vals.append([float(x) for x in ln.replace(",", " ").split()])
    return vals


def r19_4(run):
    ix = run.index
    liquids = ix.const(FL, "_LIQUIDS")
    gases = ix.const(FL, "_GASES")
    base = ix.sp.data_path("properties")
    cl = ix.func(FL + ".call_lib")
    run.analysed(cl)
    # files call_lib opens (from the source)
    opened = []
    from ..arrnf import ANF as _ANF
    rcl = _ANF(ix, cl).run()
    # entries loaded inside a `try` whose handler accepts a missing file are optional (the heating values), whatever the test
    # around them looks like
    optional_events = set()
    for t_ in rcl.tries:
        if any(any(n_ in h_["type"] for n_ in ("FileNotFoundError", "OSError", "IOError", "Exception")) for h_ in t_["handlers"]):
            optional_events.update(range(*t_["body_events"]))
    ev_pos = {id(e_): i_ for i_, e_ in enumerate(rcl.events)}
    for s_ in rcl.stores():
        if ev_pos.get(id(s_)) in optional_events:
            continue
        # <dict>[<property name>] = <local loader>(<file stem>)   (unconditional entries only: the heating values are optional)
        if len(s_.index) == 1 and s_.index[0][0] == "c" and isinstance(s_.index[0][1], str) and not s_.loops and not \
                any(c_[0] == "cmp" and ("c", "gas") in (c_[2], c_[3]) for c_, _p in s_.cond) \
                and s_.value[0] == "call":
            # (the local loader functions are substituted) <PropertyClass>.from_path(os.path.join(pp_dir, "properties", fluid, "<stem>.txt"))
            from ..arrnf import walk as _walk
            joins = [x for x in _walk(s_.value) if x[0] == "call" and x[1] == ("x", "os.path.join") and x[2]
                     and x[2][-1][0] == "c" and isinstance(x[2][-1][1], str) and x[2][-1][1].endswith(".txt")]
            kind = s_.value[1][1][1].rsplit(".", 1)[-1] if s_.value[1][0] == "attr" and s_.value[1][1][0] == "f" else "?"
            if len(joins) == 1:
                opened.append((s_.index[0][1], kind, joins[0][2][-1][1][:-4]))
    # the same entries written as one dictionary display
    from ..arrnf import walk as _walk
    for e_ in rcl.events:
        for t_ in ([e_.term] if e_.kind == "call" else [getattr(e_, "value", ())]):
            for x in _walk(t_):
                if x[0] == "dict" and not e_.loops and all(k_[0] == "c" and isinstance(k_[1], str) for k_, _ in x[1]):
                    for k_, v_ in x[1]:
                        joins = [y for y in _walk(v_) if y[0] == "call" and y[1] == ("x", "os.path.join") and y[2]
                                 and y[2][-1][0] == "c" and isinstance(y[2][-1][1], str) and y[2][-1][1].endswith(".txt")]
                        if v_[0] == "call" and len(joins) == 1:
                            kind = v_[1][1][1].rsplit(".", 1)[-1] if v_[1][0] == "attr" and v_[1][1][0] == "f" else "?"
                            ent = (k_[1], kind, joins[0][2][-1][1][:-4])
                            if ent not in opened:
                                opened.append(ent)
    run.ob("call_lib|properties-found", len(opened) >= 6, "properties opened by call_lib: %s" % opened, run.where(cl, cl.node))
    for fluid in liquids + gases:
        d = os.path.join(base, fluid)
        for prop, kind, fname in opened:
            p = os.path.join(d, fname + ".txt")
            run.ob("file|%s|%s" % (fluid, fname), os.path.isfile(p), "library file %s/%s.txt exists" % (fluid, fname), "src/pandapipes/properties/%s" % fluid)
            if not os.path.isfile(p):
                continue
            vals = _load(p)
            if kind == "FluidPropertyInterExtra":
                xs = [r[0] for r in vals]
                ok = len(xs) >= 2 and all(math.isfinite(v) for r in vals for v in r) and all(b > a for a, b in zip(xs, xs[1:]))
                run.ob("table|%s|%s|monotone-finite" % (fluid, fname), ok,
                       "tabulated x values of %s/%s are finite and strictly increasing (%d rows)" % (fluid, fname, len(xs)),
                       "src/pandapipes/properties/%s/%s.txt" % (fluid, fname))
        pc, pd_ = os.path.join(d, "compressibility.txt"), os.path.join(d, "der_compressibility.txt")
        if os.path.isfile(pc) and os.path.isfile(pd_):
            c = [v for r in _load(pc) for v in r]
            dv = [v for r in _load(pd_) for v in r]
            ok = len(c) == 2 and len(dv) == 1 and abs(c[0] - dv[0]) <= 1e-12 * max(1.0, abs(dv[0]))
            run.ob("compressibility-slope|%s" % fluid, ok,
                   "slope of the linear compressibility of %s (%s) equals the stored derivative (%s)" % (fluid, c[0] if c else None, dv[0] if dv else None),
                   "src/pandapipes/properties/%s/compressibility.txt" % fluid)
    # from_path of the linear property reads (slope, offset) in that order
    lp = ix.cls(FL + ".FluidPropertyLinear").methods["from_path"]
    rlp = _ANF(ix, lp).run()
    lt = ("call", ("x", "numpy.loadtxt"), (("n", lp.params()[1]),), ())
    okl = len(rlp.returns()) == 1 and rlp.returns()[0].value == ("call", ("n", lp.params()[0]), (("idx", lt, (("c", 0),)), ("idx", lt, (("c", 1),))), ())
    okl = okl or (len(rlp.returns()) == 1 and rlp.returns()[0].value == ("call", ("n", lp.params()[0]), (("proj", lt, 0), ("proj", lt, 1)), ()))
    run.ob("FluidPropertyLinear.from_path|order", okl,
           "compressibility.txt is read as (slope, offset)", run.where(lp, lp.node))
    # library std types
    lib = ix.sp.data_path("std_types", "library")
    pumps = sorted(os.listdir(os.path.join(lib, "Pump")))
    run.ob("pump-library", len(pumps) >= 3 and os.path.isfile(os.path.join(lib, "Pipe.csv")), "pump and pipe libraries exist (%d pump types)" % len(pumps), "src/pandapipes/std_types/library")
    run.floor(80)


def r19_5(run):
    from ..arrnf import ANF, C, contains, key as tkey, match, norm_cond, roots, show as tshow, walk
    ix = run.index
    ru = ix.func("pandapipes.component_models.component_toolbox.retrieve_u")
    ls = ix.func("pandapipes.std_types.std_types.load_std_type")
    for fname in ("create_pipe", "create_pipes"):
        f = ix.func("pandapipes.create." + fname)
        run.analysed(f)
        w = run.where(f, f.node)
        r = ANF(ix, f, strip=False, param_alias={f.params()[0]: "net"}).run()
        # the dictionary of column values that is written into the pipe table
        dicts = [x for e in r.events for t in ([e.term] if e.kind == "call" else [getattr(e, "value", ())]) for x in walk(t)
                 if x[0] == "dict" and any(k_ == C("inner_diameter_mm") for k_, _ in x[1]) and any(k_ == C("length_km") for k_, _ in x[1])]
        if not dicts:
            raise AnalysisError("%s: the dictionary of written pipe columns was not found" % fname)
        d = dict((k_[1], v_) for k_, v_ in dicts[0][1] if k_[0] == "c")
        loaded = None
        okov, nov = True, 0

        def leaves(t, conds=()):
            """(path of (condition, polarity), leaf) of a conditional value"""
            if t[0] == "ite" and len(t) == 4:
                return leaves(t[2], conds + ((t[1], True),)) + leaves(t[3], conds + ((t[1], False),))
            return [(conds, t)]
        for col in ("inner_diameter_mm", "outer_diameter_mm", "k_mm", "u_w_per_m2k"):
            v = d.get(col)
            ok = v is not None
            n_std = 0
            for conds, leaf in (leaves(v) if v is not None else []):
                m = match(("idx", ("?", "pp"), (C(col),)), leaf)
                if m is not None:
                    # a value of the (possibly updated) parameter dictionary: it must come from retrieve_u(load_std_type(net, ., 'pipe'))
                    pp = m["pp"]
                    ovs = []
                    while pp[0] in ("upd", "ite"):
                        if pp[0] == "upd":
                            ovs.append(pp)
                            pp = pp[1]
                        else:
                            # dictionary updated on one arm only: both arms are built on the same loaded parameters
                            pp = pp[3] if pp[2][0] in ("upd", "ite") and tkey(roots(pp[2])) == tkey(roots(pp[3])) else pp[2]
                    rs = [x for x in walk(pp) if x[0] == "call" and x[1] == ("f", ru.qualname)]
                    good = all(x[2] and x[2][0][0] == "call" and x[2][0][1] == ("f", ls.qualname) and x[2][0][2][0] == ("n", "net")
                               and x[2][0][2][2] == C("pipe") for x in rs)
                    base_roots = roots(m["pp"])
                    good = good and all(any(tkey(x) == rk for x in rs) or rk.startswith("('dict'") or rk.startswith("('new'")
                                        or rk.startswith("('comp', 'DictComp'") for rk in base_roots)
                    ok = ok and good
                    n_std += 1 if rs else 0      # a container filled per element (list arm) does not count as the loaded parameters
                    loaded = m["pp"]
                else:
                    # an override: only the deprecated u / k arguments, and only when they were given (not None)
                    nov += 1
                    given = False
                    for c_, pol in conds:
                        c2, p2 = norm_cond(c_, pol)
                        if c2[0] == "cmp" and c2[1] == "is not" and C(None) in (c2[2], c2[3]) and tkey(leaf) in (tkey(c2[2]), tkey(c2[3])) and p2:
                            given = True
                    okov = okov and col in ("u_w_per_m2k", "k_mm") and given
            ok = ok and n_std >= 1
            run.ob("%s|%s<-std-type" % (fname, col), ok,
                   "%s.%s is read from retrieve_u(load_std_type(net, <std type>, 'pipe'))" % (fname, col), w, detail=tshow(v)[:160] if v else None)
        run.ob("%s|loads-through-retrieve_u" % fname, loaded is not None,
               "the parameters are load_std_type(...) passed through retrieve_u", w)
        # one std type per element: the list collected for column c is filled from entry c of that type's parameters
        for e in r.stores():
            if not (e.loops and len(e.index) == 1 and e.index[0][0] == "c" and e.index[0][1] in ("inner_diameter_mm", "outer_diameter_mm", "k_mm", "u_w_per_m2k")
                    and e.value[0] == "op" and e.value[1] == "++" and e.value[3][0] == "list" and len(e.value[3][1]) == 1):
                continue
            col = e.index[0][1]
            wrong = []
            for _c, leaf in leaves(e.value[3][1][0]):
                m = match(("idx", ("?", "pp"), (("?", "k"),)), leaf)
                if m is not None and m["k"][0] == "c" and isinstance(m["k"][1], str) \
                        and any(x[0] == "call" and x[1] == ("f", ru.qualname) for x in walk(m["pp"])) and m["k"][1] != col:
                    wrong.append(m["k"][1])
            run.ob("%s|per-type-list|%s" % (fname, col), not wrong,
                   "the values collected per std type for column %s are the types' %s entries" % (col, col), run.where(f, e.node),
                   detail="filled from %s" % wrong if wrong else None)
        # overrides inside the dictionary itself (not yet read out): same discipline
        if loaded is not None:
            for x in walk(loaded):
                if x[0] == "ite" and x[2][0] == "upd" and x[2][2] and x[2][2][0][0] == "c":
                    nov += 1
                    key_, val = x[2][2][0][1], x[2][3]
                    c_, p_ = norm_cond(x[1], True)
                    given = c_[0] == "cmp" and c_[1] == "is not" and C(None) in (c_[2], c_[3]) and tkey(val) in (tkey(c_[2]), tkey(c_[3])) and p_
                    okov = okov and key_ in ("u_w_per_m2k", "k_mm") and given
                elif x[0] == "upd" and x[2] and x[2][0][0] == "c" and x[2][0][1] in ("inner_diameter_mm", "outer_diameter_mm"):
                    okov = False
        run.ob("%s|overrides-only-if-given" % fname, okov and nov >= 2,
               "std-type values are overridden only by explicitly given deprecated arguments (u, k), never the diameters", w)
    run.analysed(ru)
    rr = ANF(ix, ru, strip=False, param_alias={ru.params()[0]: "params"}).run()
    rets = rr.returns()
    cp = ("call", ("x", "copy.deepcopy"), (("n", "params"),), ())
    ok = bool(rets) and all(roots(e.value) == {tkey(cp)} for e in rets)
    conv = [x for e in rets for x in walk(e.value) if x[0] == "upd" and x[2] == (C("u_w_per_m2k"),) and x[3][0] in ("op", "opn")]
    okc = False
    for x in conv:
        t = tshow(x[3])
        okc = okc or ("'u_w_per_mk'" in t and "'outer_diameter_mm'" in t and "pi" in t and "1000" in t)
    run.ob("retrieve_u|copy-and-conversion", ok and okc,
           "retrieve_u works on a copy on every path and converts u_w_per_mk to u_w_per_m2k with the outer diameter", run.where(ru, ru.node))
    run.floor(12)


# ------------------------------------------------------------------------------------------------ mixtures
class MixEval:
    """evaluate a calculate_mixture_* arm: com_array[..., k] slots, SUM as an opaque linear operator"""

    def __init__(self, fi, params):
        self.fi = fi
        self.slots = {}
        self.env = {p: Poly.sym(p) for p in params}

    def ev(self, e):
        if isinstance(e, ast.Constant):
            return Poly.const(e.value)
        if isinstance(e, ast.Name):
            if e.id in self.env:
                return self.env[e.id]
            raise AnalysisError("unknown name %s in mixture rule" % e.id)
        if isinstance(e, ast.BinOp):
            a, b = self.ev(e.left), self.ev(e.right)
            if isinstance(e.op, ast.Add):
                return a + b
            if isinstance(e.op, ast.Sub):
                return a - b
            if isinstance(e.op, ast.Mult):
                return a * b
            if isinstance(e.op, ast.Div):
                return a / b
        if isinstance(e, ast.Subscript) and U(e.value) == "com_array":
            k = e.slice.elts[-1].value if isinstance(e.slice, ast.Tuple) else None
            return self.slots[k]
        if isinstance(e, ast.Call):
            f = callee_name(e)
            if f == "sqrt":
                return self.ev(e.args[0]).pow(0.5)
            if f == "sum" and isinstance(e.func, ast.Attribute):
                return apply_fn("SUM", [self.ev(e.func.value)])
            if f == "reshape":
                return self.ev(e.args[0])
            if f == "repeat" and isinstance(e.func, ast.Attribute):
                return self.ev(e.func.value)
        raise AnalysisError("mixture rule expression not supported: %s" % U(e))

    def run(self, stmts):
        res = None
        for s in stmts:
            if isinstance(s, ast.Assign) and isinstance(s.targets[0], ast.Subscript) and U(s.targets[0].value) == "com_array":
                k = s.targets[0].slice.elts[-1].value
                self.slots[k] = self.ev(s.value)
            elif isinstance(s, ast.Assign) and U(s.targets[0]) == "res":
                res = self.ev(s.value)
        return res


def r19_6(run):
    ix = run.index
    S = lambda p: apply_fn("SUM", [p])
    sym = Poly.sym
    specs = {
        "calculate_mixture_viscosity": lambda: S(sym("components_viscosities") * sym("components_molar_proportions") * sym("components_molar_mass").pow(0.5))
        / S(sym("components_molar_proportions") * sym("components_molar_mass").pow(0.5)),
        "calculate_mixture_density": lambda: Poly.const(1) / S(sym("components_mass_proportions") / sym("components_density")),
        "calculate_mixture_heat_capacity": lambda: S(sym("components_capacity") * sym("components_mass_proportions")),
    }
    for name, spec in specs.items():
        f = ix.func(PT + "." + name)
        run.analysed(f)
        ifs = [n for n in f.node.body if isinstance(n, ast.If)]
        if len(ifs) != 1:
            raise AnalysisError("%s: expected one 1-d/2-d split" % name)
        params = f.params()
        r1 = MixEval(f, params).run(ifs[0].body)
        r2 = MixEval(f, params).run(ifs[0].orelse)
        w = run.where(f, f.node)
        check_equal(run, "%s|1d==2d" % name, g(r1), g(r2), "the 1-d and the 2-d arm compute the same rule", w)
        check_equal(run, "%s|==rule" % name, g(r1), g(spec()), "the rule is the documented mixture rule", w)
    f = ix.func(PT + ".calculate_mixture_molar_mass")
    run.analysed(f)
    ifs = [n for n in f.node.body if isinstance(n, ast.If)]
    a = MixEval(f, f.params()).run(ifs[0].body)
    b = MixEval(f, f.params()).run(ifs[0].orelse[0].body)
    w = run.where(f, f.node)
    check_equal(run, "molar_mass|molar-form", g(a), g(S(sym("components_molar_proportions") * sym("components_molar_mass"))), "M = SUM(x M)", w)
    check_equal(run, "molar_mass|mass-form", g(b), g(Poly.const(1) / S(sym("components_mass_proportions") / sym("components_molar_mass"))), "M = 1 / SUM(w / M)", w)
    f = ix.func(PT + ".calculate_mass_fraction_from_molar_fraction")
    run.analysed(f)
    me = MixEval(f, f.params())
    me.run(f.node.body)
    ret = [n for n in ast.walk(f.node) if isinstance(n, ast.Return)][0]
    wv = me.ev(ret.value)
    x, M = sym("component_molar_proportions"), sym("component_molar_mass")
    check_equal(run, "mass_fraction|w=xM/SUM(xM)", g(wv), g(x * M / S(x * M)), "mass fraction = x M / SUM(x M) (sums to one by linearity of SUM)", run.where(f, f.node))
    run.floor(9)


def r19_7(run):
    """the assumption "interp1d interpolates linearly through the tabulated points" holds only for the defaults
    kind='linear', assume_sorted=False: every call site must keep them"""
    ix = run.index
    n = 0
    per = {}
    for fi in ix.all_functions():
        for c in calls(fi.node):
            nm = c.func.id if isinstance(c.func, ast.Name) else (c.func.attr if isinstance(c.func, ast.Attribute) else None)
            if nm != "interp1d":
                continue
            r = ix.resolve_in(fi, nm) if isinstance(c.func, ast.Name) else ("external", "scipy.interpolate.interp1d")
            if r is None or r[0] != "external" or not r[1].endswith("interp1d"):
                continue
            n += 1
            per[fi.qualname] = per.get(fi.qualname, 0) + 1
            site = "%s#%d" % (fi.short, per[fi.qualname])
            run.analysed(fi)
            kw = {k.arg: k.value for k in c.keywords if k.arg}
            w = run.where(fi, c)
            kind = kw.get("kind")
            run.ob("interp1d|%s|linear" % site, kind is None or (isinstance(kind, ast.Constant) and kind.value in ("linear", 1)) if len(c.args) < 3 else False,
                   "interp1d is used with its default linear interpolation", w)
            srt = kw.get("assume_sorted")
            run.ob("interp1d|%s|sorts-the-table" % site, srt is None or (isinstance(srt, ast.Constant) and srt.value is False),
                   "interp1d sorts the tabulated x values itself (assume_sorted is left False), so any table order is reproduced", w)
            be = kw.get("bounds_error")
            fv = kw.get("fill_value")
            run.ob("interp1d|%s|no-silent-fill" % site,
                   be is None and (fv is None or (isinstance(fv, ast.Constant) and fv.value == "extrapolate") or isinstance(fv, ast.Name)),
                   "outside the table interp1d raises or extrapolates linearly; it never fills in a constant silently", w)
    run.ob("interp1d|call-sites-found", n >= 3, "interp1d call sites in the package: %d" % n, "pandapipes")
    run.floor(8)


def r19_8(run):
    """a result buffer that is filled with values of a float formula must be float by construction: a buffer created with
    *_like(<argument>) (or np.asarray(<argument>) written into) inherits the dtype of the caller's query, and an integer-typed
    query silently truncates the regression values"""
    from ..arrnf import ANF, base_of, contains, show as tshow, walk
    ix = run.index
    n = 0
    mods = ("pandapipes.std_types.std_type_class", "pandapipes.properties.fluids", "pandapipes.properties.properties_toolbox")
    for mod in mods:
        mi = ix.module(mod)
        fns = list(mi.functions.values()) + [m for c in mi.classes.values() for m in c.methods.values()]
        for f in fns:
            r = ANF(ix, f, strip=False).run()
            params = [("n", p) for p in f.params() if p not in ("self", "cls")]
            if f.raw_node.args.vararg is not None:
                params.append(("n", f.raw_node.args.vararg.arg))
            for s_ in r.stores():
                b = base_of(s_.base)
                if b[0] == "call" and b[1][0] == "x" and b[1][1].startswith("numpy."):
                    n += 1
                    run.analysed(f)
                    like = b[1][1].endswith("_like") or b[1][1] in ("numpy.asarray", "numpy.array", "numpy.asanyarray")
                    from_arg = any(contains(a, p) for a in b[2] for p in params)
                    dt = dict(b[3]).get("dtype")
                    ok = not (like and from_arg) or (dt is not None and dt in (("x", "builtins.float"), ("x", "numpy.float64"), ("c", "float")))
                    run.ob("%s|result-buffer-is-float|%s" % (f.short, tshow(b)[:50]), ok,
                           "the array %s fills with computed values does not inherit the dtype of its argument" % f.short,
                           run.where(f, s_.node), detail=tshow(b)[:120])
            # np.full_like(<argument>, v) casts the fill value v to the dtype of the caller's query at once
            seen_ = set()
            for e in r.events:
                for t in ([e.term] if e.kind == "call" else [getattr(e, "value", None)]):
                    if t is None:
                        continue
                    for x in walk(t):
                        if x[0] == "call" and x[1] in (("x", "numpy.full"), ("x", "numpy.zeros"), ("x", "numpy.ones"), ("x", "numpy.empty")) \
                                and id(x) not in seen_:
                            # np.full(n, v, dtype=<dtype of the argument>) is the same cast spelled out
                            dt = dict(x[3]).get("dtype") or (x[2][2] if x[1][1] == "numpy.full" and len(x[2]) > 2 else
                                                              x[2][1] if x[1][1] != "numpy.full" and len(x[2]) > 1 else None)
                            if dt is None or not any(contains(dt, p) for p in params):
                                continue
                            seen_.add(id(x))
                            n += 1
                            run.analysed(f)
                            run.ob("%s|filled-buffer-is-float|%s" % (f.short, tshow(x)[:50]), False,
                                   "a buffer %s fills with a computed value does not inherit the dtype of its argument" % f.short,
                                   run.where(f, e.node), detail=tshow(x)[:120])
                        if x[0] == "call" and x[1] == ("x", "numpy.full_like") and x[2] and id(x) not in seen_:
                            seen_.add(id(x))
                            from_arg = any(contains(x[2][0], p) for p in params)
                            dt = dict(x[3]).get("dtype") or (x[2][2] if len(x[2]) > 2 else None)
                            okf = not from_arg or (dt is not None and dt in (("x", "builtins.float"), ("x", "numpy.float64"), ("c", "float")))
                            n += 1
                            run.analysed(f)
                            run.ob("%s|filled-buffer-is-float|%s" % (f.short, tshow(x)[:50]), okf,
                                   "a buffer %s fills with a computed value does not inherit the dtype of its argument" % f.short,
                                   run.where(f, e.node), detail=tshow(x)[:120])
    run.ob("result-buffers-found", n >= 1, "stores into freshly created numpy buffers in the library classes: %d" % n, "std_types / properties")
    run.floor(2)


ALIASING_CALLS = {"asarray", "asanyarray", "ascontiguousarray", "ravel", "reshape", "view", "squeeze", "atleast_1d", "transpose"}
INPLACE_METHODS = {"sort", "fill", "put", "resize", "itemset", "partition", "setfield", "byteswap"}


def r19_9(run):
    """the property functions are functions of their arguments: the mixture rules (calculate_*) and the getters of the fluid
    property classes do not modify the arrays handed to them.  `np.asarray(x)` (and ravel / reshape / view / `.values`) returns x
    itself when it already is a matching array, so an augmented assignment, an item store, an `out=` argument or an in-place
    method on such an alias changes the caller's data (the next query with the same array then answers for different inputs)."""
    ix = run.index
    targets = [f for f in ix.module(PT).functions.values() if f.name.startswith("calculate_")]
    for ci in _classes(ix):
        for mn in ("get_at_value", "get_at_integral_value"):
            if mn in ci.methods:
                targets.append(ci.methods[mn])
    n = 0
    for f in targets:
        node = f.raw_node
        a = node.args
        params = {x.arg for x in a.posonlyargs + a.args + a.kwonlyargs if x.arg not in ("self", "cls")}
        if a.vararg:
            params.add(a.vararg.arg)
        alias = set(params)

        def aliases(e):
            """expression may denote (a view of) an argument array"""
            if isinstance(e, ast.Name):
                return e.id in alias
            if isinstance(e, ast.Attribute) and e.attr in ("values", "T", "real", "flat"):
                return aliases(e.value)
            if isinstance(e, ast.Subscript):
                # basic slicing gives a view; an index taken from *args is the argument itself
                return aliases(e.value) and (isinstance(e.slice, (ast.Slice, ast.Constant)) or (isinstance(e.slice, ast.Tuple) and all(
                    isinstance(x, (ast.Slice, ast.Constant)) for x in e.slice.elts)))
            if isinstance(e, ast.Call):
                fn = e.func
                nm = fn.attr if isinstance(fn, ast.Attribute) else (fn.id if isinstance(fn, ast.Name) else "")
                if nm in ALIASING_CALLS:
                    recv = fn.value if isinstance(fn, ast.Attribute) and not (isinstance(fn.value, ast.Name) and fn.value.id in ("np", "numpy")) else None
                    cand = ([recv] if recv is not None else []) + list(e.args[:1])
                    return any(aliases(x) for x in cand)
                if nm == "array" and any(k.arg == "copy" and isinstance(k.value, ast.Constant) and k.value.value is False for k in e.keywords):
                    return bool(e.args) and aliases(e.args[0])
            if isinstance(e, ast.IfExp):
                return aliases(e.body) or aliases(e.orelse)
            return False
        bad = []

        def effects(st):
            """in-place effects of the expressions of one simple statement, under the aliases known at that point"""
            for sub in ast.walk(st):
                if isinstance(sub, ast.Call):
                    for k in sub.keywords:
                        if k.arg == "out" and aliases(k.value):
                            bad.append((sub, "out=%s" % U(k.value)))
                        if k.arg == "copy" and isinstance(k.value, ast.Constant) and k.value.value is False \
                                and callee_name(sub) in ("nan_to_num",) and sub.args and aliases(sub.args[0]):
                            bad.append((sub, "np.nan_to_num(..., copy=False)"))
                    if isinstance(sub.func, ast.Attribute) and sub.func.attr in INPLACE_METHODS and aliases(sub.func.value):
                        bad.append((sub, "in-place method .%s()" % sub.func.attr))

        def walk(stmts):
            """statement-ordered walk: a name rebound to a fresh value stops being an alias from there on; arms are joined by union"""
            nonlocal alias
            for st in stmts:
                if isinstance(st, (ast.FunctionDef, ast.AsyncFunctionDef, ast.ClassDef)):
                    continue
                if isinstance(st, ast.If):
                    effects(st.test)
                    before = set(alias)
                    walk(st.body)
                    a1 = alias
                    alias = set(before)
                    walk(st.orelse)
                    alias = a1 | alias
                elif isinstance(st, (ast.For, ast.While)):
                    effects(st.iter if isinstance(st, ast.For) else st.test)
                    for _ in range(2):
                        before = set(alias)
                        if isinstance(st, ast.For) and aliases(st.iter):
                            alias |= {x.id for x in ast.walk(st.target) if isinstance(x, ast.Name)}
                        walk(st.body)
                        alias |= before
                    walk(st.orelse)
                elif isinstance(st, ast.Try):
                    before = set(alias)
                    walk(st.body)
                    acc = set(alias) | before
                    for h in st.handlers:
                        alias = set(acc)
                        walk(h.body)
                        acc |= alias
                    alias = acc
                    walk(st.orelse)
                    walk(st.finalbody)
                elif isinstance(st, ast.With):
                    walk(st.body)
                elif isinstance(st, ast.AugAssign):
                    effects(st.value)
                    root = st.target
                    while isinstance(root, (ast.Subscript, ast.Attribute)):
                        root = root.value
                    if isinstance(root, ast.Name) and root.id in alias:
                        bad.append((st, "in-place `%s`" % U(st)[:60]))
                elif isinstance(st, (ast.Assign, ast.AnnAssign)):
                    if st.value is None:
                        continue
                    effects(st.value)
                    tg = st.targets if isinstance(st, ast.Assign) else [st.target]
                    for t in tg:
                        if isinstance(t, ast.Subscript) and aliases(t.value):
                            bad.append((st, "item store `%s`" % U(st)[:60]))
                        elif isinstance(t, ast.Name):
                            if aliases(st.value):
                                alias.add(t.id)
                            else:
                                alias.discard(t.id)
                        elif isinstance(t, (ast.Tuple, ast.List)):
                            src = st.value.elts if isinstance(st.value, (ast.Tuple, ast.List)) and len(st.value.elts) == len(t.elts) else None
                            for i, x in enumerate(t.elts):
                                if isinstance(x, ast.Name):
                                    if (aliases(src[i]) if src else aliases(st.value)):
                                        alias.add(x.id)
                                    else:
                                        alias.discard(x.id)
                else:
                    effects(st)
        walk(node.body)
        n += 1
        run.analysed(f)
        run.ob("%s|arguments-not-modified" % f.short, not bad,
               "%s does not modify the arrays it is called with" % f.short, run.where(f, bad[0][0]) if bad else run.where(f, f.node),
               detail="; ".join(b for _, b in bad[:3]) if bad else None)
    run.stat("property_functions_checked_for_argument_purity", n)
    run.floor(8)



SERIES_TYPES = (("x", "pandas.Series"), ("x", "pandas.core.series.Series"))
TO_ARRAY_CALLS = ("numpy.array", "numpy.asarray", "numpy.asanyarray", "numpy.ascontiguousarray", "numpy.float64", "builtins.float",
                  "builtins.list", "builtins.tuple", "numpy.atleast_1d")
TO_ARRAY_ATTRS = ("values", "to_numpy", "array", "tolist", "to_list", "item", "size", "shape", "dtype", "index")


def series_mixing(ix, f):
    """(parameters the function tests with isinstance(.., pd.Series), [(node, term, roots)] binary operations whose operands may
    still be pandas Series of two *different* parameters).  pandas aligns such an operation by index label, not by position."""
    from ..arrnf import ANF, key as tkey, norm_cond, walk
    r = ANF(ix, f, strip=False).run()
    allt = []
    for e in r.events:
        for t in (getattr(e, "term", None), getattr(e, "value", None)):
            if isinstance(t, tuple):
                allt.append((e, t))
        for c, _p in e.cond:
            if isinstance(c, tuple):
                allt.append((e, c))
    params = set(f.params())
    sp = set()

    def is_test(x):
        return x[0] == "call" and x[1] == ("x", "builtins.isinstance") and len(x[2]) == 2 and (
            x[2][1] in SERIES_TYPES or (x[2][1][0] == "tuple" and any(y in SERIES_TYPES for y in x[2][1][1])))
    for _e, t in allt:
        for x in walk(t):
            if isinstance(x, tuple) and x and is_test(x) and x[2][0][0] == "n" and x[2][0][1] in params:
                sp.add(x[2][0][1])
    bad = []
    seen = set()

    def roots(t, facts, e):
        if not isinstance(t, tuple) or not t:
            return frozenset()
        h = t[0]
        if h == "n":
            if t[1] in sp and facts.get(tkey(("call", ("x", "builtins.isinstance"), (t, SERIES_TYPES[0]), ()))) is not False:
                return frozenset([t[1]])
            return frozenset()
        if h == "ite" and len(t) == 4:
            c, pol = norm_cond(t[1], True)
            fa, fb = dict(facts), dict(facts)
            fa[tkey(c)], fb[tkey(c)] = pol, not pol
            return roots(t[2], fa, e) | roots(t[3], fb, e)
        if h == "attr":
            return frozenset() if t[2] in TO_ARRAY_ATTRS else roots(t[1], facts, e)
        if h == "upd":
            return roots(t[1], facts, e)
        if h == "idx":
            return roots(t[1], facts, e)
        if h == "call":
            fn = t[1]
            if fn[0] == "x" and fn[1] in TO_ARRAY_CALLS:
                return frozenset()
            if fn[0] == "attr":
                return frozenset() if fn[2] in TO_ARRAY_ATTRS else roots(fn[1], facts, e)
            if fn[0] == "x" and fn[1].startswith("numpy."):
                rs = [roots(a, facts, e) for a in t[2]]
                return combine(t, rs, e)
            return frozenset()
        if h in ("opn", "op", "cmp"):
            ops = t[2] if h == "opn" else t[2:4]
            rs = [roots(a, facts, e) for a in ops]
            return combine(t, rs, e)
        if h == "u":
            return roots(t[2], facts, e)
        return frozenset()

    def combine(t, rs, e):
        u = frozenset().union(*rs) if rs else frozenset()
        nonempty = [x for x in rs if x]
        if len(nonempty) >= 2 and len(u) >= 2 and tkey(t) not in seen:
            seen.add(tkey(t))
            bad.append((e.node, t, sorted(u)))
        return u
    for e, t in allt:
        facts = {}
        for c, p_ in e.cond:
            c2, p2 = norm_cond(c, p_)
            facts[tkey(c2)] = p2
        roots(t, facts, e)
    return sp, bad


def r19_10(run):
    """the property functions answer element by element: the i-th result belongs to the i-th query value.  Where a method accepts
    pandas Series (it tests its arguments with isinstance(.., pd.Series)), values that may still be Series of two different
    arguments never meet in an arithmetic operation or comparison -- pandas would pair them by index label (wrong pairs for
    permuted labels, NaN and a longer result for disjoint ones); every such argument is turned into an array (.values, np.array,
    to_numpy) before it is combined with another one."""
    from ..arrnf import show as tshow
    ix = run.index
    funcs = []
    for ci in _classes(ix) + [c for c in ix.module(ST).classes.values()]:
        funcs.extend(m for m in ci.methods.values() if not m.name.startswith("__"))
    funcs.extend(ix.module(PT).functions.values())
    n = 0
    for f in funcs:
        try:
            sp, bad = series_mixing(ix, f)
        except AnalysisError:
            continue
        if not sp:
            continue
        n += 1
        run.analysed(f)
        run.ob("%s|series-arguments-combined-by-position" % f.short, not bad,
               "%s takes pandas Series for %s; values of different arguments meet only as arrays" % (f.short, ", ".join(sorted(sp))),
               run.where(f, bad[0][0] if bad else f.node),
               detail="; ".join("%s mixes Series of %s" % (tshow(t)[:80], "/".join(u)) for _n, t, u in bad[:2]) if bad else None)
    run.stat("functions_testing_for_series_arguments", n)
    run.floor(3)


RULES = [("R19.8", r19_8), ("R19.7", r19_7), ("R19.1", r19_1), ("R19.2", r19_2), ("R19.3", r19_3), ("R19.4", r19_4), ("R19.5", r19_5), ("R19.9", r19_9), ("R19.10", r19_10)]
THOROUGH = [("R19.6", r19_6)]


def r19_11(run):
    """a library fluid is what its data files say, every time it is loaded: the loaders, the property classes and the std-type
    classes keep no state between calls (no memoising decorator, no module-level container that is changed).  A cached property
    *object* is shared by every net that loads the fluid, so a change made for one net (or one in-place tuned value) shows up in all
    later loads -- shared with C12 R12.8."""
    from .c12 import r12_8
    r12_8(run)


RULES.append(("R19.11", r19_11))
