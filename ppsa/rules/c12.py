"""C12 -- pipeflow is a pure, repeatable function of the network description (structural part).

 R12.1 no in-place write to user tables / fluid / std types / stored options reachable from pipeflow
 R12.2 every internal net key is (re)built before it is read in one pipeflow invocation
 R12.3 every row range of the (np.empty) pit is fully initialised before its columns are written
 R12.4 no source of nondeterminism is reachable from pipeflow
 R12.5 option layers are deep-copied (shared with C14 R14.2)
"""
import ast

from .. import phys
from ..astutil import U, assignments, calls, callee_name, const_str, own_walk
from ..callgraph import CallGraph
from ..effects import FunctionEffects, mutation_summaries, net_key
from ..kernelir import PyVal, Unsupported
from ..phys import hook_summary
from ..source import AnalysisError

P = "pandapipes.pipeflow"
PS = "pandapipes.pf.pipeflow_setup"

EXPLANATION = (
    '(R12.1) all functions reachable from pandapipes.pipeflow in the resolved call graph (component hooks dispatched to '
    'every concrete class) are analysed with an alias/taint analysis: values that may share memory with user data '
    '(net[<table>] and its column/.values/basic-slice views, net.fluid / get_fluid(net), net.std_types, '
    'net.user_pf_options, also when read through net.get(<key>)) are tracked through assignments; copying operations '
    '(arithmetic, np.array, .copy(), .astype, boolean/fancy indexing, np.repeat, nan_to_num without copy=False) clear the'
    ' alias; sinks are subscript/attribute stores, augmented assignments, in-place methods, numpy out=/copy=False, '
    "inplace=True and calls whose callee's bottom-up mutation summary writes the corresponding parameter. Independently "
    'every component hook is summarised by forward substitution and in-place stores into arrays aliasing a user column '
    'are reported. One named exception: key hyd_flag written through set_user_pf_options (the documented mechanism of '
    "mode='heat'). (R12.2) scanning pipeflow's statements and callees in source order (transient arms constant-propagated"
    " off), the first access of every internal key net['_...'] is a write. (R12.3) each concrete component's "
    'create_pit_*_entries executes the full-slice initialisation pit[:, :] = row template before any column write of its '
    'rows. (R12.4) no call into random/time/uuid/secrets/os.urandom and no iteration over a set is reachable from '
    'pipeflow (a positive fixture proves the detector). (R12.5, shared with C07 R7.3) hydraulics() and bidirectional() '
    "start from an empty net['_internal_data'] whenever reuse_internal_data is off and remove it at the end unless it is "
    'on, so the cached matrix structure of an earlier call never reaches a later one. (R12.6) the get_* methods of Fluid '
    'and of the FluidProperty classes are pure: no store to an attribute or item of self or of an argument, no '
    "global/nonlocal, no call of a mutating method on self's containers (a cached value would survive a replaced "
    'property). (R12.7, shared with C05 R5.8 / C06 R6.9) every calculation rebinds every result table; a kept table that '
    'is reset in place depends on how the frame is stored and so on the history of the net. Not decided: bit-identity of '
    "two runs; equality of mode='heat' continuation with 'sequential'.")
ASSUMPTIONS = ["pandas .values / column access may return views (treated as aliases)", "boolean and integer-array indexing copy",
               "transient=False", "components registered at run time by user code are outside the tree"]
TECHNIQUE = "call-graph reachability, alias/taint analysis with bottom-up mutation summaries, source-order first-access scan, per-class hook summaries"
EXPLANATION += (' ' + '(R12.8) no function reachable from pipeflow and no method of the fluid, fluid-property and std-type classes is decorated with a memoising decorator (lru_cache, cache, cached_property) or changes a module-level container / rebinds a global: a result must not depend on what was calculated before.')
EXPLANATION += (' ' + "(R12.9, shared with C10 R10.9) mode 'heat' writes the whole stored hydraulic solution, NaN entries included, into PINIT / MDOTINIT, so the thermal-only run reports what the sequential run reports.")

USER_ATTRS_SKIP = {"converged", "get", "keys", "items", "update", "pop", "values", "copy", "name", "sector"}


def is_user_source(expr):
    if isinstance(expr, ast.Subscript) and isinstance(expr.value, ast.Name) and expr.value.id == "net":
        k = const_str(expr.slice)
        if k is not None:
            if k.startswith("_") or k.startswith("res_") or k in ("converged", "component_list"):
                return None
            return "USER:net[%r]" % k
        s = U(expr.slice)
        if s.startswith("'res_") or s.startswith('"res_') or s.startswith("res_") or "res_" in s.split("+")[0]:
            return None
        if "_lookups" in s or "_pit" in s:
            return None
        return "USER:net[%s]" % s
    if isinstance(expr, ast.Attribute) and isinstance(expr.value, ast.Name) and expr.value.id == "net":
        a = expr.attr
        if a.startswith("_") or a.startswith("res_") or a in USER_ATTRS_SKIP or a == "component_list":
            return None
        return "USER:net.%s" % a
    if isinstance(expr, ast.Call) and callee_name(expr) == "get_fluid":
        return "USER:fluid"
    if isinstance(expr, ast.Call) and isinstance(expr.func, ast.Attribute) and expr.func.attr in ("get", "setdefault") \
            and isinstance(expr.func.value, ast.Name) and expr.func.value.id == "net" and expr.args:
        k = const_str(expr.args[0])
        if k is not None and not (k.startswith("_") or k.startswith("res_") or k in ("converged", "component_list")):
            return "USER:net[%r]" % k
    return None


def r12_1(run):
    ix = run.index
    cg = CallGraph(ix)
    pf = ix.func(P + ".pipeflow")
    reach = cg.reachable([pf])
    funcs = [f for f in reach.values() if f.module.startswith("pandapipes")]
    run.stat("functions_reachable_from_pipeflow", len(funcs))
    for f in funcs:
        run.analysed(f)
    eff, summ = mutation_summaries(ix, cg, funcs, is_user_source)
    run.stat("functions_with_parameter_mutation", len([q for q, s in summ.items() if s]))
    n_sinks = 0
    for f in funcs:
        e = eff[f.qualname]
        if f.name == "set_user_pf_options":
            continue      # the named exception: its callers are checked to pass only hyd_flag (below)
        # direct in-place operations on user data
        for roots, node, how in e.direct_mutations():
            n_sinks += 1
            user = sorted(r for r in roots if r.startswith("USER:"))
            if user:
                run.ob("%s|%s" % (f.short, how), False,
                       "no in-place operation on user data (%s) while pipeflow runs" % ", ".join(user), run.where(f, node),
                       detail="%s; aliases %s" % (U(node).split("\n")[0][:120], user))
        # user data handed to a callee that mutates that parameter
        for n in own_walk(f.node):
            if not isinstance(n, ast.Call):
                continue
            for g in cg.call_targets(f, n):
                ms = summ.get(g.qualname)
                if not ms:
                    continue
                gp = g.params()
                skip = 1 if (g.cls is not None and gp and gp[0] in ("cls", "self")) else 0
                pairs = []
                for i, a in enumerate(n.args):
                    if isinstance(a, ast.Starred):
                        if g.node.args.vararg is not None:
                            pairs.append((g.node.args.vararg.arg, a.value))
                        continue
                    if i + skip < len(gp):
                        pairs.append((gp[i + skip], a))
                    elif g.node.args.vararg is not None:
                        pairs.append((g.node.args.vararg.arg, a))
                for k in n.keywords:
                    if k.arg:
                        pairs.append((k.arg, k.value))
                for pname, a in pairs:
                    if pname in ms:
                        n_sinks += 1
                        user = sorted(r for r in e.roots(a) if r.startswith("USER:"))
                        if g.name == "set_user_pf_options":
                            continue
                        if user:
                            run.ob("%s|passes-user-data-to|%s(%s)" % (f.short, g.short, pname), False,
                                   "user data (%s) is not passed to a callee that mutates it" % ", ".join(user), run.where(f, n),
                                   detail=U(n)[:120])
        # stores of non-internal keys on net itself
        for n in own_walk(f.node):
            tg = n.targets if isinstance(n, ast.Assign) else ([n.target] if isinstance(n, ast.AugAssign) else [])
            for t in tg:
                src = is_user_source(t)
                if src:
                    n_sinks += 1
                    s = U(t)
                    ok = "res_" in s or "controller" in s
                    run.ob("%s|rebinds|%s" % (f.short, s[:50]), ok,
                           "pipeflow does not rebind a user entry of the net", run.where(f, n))
    run.stat("mutation_sites_examined", n_sinks)
    run.ob("user-data-taint|sites-examined", n_sinks >= 150,
           "in-place operations and mutating calls reachable from pipeflow were examined (%d sites)" % n_sinks, "src/pandapipes")
    # the hyd_flag exception is really the only user-option write
    writers = []
    for f in funcs:
        for c in calls(f.node, "set_user_pf_options"):
            kws = sorted(k.arg for k in c.keywords if k.arg and k.arg != "reset")
            # the second parameter (`reset`, positional or by keyword) empties the stored options: it must be absent or literally False
            resets = [a for a in c.args[1:2]] + [k.value for k in c.keywords if k.arg == "reset"]
            no_reset = all(isinstance(a, ast.Constant) and a.value is False for a in resets)
            spread = any(k.arg is None for k in c.keywords) or len(c.args) > 2 or any(isinstance(a, ast.Starred) for a in c.args)
            writers.append((f.short, kws))
            run.ob("%s|set_user_pf_options(%s)" % (f.short, ",".join(kws)), kws == ["hyd_flag"] and no_reset and not spread,
                   "the only stored user option pipeflow writes is hyd_flag, and it never resets the stored options", run.where(f, c),
                   detail=None if no_reset else "reset=%s" % U(resets[0]))
    # hook summaries: stores into arrays aliasing user columns
    n_h = 0
    from .c06 import HOOKS
    for c in ix.components():
        for h in HOOKS:
            f = ix.lookup_method(c, h)
            if f is None or f.cls.name == "Component":
                continue
            args = {"mode": PyVal("sequential"), "options": PyVal({"calc_compression_power": PyVal(True)})} if h == "extract_results" else None
            try:
                ki, k = hook_summary(ix, c, h, {"option:transient": False, "option:use_numba": False, "fluid.is_gas": False, "any:*": True},
                                     args, partial=True, soft=True)
            except Unsupported:
                continue
            n_h += 1
            for w in ki.user_data_writes:
                run.ob("hook|%s|%s" % (w["fi"].short, w["target"][:50]), False,
                       "component hooks do not store into arrays that alias a user column (%s)" % w["alias_of"],
                       run.where(w["fi"], w["node"]))
    run.ob("hook-summaries|analysed", n_h >= 40, "component hooks summarised for user-data stores (%d)" % n_h, "component_models")
    run.floor(4)


def _transient_const(test):
    """value of a test under transient=False, or None"""
    s = U(test).replace(" ", "").replace('"', "'")
    if s.startswith("notget_net_option(net,'transient')or"):
        return True
    if s.startswith("get_net_option(net,'transient')and"):
        return False
    if s == "get_net_option(net,'transient')":
        return False
    if s == "notget_net_option(net,'transient')":
        return True
    return None


def first_access(ix, cg, fi, key, memo, stack=()):
    """'W' / 'R' / None: the first access of net[key] when `fi` runs (source order, transient arms off)"""
    mk = (fi.qualname, key)
    if mk in memo:
        return memo[mk]
    if fi.qualname in stack:
        return None
    memo[mk] = None

    _ift = []

    def if_truth():
        if not _ift:
            try:
                from ..arrnf import ANF as _ANF
                _ift.append(getattr(_ANF(ix, fi, options={"transient": False}).run(), "if_truth", {}))
            except Exception:       # noqa  (statement forms outside the term language: no propagation, the scan stays conservative)
                _ift.append({})
        return _ift[0]

    def scan(stmts):
        for st in stmts:
            r = scan_stmt(st)
            if r:
                return r
        return None

    def scan_expr(e, store_targets=()):
        # evaluation order approximation: sub-expressions left to right, calls after their arguments
        for n in _ordered(e):
            if net_key(n) == key and n not in store_targets:
                if isinstance(n.ctx, ast.Load):
                    return ("R", n)
            if isinstance(n, ast.Compare) and any(isinstance(o, (ast.In, ast.NotIn)) for o in n.ops) \
                    and const_str(n.left) == key and U(n.comparators[0]) == "net":
                continue    # `"_x" not in net` is a presence test, not a read of the value
            if isinstance(n, ast.Call) and isinstance(n.func, ast.Name) and n.func.id in fi.params():
                # call through a function-valued parameter: every function bound to it at a call site of `fi`
                for caller in ix.module(fi.module).functions.values():
                    for cs in calls(caller.node, fi.name):
                        from ..astutil import bind_args
                        b_ = bind_args(fi, cs).get(n.func.id)
                        if isinstance(b_, ast.Name):
                            rr = ix.resolve_in(caller, b_.id)
                            if rr and rr[0] == "func":
                                r = first_access(ix, cg, rr[1], key, memo, stack + (fi.qualname,))
                                if r:
                                    return (r, n)
                continue
            if isinstance(n, ast.Call):
                for g in cg.call_targets(fi, n):
                    r = first_access(ix, cg, g, key, memo, stack + (fi.qualname,))
                    if r:
                        return (r, n)
                if callee_name(n) in ("pop",) and U(n.func.value) == "net" and n.args and const_str(n.args[0]) == key:
                    return ("W", n)
        return None

    def scan_stmt(st):
        if isinstance(st, (ast.FunctionDef, ast.ClassDef)):
            return None
        if isinstance(st, ast.If):
            r = scan_expr(st.test)
            if r:
                return r[0]
            c = _transient_const(st.test)
            if c is None:
                c = if_truth().get(id(st))       # constant propagation through locals and helpers (transient=False)
            if c is True:
                return scan(st.body)
            if c is False:
                return scan(st.orelse)
            a, b = scan(st.body), scan(st.orelse)
            if st.body and isinstance(st.body[-1], ast.Raise):
                return b if a is None else a
            if st.orelse and isinstance(st.orelse[-1], ast.Raise):
                return a if b is None else b
            # a write in only one arm does not protect a later read
            if a == "R" or b == "R":
                return "R"
            if a == "W" and b == "W":
                return "W"
            return None
        if isinstance(st, (ast.For, ast.While)):
            r = scan_expr(st.iter if isinstance(st, ast.For) else st.test)
            if r:
                return r[0]
            return scan(st.body)
        if isinstance(st, ast.Try):
            return scan(st.body)
        if isinstance(st, ast.With):
            return scan(st.body)
        if isinstance(st, ast.Assign):
            r = scan_expr(st.value)
            if r:
                return r[0]
            for t in st.targets:
                if net_key(t) == key:
                    return "W"
                r = scan_expr(t, store_targets=(t,))
                if r:
                    return r[0]
            return None
        if isinstance(st, ast.AugAssign):
            if net_key(st.target) == key:
                return "R"
            r = scan_expr(st.value) or scan_expr(st.target)
            return r[0] if r else None
        if isinstance(st, (ast.Expr, ast.Return)):
            if st.value is None:
                return None
            r = scan_expr(st.value)
            return r[0] if r else None
        if isinstance(st, ast.Raise):
            return None
        return None
    res = scan(fi.node.body)
    memo[mk] = res
    return res


def _ordered(e):
    """sub-expressions in (approximate) evaluation order: children before parents"""
    out = []

    def rec(n):
        for c in ast.iter_child_nodes(n):
            if isinstance(c, (ast.Lambda, ast.FunctionDef)):
                continue
            rec(c)
        out.append(n)
    rec(e)
    return out


INTERNAL_KEYS = ("_options", "_lookups", "_pit", "_active_pit", "_old_pit", "_active_old_pit", "_internal_results")


def r12_2(run):
    ix = run.index
    cg = CallGraph(ix)
    pf = ix.func(P + ".pipeflow")
    memo = {}
    reach = list(cg.reachable([pf]).values())
    for key in INTERNAL_KEYS:
        r = first_access(ix, cg, pf, key, memo)
        writers = [f.short for f in reach for n in ast.walk(f.node) if isinstance(n, ast.Assign) and any(net_key(t) == key for t in n.targets)]
        run.ob("first-access|%s" % key, r != "R" and bool(writers),
               "within one pipeflow call no read of net[%r] precedes its (re)construction (written by %s)" % (key, sorted(set(writers))),
               run.where(pf, pf.node), detail="first access in source order: %s" % r)
    # _internal_data: created empty unless reuse was requested (decided under C07 R7.3); here: never read before the stage functions
    r = first_access(ix, cg, ix.func(PS + ".init_options"), "_internal_data", memo)
    run.ob("first-access|_internal_data|not-touched-by-setup", r is None,
           "the option/lookup/pit set-up does not touch the cached internal data", run.where(pf, pf.node))
    # net.converged is reset before the stages
    from ..arrnf import ANF as _ANF
    rpf = _ANF(ix, pf, param_alias={pf.params()[0]: "net"}).run()
    resets = [e for e in rpf.stores() if e.base == ("n", "net") and e.index == (("c", "converged"),) and e.value == ("c", False) and not e.cond]
    stages = [c for c in rpf.calls() if c.fn[0] == "f" and c.fn[1].rsplit(".", 1)[-1] in ("hydraulics", "heat_transfer", "bidirectional")]
    run.ob("converged-reset-before-stages", bool(resets) and len(stages) >= 3 and min(e.seq for e in resets) < min(c.seq for c in stages),
           "net.converged is reset (unconditionally) before any stage runs", run.where(pf, pf.node))
    run.floor(8)


def r12_3(run):
    ix = run.index
    cep = ix.func(PS + ".create_empty_pit")
    run.analysed(cep)
    uninit = [c for c in calls(cep.node) if callee_name(c) == "empty"]
    run.ob("pit-is-uninitialised-memory", len(uninit) == 2,
           "the pit arrays are allocated with np.empty (so every row must be initialised by its component)", run.where(cep, cep.node))
    n = 0
    for c in ix.components():
        for h, pit in (("create_pit_branch_entries", "branch_pit"), ("create_pit_node_entries", "node_pit")):
            f = ix.lookup_method(c, h)
            if f is None or f.cls.name == "Component":
                continue
            owns_rows = (pit == "branch_pit" and ix.is_subclass(c, "BranchComponent")) or \
                        (pit == "node_pit" and (c.name == "Junction" or ix.is_subclass(c, "BranchWInternalsComponent")))
            if not owns_rows:
                continue
            # forward substitution of the hook for this class (super() chain and extracted helpers resolved): the full-row
            # template `pit[:, :] = <row>` must be executed before any column of the own rows is written
            n += 1
            why = None
            try:
                ki, k = hook_summary(ix, c, h, {"option:transient": False, "any:*": True}, partial=True)
            except (Unsupported, AnalysisError) as ex:
                raise AnalysisError("unrecognised shape: %s.%s cannot be summarised: %s" % (c.name, h, ex))
            tmpl = ki.pit_fullinit.get(pit)
            ok = tmpl is not None
            if not ok:
                why = "no full-row template store into %s" % pit
            else:
                early = [k_ for k_ in ki.pit_early_writes if k_[0] == pit]
                if early:
                    ok, why = False, "column %s is written before the template" % early[0][3]
                # (the width of the template is not examined: numpy broadcasts the value over all columns of the rows or raises)
            run.ob("%s.%s|rows-initialised-first" % (c.name, h), ok,
                   "the rows of %s in the %s are set to a full row template before any of their columns is written" % (c.name, pit),
                   run.where(f, f.node), detail=why)
    run.floor(14)


NONDET = {"random", "time", "uuid", "secrets", "datetime"}


def nondeterminism_sites(ix, funcs):
    out = []
    for f in funcs:
        mi = ix.module(f.module) if ix.has_module(f.module) else None
        for n in ast.walk(f.node):
            if isinstance(n, ast.Call):
                d = U(n.func)
                root = d.split(".")[0]
                tail = d.split(".")[-1]
                if root in NONDET or d in ("os.urandom", "np.random", "numpy.random") or d.startswith("np.random.") or d.startswith("numpy.random."):
                    out.append((f, n, "call of %s" % d))
                elif mi is not None and isinstance(n.func, ast.Name):
                    imp = mi.imports.get(n.func.id)
                    if imp and imp[1].split(".")[0] in NONDET:
                        out.append((f, n, "call of %s.%s" % (imp[1], n.func.id)))
            if isinstance(n, (ast.For, ast.comprehension)):
                it = n.iter
                # a local name bound once to a set is that set
                if isinstance(it, ast.Name):
                    asg = assignments(f.node, it.id)
                    if len(asg) == 1 and asg[0][2] is None:
                        it = asg[0][1]
                is_set = (isinstance(it, ast.Call) and U(it.func) in ("set", "frozenset")) or isinstance(it, (ast.Set, ast.SetComp))
                if is_set and not (isinstance(n, ast.For) and _order_insensitive(n)):
                    out.append((f, n.iter, "iteration over a set" + (" display" if isinstance(it, ast.Set) else "")))
    return out


COMMUTING = {"pop", "discard", "add", "remove"}


def _order_insensitive(loop):
    """the order of the passes cannot be observed: every statement of the body removes / adds the loop's own element from / to a
    container (d.pop(k, None), s.discard(k), s.add(k), del d[k]) and nothing else"""
    names = {x.id for x in ast.walk(loop.target) if isinstance(x, ast.Name)}
    if loop.orelse:
        return False
    for st in loop.body:
        if isinstance(st, ast.Expr) and isinstance(st.value, ast.Call) and isinstance(st.value.func, ast.Attribute) \
                and st.value.func.attr in COMMUTING and isinstance(st.value.func.value, ast.Name) and st.value.func.value.id not in names \
                and st.value.args and isinstance(st.value.args[0], ast.Name) and st.value.args[0].id in names \
                and all(isinstance(a, ast.Constant) for a in st.value.args[1:]) and not st.value.keywords:
            continue
        if isinstance(st, ast.Delete) and all(isinstance(t, ast.Subscript) and isinstance(t.value, ast.Name) and t.value.id not in names
                                              and isinstance(t.slice, ast.Name) and t.slice.id in names for t in st.targets):
            continue
        return False
    return True


def r12_4(run):
    ix = run.index
    cg = CallGraph(ix)
    pf = ix.func(P + ".pipeflow")
    funcs = list(cg.reachable([pf]).values())
    sites = nondeterminism_sites(ix, funcs)
    for f, n, what in sites:
        run.ob("%s|%s" % (f.short, what), False, "no source of nondeterminism is reachable from pipeflow", run.where(f, n))
    if len(funcs) < 60:
        raise AnalysisError("only %d functions reachable from pipeflow" % len(funcs))
    run.ob("reachable-functions-scanned", not sites,
           "%d functions reachable from pipeflow contain no call into random/time/uuid/secrets and no set iteration" % len(funcs),
           run.where(pf, pf.node))
    # positive fixture: the detector fires on a tiny example
    import os
    from ..index import FunctionInfo
    src = open(os.path.join(os.path.dirname(os.path.dirname(os.path.abspath(__file__))), "fixtures", "nondeterminism.py")).read()
    tree = ast.parse(src)
    fx = [FunctionInfo("ppsa_fixture", n.name, n) for n in tree.body if isinstance(n, ast.FunctionDef)]
    hits = nondeterminism_sites(ix, fx)
    run.ob("fixture|detector-fires", len(hits) >= 3, "the nondeterminism detector reports the fixture's %d constructs" % len(hits),
           "verif:ppsa/fixtures/nondeterminism.py")
    run.floor(2)


def r12_5(run):
    from .c14 import r14_1
    r14_1(run)
    run.obs = [o for o in run.obs if o["rule"] != "R14.2" or True]


def r12_5(run):
    """history independence of the cached matrix structure: whatever an earlier call left in net['_internal_data'], a call
    without reuse_internal_data starts from an empty entry (shared with C07 R7.3)"""
    from .c07 import internal_data_lifecycle
    internal_data_lifecycle(run)
    run.floor(4)


def r12_6(run):
    """the fluid is part of the user's network description and is read by every calculation: its query methods (get_*, the
    property getters of the FluidProperty classes) are pure -- they neither store into `self` (attributes, all_properties) nor
    call a method that does (add_property).  A value cached on the fluid during a run changes the network description and makes
    later runs depend on earlier ones."""
    from ..arrnf import ANF, base_of, walk
    ix = run.index
    FL = "pandapipes.properties.fluids"
    mi = ix.module(FL)
    n = 0
    MUT = {"add_property", "update", "pop", "clear", "setdefault", "append", "extend", "__setitem__", "popitem", "insert", "remove"}
    for ci in mi.classes.values():
        if not (ci.name == "Fluid" or ci.name.startswith("FluidProperty")):
            continue
        for mname, m in ci.methods.items():
            if not (mname.startswith("get_") or mname in ("is_gas", "is_liquid")):
                continue
            ps = m.params()
            if not ps or ps[0] != "self":
                continue
            try:
                r = ANF(ix, m).run()
            except AnalysisError:
                continue
            n += 1
            run.analysed(m)

            def rooted_at_self(t):
                t = base_of(t)
                while isinstance(t, tuple) and t and t[0] in ("attr", "idx", "upd"):
                    t = t[1]
                return t == ("n", "self")
            bad = []
            for e in r.events:
                if e.kind == "store" and rooted_at_self(e.base):
                    bad.append("store into %s" % e.index[0][1] if e.index and e.index[0][0] == "c" else "store into self")
                elif e.kind == "call" and e.fn[0] == "attr" and e.fn[2] in MUT and rooted_at_self(e.fn[1]):
                    bad.append("call of %s on the fluid" % e.fn[2])
            run.ob("%s.%s|pure" % (ci.name, mname), not bad,
                   "query method %s.%s does not modify the fluid object" % (ci.name, mname), run.where(m, m.node),
                   detail="; ".join(sorted(set(bad))) if bad else None)
    run.stat("fluid_query_methods_checked", n)
    run.floor(15)


def r12_7(run):
    """a calculation starts from fresh result tables: init_results_element rebinds every result table on every path (shared with
    C05 R5.8 / C06 R6.9); a table kept from an earlier run and reset in place depends on how that frame is stored (a frame with one
    block per column, as restored from a pickle, is not reset through `.values`) and so on what was calculated before"""
    from .c05 import r5_8
    r5_8(run)


MEMO_DECORATORS = {"lru_cache", "cache", "cached_property", "functools.lru_cache", "functools.cache", "functools.cached_property"}
STATE_MUTATORS = {"add", "append", "extend", "insert", "update", "setdefault", "pop", "popitem", "remove", "discard", "clear", "sort"}


def hidden_state_sites(ix, funcs):
    """[(function, node, what)]: state that outlives a call and is not part of the net -- a memoising decorator, or a module-level
    mutable container (list / dict / set bound at module level) that the function changes"""
    out = []
    mutable = {}
    for f in funcs:
        if f.module not in mutable:
            mi = ix.module(f.module) if ix.has_module(f.module) else None
            names = set()
            if mi is not None:
                for nm, v in mi.assigns.items():
                    if isinstance(v, (ast.List, ast.Dict, ast.Set, ast.ListComp, ast.DictComp, ast.SetComp)) or (
                            isinstance(v, ast.Call) and U(v.func) in ("set", "dict", "list", "defaultdict", "collections.defaultdict", "OrderedDict")):
                        names.add(nm)
            mutable[f.module] = names
        for d in f.raw_node.decorator_list:
            dn = U(d.func) if isinstance(d, ast.Call) else U(d)
            if dn in MEMO_DECORATORS or dn.rsplit(".", 1)[-1] in ("lru_cache", "cache", "cached_property"):
                out.append((f, d, "results are memoised (@%s): a later call does not see changed inputs" % dn))
        local = {n.id for n in ast.walk(f.raw_node) if isinstance(n, ast.Name) and isinstance(n.ctx, ast.Store)}
        local |= {a.arg for n in ast.walk(f.raw_node) if isinstance(n, ast.arguments) for a in n.posonlyargs + n.args + n.kwonlyargs}
        glob = {nm for n in ast.walk(f.raw_node) if isinstance(n, ast.Global) for nm in n.names}
        names = (mutable[f.module] - (local - glob)) | glob
        for n in ast.walk(f.raw_node):
            if isinstance(n, ast.Call) and isinstance(n.func, ast.Attribute) and n.func.attr in STATE_MUTATORS \
                    and isinstance(n.func.value, ast.Name) and n.func.value.id in names:
                out.append((f, n, "module-level %s is changed (.%s)" % (n.func.value.id, n.func.attr)))
            elif isinstance(n, (ast.Assign, ast.AugAssign, ast.Delete)):
                tg = n.targets if isinstance(n, (ast.Assign, ast.Delete)) else [n.target]
                for t in tg:
                    if isinstance(t, ast.Subscript) and isinstance(t.value, ast.Name) and t.value.id in names:
                        out.append((f, n, "module-level %s is changed (item store)" % t.value.id))
                    elif isinstance(t, ast.Name) and t.id in glob:
                        out.append((f, n, "module-level %s is rebound (global)" % t.id))
    return out


def r12_8(run):
    """no hidden state: what a calculation returns depends on the net and the options, not on what was calculated before.  No
    function reachable from pipeflow, and no method of the fluid / fluid-property / std-type classes (which the solver calls
    through the objects stored in the net), memoises its results or changes a module-level container."""
    ix = run.index
    cg = CallGraph(ix)
    funcs = dict(cg.reachable([ix.func(P + ".pipeflow")]))
    for modname in ("pandapipes.properties.fluids", "pandapipes.std_types.std_type_class", "pandapipes.properties.properties_toolbox"):
        mi = ix.module(modname)
        for f in mi.functions.values():
            funcs[f.qualname] = f
        for ci in mi.classes.values():
            for m in ci.methods.values():
                funcs[m.qualname] = m
    sites = hidden_state_sites(ix, list(funcs.values()))
    for f, n, what in sites:
        run.analysed(f)
        run.ob("%s|hidden-state|%s" % (f.short, what.split(" (")[0][:50]), False, "no state outside the net survives a calculation: " + what, run.where(f, n))
    if len(funcs) < 80:
        raise AnalysisError("only %d functions to scan for hidden state" % len(funcs))
    run.ob("hidden-state|functions-scanned", not sites,
           "%d functions (reachable from pipeflow, fluid and std-type classes) keep no state between calls" % len(funcs), P)
    run.floor(1)


RULES = [("R12.1", r12_1), ("R12.2", r12_2), ("R12.3", r12_3), ("R12.4", r12_4), ("R12.5", r12_5), ("R12.6", r12_6), ("R12.7", r12_7), ("R12.8", r12_8)]


def r12_9(run):
    """a thermal-only run that starts from a stored hydraulic solution equals the sequential run: the stored vector is the whole
    hydraulic state, NaN entries of unsupplied parts included, and use_given_hydraulic_results writes all of it into PINIT / MDOTINIT
    (entries that are skipped leave the start values of the pit in place, and the thermal-only run then reports pressures the
    sequential run does not) -- shared with C10 R10.9."""
    from .c10 import r10_9
    r10_9(run)


RULES.append(("R12.9", r12_9))

EXPLANATION += (' ' + "(R12.10) net['_internal_data'] is the one container that survives a call (option reuse_internal_data): the only function "
                "module that stores into it (directly or through a local alias, by item store, update or setdefault) is pf/build_system_matrix.py, and the only keys are "
                "the sparsity pattern entries 'hydraulic_data_sorting' and 'hydraulic_matrix'. Anything else kept there (a looked-up pump curve, a fluid "
                "value, a table column) is read again by the next call although the tables it came from may have been edited in between.")

_INTERNAL_DATA_KEYS = {"hydraulic_data_sorting", "hydraulic_matrix"}
_INTERNAL_DATA_MODULE = "pandapipes.pf.build_system_matrix"


def r12_10(run):
    """who may write the state that outlives a call: with reuse_internal_data=True the dictionary net['_internal_data'] is kept from one
    pipeflow to the next.  What it holds must depend on the structure of the net only (the sparsity pattern, valid as long as
    only_update_hydraulic_matrix is legitimate); a value derived from table entries or std types would make the next result depend on
    the history of the net object."""
    ix = run.index
    n_sites = 0
    n_funcs = 0
    for fi in ix.all_functions():
        if not fi.module.startswith("pandapipes") or ".test." in fi.module:
            continue
        src = U(fi.raw_node)
        if "_internal_data" not in src:
            continue
        n_funcs += 1
        run.analysed(fi)
        aliases = set()
        for st in ast.walk(fi.raw_node):
            if isinstance(st, ast.Assign) and "_internal_data" in U(st.value) and isinstance(st.value, (ast.Subscript, ast.Call, ast.Attribute, ast.Name, ast.IfExp)):
                # an alias of the container itself (net["_internal_data"], net.get("_internal_data"), net._internal_data), not of an entry
                v = st.value
                if isinstance(v, ast.IfExp):
                    v = v.body if "_internal_data" in U(v.body) else v.orelse
                is_container = (isinstance(v, ast.Subscript) and const_str(v.slice) == "_internal_data") or \
                    (isinstance(v, ast.Call) and isinstance(v.func, ast.Attribute) and v.func.attr in ("get", "setdefault")
                     and v.args and const_str(v.args[0]) == "_internal_data") or \
                    (isinstance(v, ast.Attribute) and v.attr == "_internal_data")
                if is_container:
                    aliases |= {t.id for t in st.targets if isinstance(t, ast.Name)}

        def is_container_expr(e):
            if isinstance(e, ast.Name) and e.id in aliases:
                return True
            if isinstance(e, ast.Subscript) and const_str(e.slice) == "_internal_data":
                return True
            if isinstance(e, ast.Attribute) and e.attr == "_internal_data":
                return True
            return False

        allowed = _INTERNAL_DATA_KEYS if fi.module == _INTERNAL_DATA_MODULE else set()

        def key_of(e):
            k = const_str(e)
            if k is None and e is not None:
                try:
                    k = ix.eval_const(fi.module, e)
                except Exception:     # noqa
                    k = None
            return k if isinstance(k, str) else (U(e) if e is not None else None)
        for st in ast.walk(fi.raw_node):
            sites = []
            if isinstance(st, (ast.Assign, ast.AugAssign, ast.AnnAssign)):
                tg = st.targets if isinstance(st, ast.Assign) else [st.target]
                for t in tg:
                    if isinstance(t, ast.Subscript) and is_container_expr(t.value):
                        sites.append((key_of(t.slice), st))
            elif isinstance(st, ast.Call) and isinstance(st.func, ast.Attribute) and st.func.attr in ("update", "setdefault", "__setitem__") \
                    and is_container_expr(st.func.value):
                ks = [kw.arg for kw in st.keywords] or [key_of(a) for a in st.args[:1]]
                for k in ks:
                    sites.append((k, st))
            for k, node in sites:
                n_sites += 1
                run.ob("%s|_internal_data[%s]|whitelisted-writer-and-key" % (fi.short, k), k in allowed,
                       "only pf/build_system_matrix.py stores into net['_internal_data'], and only the sparsity pattern "
                       "('hydraulic_data_sorting', 'hydraulic_matrix'): the container outlives the call under reuse_internal_data", run.where(fi, node))
    run.stat("functions_touching_internal_data", n_funcs)
    run.stat("stores_into_internal_data", n_sites)
    if n_sites < 2:
        raise AnalysisError("the stores of the sparsity pattern into net['_internal_data'] were not found (%d sites in %d functions)" % (n_sites, n_funcs))
    run.floor(2)


RULES.append(("R12.10", r12_10))
