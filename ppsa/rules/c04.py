"""C04 -- exactly the supplied part of the network is calculated, unaffected by the rest (structural part).

 R4.1 NaN-fill precedes the copy-back of active results; copied columns exclude the renumbered node columns
 R4.2 every result write of branch / const-flow components and of res_junction.p_bar is masked by an active lookup
      or NaN-strict in a column that R4.1 NaN-fills
 R4.3 reduction coherence: from/to nodes remapped through one cumulative count, inactive index entries -1
 R4.4 a network with no supplied node raises before any lookup is stored; every stage is preceded by the identification
 R4.5 inputs of the connectivity search (slack definitions, flow-return-connect handling and writers)
 R4.7 alignment of the adjacency concatenations in _connectivity
"""
import ast

from .. import phys
from ..algebra import BExpr, GExpr, Poly, b_ne0, select
from ..arrnf import ANF, base_of, C, FULL, conjuncts, contains, expect, key, length_of, match, mk_not, mk_opn, show, strip_axis, subst, walk
from ..astutil import U, assignments, calls, callee_name, const_str, own_walk
from ..cfg import CFG, calls_in
from ..kernelir import KInterp, PyVal, Unsupported
from ..phys import bcol, check_equal, component, g, hook_summary, pit_cols, tonum
from ..source import AnalysisError

PS = "pandapipes.pf.pipeflow_setup"
RE_ = "pandapipes.pf.result_extraction"
P = "pandapipes.pipeflow"

EXPLANATION = (
    'The code paths that produce the NaN pattern and the failure are decided from the source: (R4.1) in '
    'extract_results_active_pit the result column (PINIT/MDOTINIT for hydraulics) of all non-connected rows is set to NaN'
    ' before the active results are copied back, and the copied branch columns exclude FROM_NODE/TO_NODE (which are '
    'renumbered in the active pit); (R4.2) the extract_results method of every component is summarised per concrete '
    'class, fluid and mode by forward substitution; every store into a result table of a branch or const-flow component '
    'must either be selected by an active-branch lookup (or, for const-flow elements, by in_service & junction active) or'
    ' be NaN-strict in MDOTINIT of the own rows, res_junction.p_bar must be strict in PINIT; (R4.3) reduce_pit remaps '
    'FROM_NODE and TO_NODE through the same cumsum(nodes_connected)-1 and reduce_lookups sets the index entries of '
    'inactive elements to -1 and rebuilds the from_to table in table-number order; (R4.4) identify_active_nodes_branches '
    'raises PipeflowNotConverged under np.all(~nodes_connected) before storing the lookups, pipeflow calls it before any '
    'stage, and the thermal stages re-identify before reducing; (R4.5) hydraulic slacks are NODE_TYPE==P & connected, '
    'thermal slacks NODE_TYPE_T in {T, GE}, FLOW_RETURN_CONNECT branches are removed before and re-admitted after the '
    'search only if both ends are connected and the branch is active, and its writers are exactly FlowControl '
    '(control_active rows) and HeatConsumer; (R4.7) the adjacency concatenations of _connectivity are pairwise aligned; '
    '(R4.9) valves attached to pipe ends share an internal node exactly when both reference columns (junction, pipe) '
    "agree (row-wise np.unique over both from_to_node_cols of the et == 'pi' rows). (R4.8) the hooks that run on the "
    'reduced pit inside the Newton loop (adaption_before/after_derivatives_*) read no element table of the net -- per-'
    'element data reaches them through the pit or through get_component_array, which is reduced by the same active '
    'lookup. (R4.10) every test of the calculation mode against a set of mode names (mode in [...], also ==/!= chains) in'
    " result extraction, the component extract_results hooks and the active-lookup choice equals one of the solver's own "
    "mode classes, which are read from pipeflow's dispatch: the modes that run a hydraulic stage, the modes that run a "
    "thermal stage, or a single mode; a list that lost or gained a member (thermal results skipped in 'bidirectional') is"
    ' reported with the list found. (R4.11) what a branch component writes into its own pit rows has one entry per row of'
    ' its element table, in or out of service: in the forward substitution of create_pit_branch_entries of every branch '
    'component no value or guard of an own-row entry contains a column of a row-filtered table (net[tbl][in_service]) -- '
    'with one element out of service such a store raises, i.e. an outage pattern makes the calculation fail. Not decided:'
    ' the graph-search result itself and equality with the reduced network (runtime).')
ASSUMPTIONS = ["scipy.sparse.csgraph.breadth_first_order returns the nodes reachable from the start node",
               "numpy arithmetic propagates NaN", "transient=False"]
TECHNIQUE = "per-class value numbering of extract_results with selector/NaN-strictness analysis; CFG dominance; structural agreement checks"
EXPLANATION += (' ' + "(R4.12) where the component models share a junction value among the elements connected to it, the multiplicity counts in-service elements only: the keys of every counting grouping (np.unique(.., return_counts=True), _sum_by_group with a ones_like value) are rows selected by the table's in_service flag, in the function or -- for keys that are a parameter -- in the argument of every call.")
EXPLANATION += (' ' + '(R4.13, shared with C03 R3.7) a row window is read from the window table of the array it is applied to; the hooks of the Newton loop get the reduced pit together with the reduced window table.')


def _shape(ok, what):
    """the rule only understands the constructs it was written for; anything else is an analysis error, not a verdict"""
    if not ok:
        raise AnalysisError("unrecognised shape: " + what)


def _rows_of(t, L):
    """classify a row selector: 'active' (exactly the rows of lookup L), 'inactive' (~L), 'all', or None"""
    t = strip_axis(t)
    np_ = lambda n: ("x", "numpy." + n)
    if key(t) == key(L):
        return "active"
    if t == FULL:
        return "all"
    if key(t) == key(mk_not("~", L)):
        return "inactive"
    if t[0] == "idx" and len(t[2]) == 1:
        # arange(n)[L]   /   where(L)[0]
        inner, sel = t[1], t[2][0]
        if inner[0] == "call" and inner[1] == np_("arange") and len(inner[2]) == 1:
            r = _rows_of(sel, L)
            return r if r in ("active", "inactive") else None
        if sel == C(0) and inner[0] == "call" and inner[1] in (np_("where"), np_("nonzero")) and len(inner[2]) == 1:
            r = _rows_of(inner[2][0], L)
            return r if r in ("active", "inactive") else None
    if t[0] == "proj" and t[2] == 0 and t[1][0] == "call" and t[1][1] in (np_("where"), np_("nonzero")) and len(t[1][2]) == 1:
        r = _rows_of(t[1][2][0], L)
        return r if r in ("active", "inactive") else None
    if t[0] == "call" and t[1] == np_("flatnonzero") and len(t[2]) == 1:
        r = _rows_of(t[2][0], L)
        return r if r in ("active", "inactive") else None
    return None


def _excluded_columns(cols):
    """columns a copied-column list leaves out / explicitly contains: ({excluded}, {included}) of constant terms"""
    exc, inc = None, None
    for x in walk(cols):
        if isinstance(x, tuple) and x and x[0] == "cmp" and x[1] in ("not in", "in") and x[3][0] in ("list", "tuple", "set"):
            items = {key(i) for i in x[3][1]}
            if x[1] == "not in":
                exc = (exc or set()) | items
            else:
                inc = (inc or set()) | items
        elif isinstance(x, tuple) and x and x[0] == "cmp" and x[1] in ("!=", "==") and any(y[0] == "b" for y in x[2:4]):
            # `i != COL` / `i == COL` over the bound column number
            other = [y for y in x[2:4] if y[0] != "b"]
            if len(other) == 1 and other[0][0] in ("k", "c"):
                if x[1] == "!=":
                    exc = (exc or set()) | {key(other[0])}
                else:
                    inc = (inc or set()) | {key(other[0])}
        elif isinstance(x, tuple) and x and x[0] == "call" and x[1] == ("x", "numpy.setdiff1d") and len(x[2]) >= 2 \
                and x[2][1][0] in ("list", "tuple", "set"):
            # np.setdiff1d(np.arange(n_cols), [COL, ..]): all columns but the listed ones
            exc = (exc or set()) | {key(i) for i in x[2][1][1]}
    if exc is None and inc is None and cols[0] in ("list", "tuple") or (cols[0] == "call" and cols[1] != ("x", "numpy.setdiff1d") and cols[2] and cols[2][0][0] in ("list", "tuple")):
        lst = cols if cols[0] in ("list", "tuple") else cols[2][0]
        inc = {key(i) for i in lst[1]}
    return exc, inc


def _bind_call(fi, ev):
    """parameter name -> argument term of a recorded call event"""
    out = {}
    for p_, a_ in zip(fi.params(), ev.args):
        out[p_] = a_
    for k_, v_ in ev.kw:
        out[k_] = v_
    return out


_CF_CACHE = {}


def _constflow_junction_test(ix, c):
    """the row selector of the reported mass flow contains `junction isin <labels of the hydraulically active junctions>`
    (whole-function terms of extract_results: no local names involved)"""
    f = ix.lookup_method(c, "extract_results")
    k_ = (id(ix), f.qualname)
    if k_ in _CF_CACHE:
        return _CF_CACHE[k_]
    ps = f.params()
    r = ANF(ix, f, param_alias={ps[0]: "cls", ps[1]: "net"}).run()
    G = expect(ix, f, "get_lookup(net, 'node', 'from_to')[cls.get_connected_node_type().table_name()]", env={"net": ("n", "net"), "cls": ("n", "cls")})
    want = expect(ix, f, "np.isin(net[cls.table_name()].junction.values, "
                         "net['_pit']['node'][G[0]:G[1], :][get_lookup(net, 'node', 'active_hydraulics')[G[0]:G[1]], ELEMENT_IDX])",
                  env={"net": ("n", "net"), "cls": ("n", "cls"), "G": G})
    ok = False
    for e in r.stores():
        b = e.base
        if b[0] == "attr" and b[2] == "values" and len(e.index) == 1:
            if any(key(x) == key(want) for x in conjuncts(e.index[0])):
                ok = True
    _CF_CACHE[k_] = ok
    return ok


def r4_1(run):
    ix = run.index
    f = ix.func(RE_ + ".extract_results_active_pit")
    run.analysed(f)
    w = run.where(f, f.node)
    params = f.params()
    _shape(len(params) == 2, "extract_results_active_pit(net, mode)")
    netp, modep = params
    rescol = {"hydraulics": {"node": "PINIT", "branch": "MDOTINIT"}, "heat_transfer": {"node": "TINIT", "branch": "TOUTINIT"}}
    for mode in ("hydraulics", "heat_transfer"):
        r = ANF(ix, f, consts={modep: mode}, param_alias={netp: "net"}).run()
        for kind in ("node", "branch"):
            base = expect(ix, f, "net['_pit'][%r]" % kind)
            act = expect(ix, f, "net['_active_pit'][%r]" % kind)
            L = expect(ix, f, "get_lookup(net, %r, %r)" % (kind, "active_" + mode))
            S = [s for s in r.stores() if key(base_of(s.base)) == key(base)]
            copies = [s for s in S if contains(s.value, act)]
            fills = [s for s in S if not contains(s.value, act)]
            k0 = "%s|%s" % (mode, kind)
            run.ob(k0 + "|copy-back-present", len(copies) >= 1, "the active %s results are copied back into the full pit" % kind, w)
            for c in copies:
                wc = run.where(f, c.node)
                _shape(len(c.index) == 2, "copy-back target is pit[rows, cols]")
                rows = _rows_of(c.index[0], L)
                if rows is None:
                    # a selector built from another lookup is a defect, anything else is not understood
                    other = [x for x in walk(c.index[0]) if x[0] == "call" and x[1][0] == "f" and x[1][1].endswith(".get_lookup")]
                    _shape(bool(other), "row selector of the copy-back: %s" % show(c.index[0])[:120])
                run.ob(k0 + "|copy-back-rows-are-the-active-rows", rows == "active",
                       "the rows written by the copy-back are exactly the rows of the active %s lookup of mode %s" % (kind, mode), wc,
                       detail=show(c.index[0])[:200])
                cols = strip_axis(c.index[1])
                v = c.value
                _shape(v[0] == "idx" and key(v[1]) == key(act) and len(v[2]) == 2 and v[2][0] == FULL,
                       "copy-back value is active_pit[:, cols]: %s" % show(v)[:120])
                run.ob(k0 + "|copy-back-columns-aligned", key(v[2][1]) == key(cols),
                       "the same column list selects the source and the target columns", wc,
                       detail="%s / %s" % (show(cols)[:100], show(v[2][1])[:100]))
                exc, inc = _excluded_columns(cols)
                _shape(exc is not None or inc is not None, "copied column list: %s" % show(cols)[:120])
                if kind == "branch":
                    for col in ("FROM_NODE", "TO_NODE"):
                        kc = key(expect(ix, f, col))
                        ok = (kc in exc) if exc is not None else (kc not in inc)
                        run.ob(k0 + "|renumbered-column-not-copied|" + col, ok,
                               "%s (renumbered in the active pit) is not copied back" % col, wc)
            if mode != "hydraulics":
                continue
            col = expect(ix, f, rescol[mode][kind] if kind == "branch" else "PINIT")
            good = [s for s in fills if len(s.index) == 2 and key(s.index[1]) == key(col) and s.value == C("nan")
                    and _rows_of(s.index[0], L) in ("inactive", "all")]
            run.ob(k0 + "|nan-fill-present", len(good) >= 1,
                   "%s of the %ss outside the active lookup is set to NaN" % (rescol[mode][kind], kind), w,
                   detail="; ".join("%s[%s] = %s" % (show(s.base), ", ".join(show(i) for i in s.index)[:80], show(s.value)[:40]) for s in fills))
            if good and copies:
                run.ob(k0 + "|nan-fill-before-copy", min(s.seq for s in good) < min(c.seq for c in copies) and
                       not any(_rows_of(s.index[0], L) == "all" and s.seq > min(c.seq for c in copies) for s in fills if len(s.index) == 2),
                       "the NaN fill precedes the copy-back (a later fill of all rows would erase results)", run.where(f, good[0].node))
            # no later store may overwrite the filled entries with something else
            late = [s for s in fills if good and s.seq > good[0].seq and len(s.index) == 2 and key(s.index[1]) == key(col)
                    and _rows_of(s.index[0], L) in ("inactive", "all") and s.value != C("nan")]
            run.ob(k0 + "|nan-fill-not-overwritten", not late, "no later store replaces the NaN of the inactive %ss" % kind, w)
    run.floor(20)


def _basic_defs(ix, gas):
    gb = ix.func(RE_ + ".get_basic_branch_results")
    ki = KInterp(ix, {"fluid.is_gas": gas, "transient": False}, phys.handlers())
    d = ki.run(gb).outputs[0].v
    return {("sym", "branch_results", k): v for k, v in d.items()}


def _strict_in(v, atom_names, defs):
    """every case of the value contains (after expanding branch_results keys) one of the named own-row columns"""
    v = tonum(v)
    for gd, p in v.cases:
        syms = set(p.symbols())
        # expand branch_results.<key>
        expanded = set()
        for s in syms:
            if s in defs:
                for g2, p2 in tonum(defs[s]).cases:
                    expanded |= p2.symbols()
            else:
                expanded.add(s)
        if any(a[0] == "app" and a[1] == "nan_to_num" for a in p.atoms()):
            return False
        if not any(len(a) == 6 and a[1] == "col" and a[3] == "i" and a[5] in atom_names for a in expanded):
            return False
    return True


def r4_2(run):
    ix = run.index
    n_writes = 0
    for c in ix.components():
        is_branch = ix.is_subclass(c, "BranchComponent")
        is_cf = ix.is_subclass(c, "ConstFlow")
        is_junction = c.name == "Junction"
        if not (is_branch or is_cf or is_junction):
            continue
        f = ix.lookup_method(c, "extract_results")
        run.analysed(f)
        for gas in (False, True):
            defs = _basic_defs(ix, gas)
            for mode in ("hydraulics", "sequential", "bidirectional", "heat"):
                for anyv in ((False, True) if ix.is_subclass(c, "BranchWInternalsComponent") else (False,)):
                    try:
                        ki, k = hook_summary(ix, c, "extract_results", {"fluid.is_gas": gas, "any:*": anyv},
                                             {"mode": PyVal(mode), "options": PyVal({"calc_compression_power": PyVal(True)})},
                                             partial=True)
                    except Unsupported as e:
                        raise AnalysisError("extract_results of %s not analysable: %s" % (c.name, e))
                    if k.error:
                        run.stat("extract_results_paths_partially_analysed")
                    for wv in ki.res_writes:
                        n_writes += 1
                        sel = wv["selector"]
                        flags = {a[1] for gsel in sel.dnf for a, pol in gsel if a[0] == "flag" and pol}
                        by_lookup = bool(sel.dnf) and all(any(a[0] == "flag" and pol and a[1].startswith("lookup:branch_active_")
                                                              for a, pol in gsel) for gsel in sel.dnf)
                        key = "%s|%s" % (c.name, wv["column"])
                        where = run.where(wv["fi"], wv["node"])
                        if is_branch:
                            strict = _strict_in(wv["value"], ("MDOTINIT",), defs)
                            run.ob(key + "|masked-or-strict", by_lookup or strict,
                                   "res_%s.%s is written only for active branches (selector %s) or is NaN whenever the branch's "
                                   "mass flow is NaN" % (ix.method_const(c, "table_name"), wv["column"], str(sel)[:80]), where,
                                   detail="value: %s" % str(wv["value"])[:200])
                        elif is_cf:
                            tbl = ix.method_const(c, "table_name")
                            ins = b_ne0(Poly.sym("tbl", tbl, "in_service"))
                            ok = (sel & ~ins).is_false() and _constflow_junction_test(ix, c)
                            run.ob(key + "|in-service-and-junction-active", ok,
                                   "res_%s.%s is written only for in-service rows at hydraulically active junctions" % (tbl, wv["column"]),
                                   where, detail=str(sel)[:200])
                        elif is_junction and wv["column"] == "p_bar":
                            v = tonum(wv["value"])
                            strict = all(any(len(a) == 6 and a[1] == "col" and a[2] == "node_pit" and a[3] == "i" and a[5] == "PINIT"
                                             for a in p.symbols()) for gd, p in v.cases)
                            run.ob(key + "|strict-in-PINIT", strict,
                                   "res_junction.p_bar is the PINIT column, which is NaN-filled for unsupplied junctions", where)
    run.stat("result_writes_analysed", n_writes)
    run.floor(60)


def r4_3(run):
    ix = run.index
    f = ix.func(PS + ".reduce_pit")
    run.analysed(f)
    w = run.where(f, f.node)
    params = f.params()
    _shape(len(params) == 2, "reduce_pit(net, mode)")
    r = ANF(ix, f, param_alias={params[0]: "net", params[1]: "mode"}).run()
    NC = expect(ix, f, "get_lookup(net, 'node', 'active_' + mode)")
    BC = expect(ix, f, "get_lookup(net, 'branch', 'active_' + mode)")
    FROM, TO = expect(ix, f, "FROM_NODE"), expect(ix, f, "TO_NODE")
    # stores that renumber the end nodes of the active branches
    ends = {}
    for s_ in r.stores():
        b_ = base_of(s_.base)
        if len(s_.index) == 2 and s_.index[1] in (FROM, TO) and b_[0] == "idx" and b_[2] == (C("branch"),):
            ends.setdefault(s_.index[1][1].split(".")[-1], []).append(s_)
    ok = set(ends) == {"FROM_NODE", "TO_NODE"} and all(len(v) == 1 for v in ends.values())
    run.ob("reduce_pit|end-node-renumbering-present", ok,
           "reduce_pit renumbers FROM_NODE and TO_NODE of the active branch table", w)
    if ok:
        sf, st_ = ends["FROM_NODE"][0], ends["TO_NODE"][0]
        swapped = subst(sf.value, {key(FROM): TO})
        run.ob("reduce_pit|both-ends-same-remap", key(swapped) == key(st_.value) and key(base_of(sf.base)) == key(base_of(st_.base))
               and key(sf.cond) == key(st_.cond),
               "FROM_NODE and TO_NODE are remapped by the same expression (only the column differs), into the same table, "
               "under the same condition", run.where(f, st_.node), detail="%s / %s" % (show(sf.value)[:150], show(st_.value)[:150]))
        m = match(("idx", ("?", "remap"), (("?", "old"),)), sf.value)
        _shape(m is not None, "end-node remap is remap[old]: %s" % show(sf.value)[:120])
        remap, old = m["remap"], m["old"]
        want_remap = expect(ix, f, "np.cumsum(L) - 1", env={"L": NC})
        run.ob("reduce_pit|node-renumbering", key(remap) == key(want_remap),
               "new node number = (number of active nodes up to and including the node) - 1 of the node lookup of the mode", w,
               detail=show(remap)[:200])
        want_old = expect(ix, f, "net['_pit']['branch'][B, FROM_NODE]", env={"B": BC})
        run.ob("reduce_pit|remaps-the-old-end-nodes-of-the-active-branches", key(old) == key(want_old),
               "the remap is applied to the full-pit end nodes of exactly the active branches of the mode", w, detail=show(old)[:200])
        # condition: unconditional or `not all(nodes active)`
        cond = sf.cond
        ok = len(cond) == 0 or (len(cond) == 1 and cond[0][1] and key(cond[0][0]) == key(expect(ix, f, "not np.all(L)", env={"L": NC})))
        run.ob("reduce_pit|remap-whenever-a-node-is-dropped", ok, "the remap is applied whenever not all nodes are active", w,
               detail=str([(show(c)[:80], p) for c, p in cond]))
        final = [s_ for s_ in r.stores() if key(s_.base if s_.base[0] != "upd" else base_of(s_.base)) == key(("n", "net"))
                 and s_.index == (C("_active_pit"),)]
        run.ob("reduce_pit|stores-the-renumbered-table", len(final) == 1 and key(final[0].value) == key(sf.base[1])
               and final[0].seq > st_.seq or (len(final) == 1 and key(final[0].value) == key(sf.base[1])),
               "the table that was renumbered is the one stored as net['_active_pit']", w)
    # the two reductions are called with the lookups of the mode
    for kind, L in (("node", NC), ("branch", BC)):
        cs = [c for c in r.calls() if c.fn[0] == "f" and c.fn[1].endswith(".reduce_lookups") and len(c.args) >= 8 and c.args[1] == C(kind)]
        run.ob("reduce_pit|reduce_lookups|%s" % kind, len(cs) == 1 and key(cs[0].args[7]) == key(L)
               and key(cs[0].args[3]) == key(expect(ix, f, "net['_pit'][%r]" % kind)),
               "the %s table is reduced by the active %s lookup of the mode" % (kind, kind), w)

    rl = ix.func(PS + ".reduce_lookups")
    run.analysed(rl)
    w = run.where(rl, rl.node)
    ps = rl.params()
    _shape(len(ps) == 9, "reduce_lookups has 9 parameters")
    alias = dict(zip(ps, ("net", "comp_type", "mode", "comp_pit", "active_pit", "comp_pit_old", "active_pit_old", "connected", "idx_col")))
    r = ANF(ix, rl, param_alias=alias).run()
    st = r.stores()
    rows = [s_ for s_ in st if key(base_of(s_.base)) == key(("n", "active_pit")) and s_.index == (("n", "comp_type"),)]
    run.ob("reduce_lookups|rows-of-connected", len(rows) == 1 and key(rows[0].value) == key(expect(ix, rl, "comp_pit[connected, :]")),
           "the active pit holds exactly the connected rows, in pit order", w, detail=show(rows[0].value)[:120] if rows else None)
    # per-table index lookups: inactive -> -1, active -> position in the active pit
    IL = expect(ix, rl, "get_lookup(net, comp_type, 'index')")
    def per_table_lookup(b):
        # the index lookup of the table the loop is at: the loop's value variable, or <index lookup>[<loop key>]
        return b[0] == "loop" or (b[0] == "idx" and key(b[1]) == key(IL) and len(b[2]) == 1 and b[2][0][0] == "loop")
    loop_st = [s_ for s_ in st if s_.loops and per_table_lookup(base_of(s_.base))]
    neg = [s_ for s_ in loop_st if s_.value == C(-1)]
    pos = [s_ for s_ in loop_st if s_.value != C(-1)]
    _shape(len(neg) <= 1 and len(pos) <= 1, "one store per class of elements in the index-lookup loop")
    T = None
    for s_ in loop_st:
        for x in walk(s_.index[0]):
            if x[0] == "loop" and len(x) == 3:
                T = ("loop", x[1], 0)
    env = {"T": T or ("n", "T")}
    A, B = "get_lookup(net, comp_type, 'from_to')[T][0]", "get_lookup(net, comp_type, 'from_to')[T][1]"
    con = "connected[%s:%s]" % (A, B)
    elm = "comp_pit[:, idx_col][%s:%s]" % (A, B)
    run.ob("reduce_lookups|inactive=-1", len(neg) == 1 and key(neg[0].index[0]) == key(expect(ix, rl, "%s[~%s]" % (elm, con), env=env)),
           "index entries of the inactive elements of each table become -1", w, detail=show(neg[0].index[0])[:200] if neg else None)
    ok = len(pos) == 1 and key(pos[0].index[0]) == key(expect(ix, rl, "%s[%s]" % (elm, con), env=env)) \
        and key(pos[0].value) == key(expect(ix, rl, "np.cumsum(connected)[%s:%s][%s] - 1" % (A, B, con), env=env))
    run.ob("reduce_lookups|active=cumsum-1", ok,
           "index entries of the active elements become their position in the active pit (running count of connected rows - 1)", w,
           detail="%s = %s" % (show(pos[0].index[0])[:120], show(pos[0].value)[:160]) if pos else None)
    if neg and pos:
        lk = [s_ for s_ in st if s_.loops and key(s_.value[1] if s_.value[0] == "upd" else s_.value).find("'loop'") >= 0
              and s_.base[0] == "idx" and s_.base[1][0] == "idx"]
        per_tbl = [s_ for s_ in st if s_.loops and base_of(s_.value) == base_of(pos[0].base) and s_.seq > max(neg[0].seq, pos[0].seq)]
        # either directly into net['_lookups'][...][table], or into a local dict that is stored there after the loop
        direct = any(contains(s_.base, C("_lookups")) for s_ in per_tbl)
        via = any(contains(s2.base, C("_lookups")) and not s2.loops and key(base_of(s2.value)) == key(base_of(s_.base))
                  for s_ in per_tbl for s2 in st if s2.seq > s_.seq)
        if not (direct or via):
            # ... or into a dict object that was stored there *before* the loop (the same object: later item stores are visible).
            # Copies are kept apart for this (strip=False): a store into the original lookup instead of the stored copy is not accepted.
            r_ns = ANF(ix, rl, param_alias=alias, strip=False).run()
            st_ns = r_ns.stores()
            for s_ in st_ns:
                if s_.loops and len(s_.index) == 1 and s_.index[0][0] == "loop":
                    holder = base_of(s_.base)
                    if holder[0] == "call" and holder[1] == ("x", "copy.deepcopy") and any(
                            contains(s2.base, C("_lookups")) and not s2.loops and key(base_of(s2.value)) == key(holder) for s2 in st_ns):
                        via = True
        run.ob("reduce_lookups|lookup-stored-per-table", direct or via,
               "the renumbered copy is what is stored as the active index lookup of the table", w)
    # from_to table rebuilt cumulatively
    ft = [s_ for s_ in st if s_.loops and s_.value[0] in ("tuple", "list") and len(s_.value[1]) == 2 and base_of(s_.base)[0] == "new"]
    ok = len(ft) == 1
    if ok:
        lo, hi = ft[0].value[1]
        T2 = ft[0].index[0]
        le = expect(ix, rl, "np.sum(connected[get_lookup(net, comp_type, 'from_to')[T][0]:get_lookup(net, comp_type, 'from_to')[T][1]])", env={"T": T2})
        ok = lo[0] == "carried" and lo[2] == C(0) and key(hi) == key(mk_opn("+", [lo, le]))
        lid = ft[0].loops[-1]
        nxt = r.loops[lid]["env"].get(lo[1])
        ok = ok and nxt is not None and key(nxt) == key(hi)
        it = r.loops[lid]["iter"]
        ok_sorted = it[0] == "call" and it[1] == ("x", "builtins.sorted")
        run.ob("reduce_lookups|from_to-in-table-order", ok_sorted, "tables are visited in table-number order", w, detail=show(it)[:120])
    run.ob("reduce_lookups|from_to-rebuilt-cumulatively", ok,
           "the active from_to range of a table starts where the previous one ended and spans its number of connected rows", w,
           detail=show(ft[0].value)[:200] if ft else None)
    run.floor(9)


def r4_4(run):
    ix = run.index
    f = ix.func(PS + ".identify_active_nodes_branches")
    run.analysed(f)
    w = run.where(f, f.node)
    ps = f.params()
    _shape(len(ps) == 2, "identify_active_nodes_branches(net, hydraulic)")
    for hyd in (True, False):
        r = ANF(ix, f, consts={ps[1]: hyd}, param_alias={ps[0]: "net"}).run()
        mode = "hydraulics" if hyd else "heat_transfer"
        lk = expect(ix, f, "net['_lookups']")
        node_st = [s_ for s_ in r.stores() if key(base_of(s_.base)) == key(lk) and s_.index == (C("node_active_" + mode),)]
        br_st = [s_ for s_ in r.stores() if key(base_of(s_.base)) == key(lk) and s_.index == (C("branch_active_" + mode),)]
        k0 = "identify|%s" % mode
        run.ob(k0 + "|lookups-stored", len(node_st) == 1 and len(br_st) == 1,
               "the node and branch lookups of the mode are stored exactly once", w)
        if len(node_st) != 1:
            continue
        NCv = node_st[0].value
        none_supplied = {key(expect(ix, f, t, env={"X": NCv})) for t in ("np.all(~X)", "not np.any(X)", "~np.any(X)", "np.sum(X) == 0",
                                                                         "not X.any()", "(~X).all()")}
        rs = [e for e in r.raises() if e.value[0] == "call" and e.value[1][0] == "f" and e.value[1][1].endswith(".PipeflowNotConverged")]
        good = [e for e in rs if len(e.cond) == 1 and e.cond[0][1] and key(e.cond[0][0]) in none_supplied]
        run.ob(k0 + "|raises-when-nothing-supplied", len(good) >= 1,
               "PipeflowNotConverged is raised when no node of the stored node lookup is supplied", w,
               detail="; ".join(show(e.cond[0][0])[:100] for e in rs if e.cond))
        if good:
            run.ob(k0 + "|lookups-stored-after-guard", good[0].seq < node_st[0].seq and good[0].seq < br_st[0].seq if br_st else False,
                   "the active lookups are stored only after the guard passed", run.where(f, node_st[0].node))
    # pipeflow: identification dominates the stages
    pf = ix.func(P + ".pipeflow")
    run.analysed(pf)
    cfg = CFG(pf.node)
    dom = cfg.dominators()
    ident = [n for n in cfg.nodes if any(callee_name(c) == "identify_active_nodes_branches" for c in calls_in(n))]
    for n in cfg.nodes:
        for c in calls_in(n):
            if callee_name(c) in ("hydraulics", "heat_transfer", "bidirectional", "use_given_hydraulic_results"):
                run.ob("pipeflow|identify-dominates|%s" % callee_name(c), any(i.id in dom[n.id] for i in ident),
                       "identify_active_nodes_branches is executed before %s on every path" % callee_name(c), run.where(pf, c))
    # thermal stages re-identify before reducing
    for name in ("heat_transfer", "solve_bidirectional"):
        g_ = ix.func(P + "." + name)
        run.analysed(g_)
        # whole-function terms: keyword / positional spelling and helper functions do not matter
        rg = ANF(ix, g_, param_alias={g_.params()[0]: "net"}).run()
        ident = [c for c in rg.calls() if c.fn == ("f", PS + ".identify_active_nodes_branches") and tuple(c.args) == (("n", "net"), C(False))]
        red = [c for c in rg.calls() if c.fn == ("f", PS + ".reduce_pit") and tuple(c.args) == (("n", "net"), C("heat_transfer"))]
        run.ob("%s|thermal-identification-before-reduction" % name,
               len(ident) >= 1 and len(red) >= 1 and min(c.seq for c in ident) < min(c.seq for c in red),
               "%s identifies the thermally active part before reducing the pit for heat transfer" % name, run.where(g_, g_.node))
    run.floor(6)


def r4_5(run):
    ix = run.index
    f = ix.func(PS + ".check_connectivity")
    run.analysed(f)
    w = run.where(f, f.node)
    ps = f.params()
    _shape(len(ps) == 6, "check_connectivity has 6 parameters")
    alias = dict(zip(ps, ("net", "branch_pit", "node_pit", "branches_connected", "nodes_connected", "mode")))
    pcs = ix.func(PS + ".perform_connectivity_search")
    want = {"hydraulics": ["np.where((node_pit[:, NODE_TYPE] == P) & nodes_connected)[0]",
                           "np.flatnonzero((node_pit[:, NODE_TYPE] == P) & nodes_connected)"],
            "heat_transfer": ["np.where(((node_pit[:, NODE_TYPE_T] == T) | (node_pit[:, NODE_TYPE_T] == GE)) & nodes_connected)[0]",
                              "np.flatnonzero(((node_pit[:, NODE_TYPE_T] == T) | (node_pit[:, NODE_TYPE_T] == GE)) & nodes_connected)",
                              "np.where(np.isin(node_pit[:, NODE_TYPE_T], [T, GE]) & nodes_connected)[0]"]}
    for mode, forms in want.items():
        r = ANF(ix, f, consts={ps[5]: mode}, param_alias=alias).run()
        cs = [c for c in r.calls() if c.fn == ("f", pcs.qualname)]
        _shape(len(cs) == 1, "check_connectivity calls perform_connectivity_search once (mode %s)" % mode)
        b_ = _bind_call(pcs, cs[0])
        sl = b_.get(pcs.params()[3])
        run.ob("slacks|%s" % mode, sl is not None and key(sl) in {key(expect(ix, f, t)) for t in forms},
               {"hydraulics": "the hydraulic search starts from the active nodes with NODE_TYPE == P",
                "heat_transfer": "the thermal search starts from the active nodes with NODE_TYPE_T in {T, GE}"}[mode], w,
               detail=show(sl)[:200] if sl is not None else None)
        run.ob("slacks|%s|lookups-passed-through" % mode, key(b_.get(pcs.params()[4])) == key(("n", "nodes_connected"))
               and key(b_.get(pcs.params()[5])) == key(("n", "branches_connected")) and b_.get(pcs.params()[6]) == C(mode),
               "the initial node / branch masks and the mode are passed to the search unchanged", w)
    run.analysed(pcs)
    w = run.where(pcs, pcs.node)
    pp = pcs.params()
    _shape(len(pp) == 7, "perform_connectivity_search has 7 parameters")
    alias = dict(zip(pp, ("net", "node_pit", "branch_pit", "slack_nodes", "active_node_lookup", "active_branch_lookup", "mode")))
    r = ANF(ix, pcs, consts={pp[6]: "hydraulics"}, param_alias=alias).run()
    conn = ix.func(PS + "._connectivity")
    cs = [c for c in r.calls() if c.fn == ("f", conn.qualname)]
    _shape(len(cs) == 1, "perform_connectivity_search calls _connectivity once in hydraulics mode")
    b_ = _bind_call(conn, cs[0])
    FRC = expect(ix, pcs, "branch_pit[:, FLOW_RETURN_CONNECT]")
    abl = b_.get(conn.params()[3])
    run.ob("flow-return|removed-before-search", abl is not None and key(abl) == key(expect(ix, pcs, "active_branch_lookup & ~F", env={"F": FRC})),
           "FLOW_RETURN_CONNECT branches do not establish hydraulic connectivity: the search sees active & ~flow_return_connect", w,
           detail=show(abl)[:200] if abl is not None else None)
    rets = r.returns()
    _shape(len(rets) == 1 and rets[0].value[0] in ("tuple", "list") and len(rets[0].value[1]) == 2, "returns (nodes_connected, branches_connected)")
    nc, bc = rets[0].value[1]
    res = cs[0].term
    run.ob("flow-return|nodes-from-search", key(nc) == key(("proj", res, 0)), "the node result is the search result", w)
    m = match(("upd", ("proj", res, 1), (("?", "sel"),), C(True)), bc)
    run.ob("flow-return|readmission-present", m is not None,
           "the branch result is the search result with flow-return-connecting branches re-admitted", w, detail=show(bc)[:200])
    if m is not None:
        got = {key(x) for x in conjuncts(m["sel"])}
        need = {"flow_return_connect": FRC, "branch in service (ACTIVE)": expect(ix, pcs, "branch_pit[:, ACTIVE]"),
                "from node connected": expect(ix, pcs, "N[branch_pit[:, FROM_NODE]]", env={"N": ("proj", res, 0)}),
                "to node connected": expect(ix, pcs, "N[branch_pit[:, TO_NODE]]", env={"N": ("proj", res, 0)})}
        for nm, t in need.items():
            run.ob("flow-return|readmitted-only-if|%s" % nm.split(" (")[0].replace(" ", "-"), key(t) in got,
                   "a flow-return-connecting branch is re-admitted only if: %s" % nm, w, detail=show(m["sel"])[:300])
    r2 = ANF(ix, pcs, consts={pp[6]: "heat_transfer"}, param_alias=alias).run()
    cs2 = [c for c in r2.calls() if c.fn == ("f", conn.qualname)]
    _shape(len(cs2) == 1, "perform_connectivity_search calls _connectivity once in heat mode")
    b2 = _bind_call(conn, cs2[0])
    run.ob("thermal-search|masks-unchanged", key(b2.get(conn.params()[3])) == key(("n", "active_branch_lookup"))
           and key(b2.get(conn.params()[4])) == key(("n", "active_node_lookup")),
           "the thermal search uses the given masks unchanged", w)
    # writers of FLOW_RETURN_CONNECT (and of DIRECTED)
    writers = {}
    dwriters = {}
    for c in ix.components():
        if not ix.is_subclass(c, "BranchComponent"):
            continue
        ki, k = hook_summary(ix, c, "create_pit_branch_entries", {"option:transient": False, "any:*": True}, partial=True)
        dv = pit_cols(ki).get("DIRECTED")
        if dv is not None and not (tonum(dv).plain() is not None and tonum(dv).plain().is_zero()):
            dwriters[c.name] = dv
        v = pit_cols(ki).get("FLOW_RETURN_CONNECT")
        if v is None:
            continue
        p = tonum(v)
        if p.plain() is not None and p.plain().is_zero():
            continue
        writers[c.name] = p
    ok = set(writers) == {"FlowControlComponent", "HeatConsumer"}
    run.ob("flow-return|writers", ok, "FLOW_RETURN_CONNECT is set only by FlowControl and HeatConsumer: %s" % sorted(writers), "component_models")
    if "FlowControlComponent" in writers:
        want = select(b_ne0(Poly.sym("tbl", "flow_control", "control_active")), g(Poly.const(1)), g(Poly()))
        fc = component(ix, "FlowControlComponent")
        m = ix.lookup_method(fc, "create_pit_branch_entries")
        check_equal(run, "flow-return|flow_control-only-control_active", writers["FlowControlComponent"], want,
                    "a flow controller is flow-return-connecting exactly when control_active", run.where(m, m.node))
    if "HeatConsumer" in writers:
        hc = component(ix, "HeatConsumer")
        m = ix.lookup_method(hc, "create_pit_branch_entries")
        check_equal(run, "flow-return|heat_consumer-always", writers["HeatConsumer"], g(Poly.const(1)),
                    "a heat consumer is always flow-return-connecting", run.where(m, m.node))
    # the search follows a branch in both directions unless it is marked DIRECTED: only the pressure controller is (a passive flow
    # controller, a pump or a valve marked one-way cuts off whatever is supplied through it against its orientation)
    run.ob("directed|writers", set(dwriters) == {"PressureControlComponent"},
           "DIRECTED is set only by the pressure controller: %s" % sorted(dwriters), "component_models")
    # pressure controllers are directed
    pc = component(ix, "PressureControlComponent")
    ki, k = hook_summary(ix, pc, "create_pit_branch_entries", {"option:transient": False})
    m = ix.lookup_method(pc, "create_pit_branch_entries")
    check_equal(run, "directed|press_control", pit_cols(ki).get("DIRECTED", g(Poly.sym("missing"))), g(Poly.const(1)),
                "pressure controllers are directed branches (connectivity only from -> to)", run.where(m, m.node))
    run.floor(9)


def r4_7(run):
    ix = run.index
    f = ix.func(PS + "._connectivity")
    run.analysed(f)
    w = run.where(f, f.node)
    ps = f.params()
    _shape(len(ps) == 7, "_connectivity has 7 parameters")
    alias = dict(zip(ps, ("net", "branch_pit", "node_pit", "active_branch_lookup", "active_node_lookup", "slack_nodes", "mode")))
    r = ANF(ix, f, param_alias=alias).run()
    np_ = lambda n: ("x", "numpy." + n)
    coo = [c for c in r.calls() if c.fn[0] == "x" and c.fn[1].endswith(("coo_matrix", "csr_matrix", "csc_matrix"))]
    _shape(len(coo) == 1 and len(coo[0].args) >= 1, "one sparse adjacency matrix is built")
    m = match(("tuple", (("?", "data"), ("tuple", (("?", "fn"), ("?", "tn"))))), coo[0].args[0])
    _shape(m is not None, "adjacency matrix from (data, (rows, cols)): %s" % show(coo[0].args[0])[:100])

    def parts(t):
        if t[0] == "call" and t[1] == np_("concatenate") and t[2] and t[2][0][0] in ("list", "tuple"):
            return list(t[2][0][1])
        return None
    pf, pt = parts(m["fn"]), parts(m["tn"])
    _shape(pf is not None and pt is not None, "edge lists are np.concatenate([...])")
    run.ob("adjacency|same-number-of-parts", len(pf) == len(pt), "row and column index lists have the same parts", w)
    From, To = expect(ix, f, "branch_pit[:, FROM_NODE]"), expect(ix, f, "branch_pit[:, TO_NODE]")
    ABL = ("n", "active_branch_lookup")
    directed = expect(ix, f, "branch_pit[:, DIRECTED]")
    V = None
    fwd, rev, slack, other = [], [], [], []
    for a_, b_ in zip(pf, pt):
        ma, mb = match(("idx", ("?", "v"), (("?", "m"),)), a_), match(("idx", ("?", "v"), (("?", "m"),)), b_)
        if ma and mb and key(ma["m"]) == key(mb["m"]) and key(ma["v"]) == key(From) and key(mb["v"]) == key(To):
            fwd.append(ma["m"])
        elif ma and mb and key(ma["m"]) == key(mb["m"]) and key(ma["v"]) == key(To) and key(mb["v"]) == key(From):
            rev.append(ma["m"])
        elif a_[0] == "call" and a_[1] == np_("full") and len(a_[2]) >= 2 and key(b_) == key(("n", "slack_nodes")):
            slack.append(a_)
            V = a_[2][1]
        else:
            other.append((a_, b_))
    run.ob("adjacency|pairwise-aligned", not other,
           "every part pairs the from and to nodes of the same branch selection (or the virtual node with the slack nodes)", w,
           detail="; ".join("%s -> %s" % (show(x)[:80], show(y)[:80]) for x, y in other))
    run.ob("adjacency|forward-edges-of-all-active-branches", len(fwd) == 1 and key(fwd[0]) == key(ABL),
           "every active branch contributes the edge from -> to", w, detail=str([show(x) for x in fwd]))
    ok = len(rev) == 1 and key(rev[0]) == key(mk_opn("&", [ABL, mk_not("~", directed)]))
    run.ob("adjacency|reverse-edges-only-of-undirected-active-branches", ok,
           "exactly the active branches that are not DIRECTED contribute the edge to -> from", w, detail=str([show(x) for x in rev]))
    ok = len(slack) == 1 and key(slack[0][2][0]) == key(expect(ix, f, "len(slack_nodes)"))
    run.ob("adjacency|virtual-node-to-every-slack", ok, "one edge from the virtual node to every slack node", w)
    if V is not None:
        run.ob("adjacency|virtual-node-is-new", key(V) == key(expect(ix, f, "len(node_pit)")),
               "the virtual node number is the number of nodes (not an existing node)", w, detail=show(V))
        shp = dict(coo[0].kw).get("shape")
        run.ob("adjacency|shape", shp is not None and key(shp) == key(("tuple", (mk_opn("+", [V, C(1)]), mk_opn("+", [V, C(1)])))),
               "the matrix has one extra row/column for the virtual node", w, detail=show(shp) if shp else None)
        # data length = number of edges
        d = m["data"]
        _shape(d[0] == "call" and d[1] in (np_("ones"), np_("full")) and d[2], "edge data vector is np.ones(n)")
        lens = []
        for a_ in pf:
            ln = length_of(a_)
            _shape(ln is not None, "length of %s" % show(a_)[:80])
            lens.append(ln)
        def nl(t):
            # len(x[mask]) == sum(mask)
            if isinstance(t, tuple):
                if t and t[0] == "call" and t[1] == ("x", "builtins.len") and len(t[2]) == 1 and t[2][0][0] == "idx" \
                        and len(t[2][0][2]) == 1 and t[2][0][2][0][0] != "slice":
                    return length_of(t[2][0])
                if t and t[0] == "call" and t[1] == ("x", "builtins.len") and len(t[2]) == 1 and t[2][0][0] == "call" \
                        and t[2][0][1] == np_("concatenate") and t[2][0][2] and t[2][0][2][0][0] in ("list", "tuple"):
                    # len(np.concatenate([a, b, ...])) == len(a) + len(b) + ...
                    return mk_opn("+", [nl(length_of(p_)) for p_ in t[2][0][2][0][1]])
                if t and t[0] == "opn":
                    return mk_opn(t[1], [nl(x) for x in t[2]])
                return tuple(nl(x) for x in t)
            return t
        run.ob("adjacency|data-length", key(nl(d[2][0])) == key(mk_opn("+", lens)),
               "the data vector has one entry per edge", w, detail="%s vs %s" % (show(d[2][0])[:150], show(mk_opn("+", lens))[:150]))
        bfs = [c for c in r.calls() if c.fn[0] == "x" and c.fn[1].endswith("breadth_first_order")]
        _shape(len(bfs) == 1, "one breadth_first_order search")
        ba = list(bfs[0].args) + [None] * 4
        kw = dict(bfs[0].kw)
        start = ba[1] if ba[1] is not None else kw.get("i_start")
        dirn = ba[2] if ba[2] is not None else kw.get("directed", C(True))
        pred = ba[3] if ba[3] is not None else kw.get("return_predecessors", C(True))
        run.ob("search|starts-at-virtual-node", start is not None and key(start) == key(V), "the search starts at the virtual node", w)
        run.ob("search|directed", dirn == C(True), "the search respects edge direction (DIRECTED branches connect only from -> to)", w)
        R = bfs[0].term if pred == C(False) else ("proj", bfs[0].term, 0)
        rets = r.returns()
        _shape(len(rets) == 1 and rets[0].value[0] in ("tuple", "list") and len(rets[0].value[1]) == 2, "returns (nodes_connected, branches_connected)")
        nc, bc = rets[0].value[1]
        want_nc = ("upd", expect(ix, f, "np.zeros(len(active_node_lookup), dtype=bool)"),
                   (expect(ix, f, "R[R != V]", env={"R": R, "V": V}),), C(True))
        run.ob("search|nodes-connected", key(nc) == key(want_nc),
               "nodes_connected is True exactly for the reached nodes other than the virtual node", w, detail=show(nc)[:200])
        ok = key(bc) in {key(expect(ix, f, t, env={"N": nc})) for t in
                         ("active_branch_lookup & N[branch_pit[:, FROM_NODE]]",
                          "active_branch_lookup & N[branch_pit[:, FROM_NODE]] & N[branch_pit[:, TO_NODE]]")}
        # the to node alone is not enough: a DIRECTED branch is traversed only from -> to, so its to node can be reached through
        # other branches while its from node is not; keeping such a branch lets reduce_pit renumber a dropped from node
        run.ob("search|branches-connected", ok,
               "a branch is connected iff it is active and its from node was reached (then, by the edges of the search, its to node was too)", w,
               detail=show(bc)[:200])
    chk = [e for e in r.raises() if e.cond and any(contains(c, From) or contains(c, To) for c, _ in e.cond)]
    run.ob("search|undirected-end-consistency-asserted", len(chk) >= 1,
           "both ends of an undirected active branch must have the same reachability (asserted)", w)
    run.floor(12)


def r4_8(run):
    """the hooks that run inside the Newton loop (adaption_before/after_derivatives_hydraulic/thermal) receive the *reduced* pit:
    row k is the k-th calculated element, not the k-th table row.  Per-element data reaches them only through the pit or through
    get_component_array (which is reduced by the same active lookup); reading a column of an element table of the net there pairs
    table rows with active rows and gives the calculated elements the data of other elements as soon as one element is not
    calculated"""
    ix = run.index
    allowed = ("std_types", "fluid", "converged", "user_pf_options", "component_list", "name")
    n = 0
    for c in ix.all_classes():
        for mn, m in sorted(c.methods.items()):
            if not mn.startswith("adaption_"):
                continue
            n += 1
            run.analysed(m)
            ps = m.params()
            netp = ps[1] if len(ps) > 1 else "net"
            r = ANF(ix, m, param_alias={netp: "net"}).run()
            hits = {}
            for e in r.events:
                ts = [e.value] if e.kind in ("store", "return", "raise") else ([e.term] if e.kind == "call" else [])
                if e.kind == "store":
                    ts += list(e.index) + [e.base]
                ts += [c_ for c_, _ in e.cond]
                for t in ts:
                    for x in walk(t):
                        if x[0] == "idx" and x[1] == ("n", "net") and len(x[2]) == 1:
                            k = x[2][0]
                            if k[0] == "c" and (str(k[1]).startswith("_") or k[1] in allowed):
                                continue
                            hits.setdefault(show(x)[:60], e.node)
            gq = "pandapipes.component_models.component_toolbox.get_component_array"
            gparams = ix.func(gq).params()
            for e in r.calls():
                if e.fn == ("f", gq):
                    a_ = dict(zip(gparams, e.args))
                    a_.update(dict(e.kw))
                    oa = a_.get("only_active", C(True))
                    run.ob("%s.%s|component-array-of-active-rows" % (c.name, mn), oa == C(True),
                           "%s.%s takes the component array reduced to the calculated elements (only_active)" % (c.name, mn),
                           run.where(m, e.node), detail="only_active=%s" % show(oa))
            run.ob("%s.%s|no-element-table-read" % (c.name, mn), not hits,
                   "%s.%s works on the reduced pit and reads no element table of the net" % (c.name, mn),
                   run.where(m, next(iter(hits.values())) if hits else m.node), detail="; ".join(sorted(hits)))
    # the component array handed out for the loop is reduced by the active lookup of the mode
    gca = ix.func("pandapipes.component_models.component_toolbox.get_component_array")
    run.analysed(gca)
    ps = gca.params()
    r = ANF(ix, gca, consts={ps[4]: True}, param_alias=dict(zip(ps, ("net", "name", "ctype", "mode")))).run()
    rets = r.returns()
    want = expect(ix, gca, "net['_pit']['components'][name][get_lookup(net, ctype, 'active_%s' % mode)"
                           "[get_lookup(net, ctype, 'from_to')[name][0]:get_lookup(net, ctype, 'from_to')[name][1]]]")
    run.ob("get_component_array|reduced-by-active-lookup", len(rets) == 1 and key(rets[0].value) == key(want),
           "get_component_array(only_active=True) returns the rows of the component array selected by the active lookup of the mode "
           "over the component's pit range", run.where(gca, gca.node), detail=show(rets[0].value)[:200] if rets else None)
    run.ob("adaption-hooks-found", n >= 15, "adaption hooks analysed: %d" % n, "component_models")
    run.floor(15)


def r4_9(run):
    """a closed valve at a pipe end isolates what lies behind it only if it has its own internal node: valves attached to pipes
    share an internal node exactly when they sit at the same junction AND on the same pipe, i.e. the grouping key is the pair of
    both reference columns, compared row-wise (a key built from one column, or a scalar combination, merges distinct pipe ends)"""
    ix = run.index
    f = ix.func("pandapipes.component_models.valve_component.Valve.get_internal_node_number")
    run.analysed(f)
    w = run.where(f, f.node)
    r = ANF(ix, f).run()
    un = [c for c in r.calls() if c.fn == ("x", "numpy.unique")]
    _shape(len(un) == 1 and un[0].args, "Valve.get_internal_node_number groups the pipe valves with one np.unique call")
    X = un[0].args[0]
    ftc = ("call", ("attr", ("n", f.params()[0]), "from_to_node_cols"), (), ())
    both = any(x[0] == "idx" and len(x[2]) == 1 and (
        x[2][0] == ("call", ("x", "builtins.list"), (ftc,), ()) or x[2][0] == ftc or
        (x[2][0][0] in ("list", "tuple") and {key(i) for i in x[2][0][1]} == {key(("proj", ftc, 0)), key(("proj", ftc, 1))})) for x in walk(X))
    arith = any(x[0] in ("opn", "op") and x[1] in ("+", "*", "-", "/", "//", "%") for x in walk(X))
    run.ob("valve-nodes|key-is-junction-and-pipe", both and not arith,
           "pipe valves are grouped by both reference columns (junction, pipe)", run.where(f, un[0].node), detail=show(X)[:200])
    run.ob("valve-nodes|row-wise-unique", dict(un[0].kw).get("axis") == C(0),
           "the pairs are compared row-wise (np.unique(..., axis=0))", run.where(f, un[0].node))
    pv = expect(ix, f, "net[%s.table_name()]['et'].values == 'pi'" % f.params()[0])
    run.ob("valve-nodes|only-pipe-valves", contains(X, pv), "only valves attached to pipes (et == 'pi') get internal nodes", w)
    run.floor(3)


def mode_classes(ix):
    """({modes in which pipeflow runs a hydraulic calculation}, {modes in which it runs a thermal calculation}), from the path
    conditions of the stage calls in pipeflow()"""
    from ..arrnf import norm_cond
    pf = ix.func(P + ".pipeflow")
    r = ANF(ix, pf, param_alias={pf.params()[0]: "net"}).run()
    out = {"hydraulics": set(), "heat_transfer": set(), "bidirectional": set()}
    for c in r.calls():
        if c.fn[0] != "f":
            continue
        nm = c.fn[1].rsplit(".", 1)[-1]
        if nm not in out:
            continue
        for c_, p_ in c.cond:
            c2, p2 = norm_cond(c_, p_)
            if not p2 or c2[0] != "cmp":
                continue        # only the direct guard of the stage (a single comparison of the mode), not composite tests
            for x in [c2]:
                if x[0] == "cmp" and x[1] == "in" and x[3][0] in ("list", "tuple", "set") and all(i_[0] == "c" and isinstance(i_[1], str) for i_ in x[3][1]):
                    out[nm] |= {i_[1] for i_ in x[3][1]}
                if x[0] == "cmp" and x[1] == "==":
                    for y in x[2:4]:
                        if y[0] == "c" and isinstance(y[1], str):
                            out[nm].add(y[1])
    if not (out["hydraulics"] and out["heat_transfer"] and out["bidirectional"]):
        raise AnalysisError("unrecognised shape: the modes under which pipeflow() runs its stages could not be determined: %s" % out)
    return out["hydraulics"] | out["bidirectional"], out["heat_transfer"] | out["bidirectional"]


def r4_10(run):
    """which supply mask applies to a result depends on the calculation mode; every place that classifies modes must agree with
    the solver: a test `mode in [...]` over mode names, anywhere in the result extraction and the component models, lists exactly
    the modes in which pipeflow() runs a hydraulic calculation or exactly those in which it runs a thermal one (a thermal mode
    missing from one list makes that site mask thermal results by the hydraulic supply)"""
    from ..flatten import const_substituted
    ix = run.index
    hyd, heat = mode_classes(ix)
    allm = hyd | heat
    run.ob("mode-classes", hyd == {"hydraulics", "sequential", "bidirectional"} and heat == {"heat", "sequential", "bidirectional"},
           "pipeflow() calculates hydraulics in %s and heat transfer in %s" % (sorted(hyd), sorted(heat)), P)
    n = 0
    for f in ix.all_functions():
        if not (f.module.startswith("pandapipes.component_models") or f.module == RE_) or ".test." in f.module:
            continue
        for node in ast.walk(const_substituted(ix, f)):      # the tree as written, named constants replaced by their displays
            if isinstance(node, ast.Compare) and len(node.ops) == 1 and isinstance(node.ops[0], (ast.In, ast.NotIn)) \
                    and isinstance(node.comparators[0], (ast.List, ast.Tuple, ast.Set)):
                items = [const_str(e) for e in node.comparators[0].elts]
                if len(items) >= 2 and all(i_ is not None and i_ in allm for i_ in items):
                    n += 1
                    run.analysed(f)
                    run.ob("mode-test|%s|%s" % (f.short, ",".join(sorted(items))), set(items) in (hyd, heat),
                           "the mode test lists exactly the hydraulic modes %s or exactly the thermal modes %s" % (sorted(hyd), sorted(heat)),
                           run.where(f, node))
    run.stat("mode_tests_checked", n)
    run.floor(2)        # the mode-classes obligation and at least one site (sites may be merged into one helper)


def r4_11(run):
    """out-of-service elements keep their rows in the internal tables (they are only marked inactive), so what a component writes
    into *its own* branch rows has one entry per row of its element table: a mask or a value array taken from a row-filtered copy
    of the table (`net[tbl][net[tbl].in_service.values]`) has fewer entries as soon as one element is out of service -- the store
    raises (or pairs values with the wrong rows), i.e. an outage pattern makes the calculation fail instead of reporting NaN for
    that element.  Decided on the forward substitution of create_pit_branch_entries of every branch component: no value or guard
    of an own-row pit entry contains a filtered table column."""
    ix = run.index
    n = 0

    def filtered_cols(a, acc):
        if isinstance(a, tuple):
            if len(a) > 4 and a[0] == "sym" and a[1] == "tbl":
                acc.add("net.%s.%s[<row filter>]" % (a[2], a[3]))
            for x in a:
                filtered_cols(x, acc)
        return acc
    for c in ix.components():
        if not ix.is_subclass(c, "BranchComponent"):
            continue
        f = ix.lookup_method(c, "create_pit_branch_entries")
        if f is None:
            continue
        try:
            ki, k = hook_summary(ix, c, "create_pit_branch_entries", {"option:transient": False, "any:*": True}, partial=True)
        except (Unsupported, AnalysisError) as ex:
            raise AnalysisError("unrecognised shape: %s.create_pit_branch_entries cannot be summarised: %s" % (c.name, str(ex)[:120]))
        run.analysed(f)
        bad = {}
        for key_, v in ki.pit.items():
            if key_[0] != "branch_pit" or key_[1] != "i":
                continue
            acc = set()
            for gd, p in tonum(v).cases:
                for a in p.atoms():
                    filtered_cols(a, acc)
                for a, _pol in gd:
                    filtered_cols(a, acc)
            if acc:
                bad[key_[3]] = sorted(acc)
        n += 1
        run.ob("%s.create_pit_branch_entries|own-rows-from-unfiltered-table" % c.name, not bad,
               "the own branch rows of %s (one per table row, in or out of service) are not filled from a row-filtered table" % c.name,
               run.where(f, f.node), detail="; ".join("%s <- %s" % (k_, ", ".join(v_)) for k_, v_ in sorted(bad.items()))[:300] if bad else None)
    run.stat("branch_hooks_checked_for_filtered_tables", n)
    run.floor(8)


def _mentions_service_flag(t):
    for x in walk(t):
        if isinstance(x, tuple) and x:
            if x == ("c", "in_service") or (x[0] == "attr" and x[2] in ("in_service", "active_identifier")):
                return True
    return False


def counting_sites(ix):
    """[(function, node, key term, ok, how)]: groupings in the component models that COUNT the elements per junction
    (np.unique(.., return_counts=True), _sum_by_group(.., keys, .., ones_like(..)))"""
    funcs = [f for f in ix.all_functions() if f.module.startswith("pandapipes.component_models.")]
    runs = {}
    for f in funcs:
        try:
            runs[f] = ANF(ix, f, strip=False).run()
        except AnalysisError:
            continue
    callers = {}
    for f, r in runs.items():
        for e in r.events:
            if e.kind == "call" and e.term[1][0] == "f":
                callers.setdefault(e.term[1][1], []).append((f, e))
    sites = []
    for f, r in runs.items():
        params = [a.arg for a in f.node.args.args]
        for e in r.events:
            if e.kind != "call":
                continue
            t = e.term
            keys = None
            if t[1] == ("x", "numpy.unique") and any(k == "return_counts" and v == C(True) for k, v in t[3]):
                keys = t[2][0]
            elif t[1][0] == "f" and t[1][1].rsplit(".", 1)[-1].startswith("_sum_by_group") and any(
                    a[0] == "call" and a[1] in (("x", "numpy.ones_like"), ("x", "numpy.ones")) for a in t[2][1:]):
                keys = t[2][1] if t[1][1].endswith("._sum_by_group") else t[2][0]
            if keys is None:
                continue
            if _mentions_service_flag(keys):
                sites.append((f, e.node, keys, True, "in the function"))
                continue
            used = [p_ for p_ in params if p_ not in ("cls", "self", "net") and any(x == ("n", p_) for x in walk(keys))]
            cs = callers.get(f.qualname, [])
            if not used or not cs:
                sites.append((f, e.node, keys, None if not cs and used else False, "no caller" if used else "no service flag"))
                continue
            ok = True
            for cf, ce in cs:
                bound = dict(zip(params, ce.term[2]))
                bound.update({k: v for k, v in ce.term[3] if k})
                if not any(p_ in bound and _mentions_service_flag(bound[p_]) for p_ in used):
                    ok = False
                    sites.append((f, ce.node, keys, False, "argument of the call in %s" % cf.short))
            if ok:
                sites.append((f, e.node, keys, True, "at %d call sites" % len(cs)))
    return sites


def r4_12(run):
    """an element that is out of service must not change any result: where the component models share a junction's value among the
    elements connected to it (the slack mass flow divided by the number of external grids, the mean of the prescribed pressures), the
    multiplicity counts in-service elements only.  Every counting grouping (np.unique(.., return_counts=True) / _sum_by_group with a
    ones_like value) in component_models takes its keys from rows selected by the table's in_service flag -- in the function itself
    or, for keys that are a parameter, in the argument of every call."""
    ix = run.index
    n = 0
    for f, node, keys, ok, how in counting_sites(ix):
        if ok is None:
            run.stat("counting_groupings_without_caller", 1)
            continue
        n += 1
        run.analysed(f)
        run.ob("%s|%s|counts-in-service-elements" % (f.short, show(keys)[:40]), ok,
               "the elements counted per junction are restricted to the in-service rows (%s)" % how, run.where(f, node),
               detail=None if ok else show(keys)[:200])
    run.stat("counting_groupings", n)
    run.floor(2)


RULES = [("R4.1", r4_1), ("R4.2", r4_2), ("R4.3", r4_3), ("R4.4", r4_4), ("R4.5", r4_5), ("R4.7", r4_7), ("R4.8", r4_8), ("R4.9", r4_9), ("R4.10", r4_10), ("R4.11", r4_11), ("R4.12", r4_12)]


def r4_13(run):
    """the supplied part is calculated on the reduced pit, and a component finds its rows there through the reduced window table:
    a row window is read from the window table of the array it is applied to (full pit / from_to, active pit / from_to_active_*,
    hook parameters / the lookup of the same call) -- shared with C03 R3.7.  With the full-table window on the reduced pit the rows
    are those of another element as soon as any branch ahead in the pit is not calculated: the result of the supplied part then
    depends on what is out of service elsewhere."""
    from .c03 import r3_7
    r3_7(run)


RULES.append(("R4.13", r4_13))

EXPLANATION += (' ' + '(R4.14, shared with C05 R5.8) every run rebinds every result table to a fresh all-NaN frame on every path: the rows of elements outside the '
                'supplied part are NaN because nothing writes them, not because an in-place reset happened to reach the storage of the frame.')


def r4_14(run):
    """unsupplied and out-of-service elements report NaN: result extraction writes only the rows of calculated elements and relies on
    all other rows being NaN from init_results_element.  An in-place reset (`res.values[:] = nan`) works only while the frame is stored
    in one block (not after from_pickle, not after a column was added) -- shared with C05 R5.8."""
    from .c05 import r5_8
    r5_8(run)


RULES.append(("R4.14", r4_14))
