"""C04 -- exactly the supplied part of the network is calculated, unaffected by the rest (structural part).

 R4.1 NaN-fill precedes the copy-back of active results; copied columns exclude the renumbered node columns
 R4.2 every result write of branch / const-flow components and of res_junction.p_bar is masked by an active lookup
      or NaN-strict in a column that R4.1 NaN-fills
 R4.3 reduction coherence: from/to nodes remapped through one cumulative count, inactive index entries -1
 R4.4 a network with no supplied node raises before any lookup is stored; every stage is preceded by the identification
 R4.5 inputs of the connectivity search (slack definitions, flow-return-connect handling and writers)
 R4.7 alignment of the adjacency concatenations in _connectivity
"""
import ast

from .. import phys
from ..algebra import BExpr, GExpr, Poly, b_ne0, select
from ..astutil import U, assignments, calls, callee_name, const_str, own_walk
from ..cfg import CFG, calls_in
from ..kernelir import KInterp, PyVal, Unsupported
from ..phys import bcol, check_equal, component, g, hook_summary, pit_cols, tonum
from ..source import AnalysisError

PS = "pandapipes.pf.pipeflow_setup"
RE_ = "pandapipes.pf.result_extraction"
P = "pandapipes.pipeflow"

EXPLANATION = (
    "The code paths that produce the NaN pattern and the failure are decided from the source: (R4.1) in "
    "extract_results_active_pit the result column (PINIT/MDOTINIT for hydraulics) of all non-connected rows is set to "
    "NaN before the active results are copied back, and the copied branch columns exclude FROM_NODE/TO_NODE (which "
    "are renumbered in the active pit); (R4.2) the extract_results method of every component is summarised per "
    "concrete class, fluid and mode by forward substitution; every store into a result table of a branch or "
    "const-flow component must either be selected by an active-branch lookup (or, for const-flow elements, by "
    "in_service & junction active) or be NaN-strict in MDOTINIT of the own rows, res_junction.p_bar must be strict in "
    "PINIT; (R4.3) reduce_pit remaps FROM_NODE and TO_NODE through the same cumsum(nodes_connected)-1 and reduce_lookups "
    "sets the index entries of inactive elements to -1 and rebuilds the from_to table in table-number order; (R4.4) "
    "identify_active_nodes_branches raises PipeflowNotConverged under np.all(~nodes_connected) before storing the "
    "lookups, pipeflow calls it before any stage, and the thermal stages re-identify before reducing; (R4.5) hydraulic "
    "slacks are NODE_TYPE==P & connected, thermal slacks NODE_TYPE_T in {T, GE}, FLOW_RETURN_CONNECT branches are removed "
    "before and re-admitted after the search only if both ends are connected and the branch is active, and its writers "
    "are exactly FlowControl (control_active rows) and HeatConsumer; (R4.7) the adjacency concatenations of "
    "_connectivity are pairwise aligned. Not decided: the graph-search result itself and equality with the reduced "
    "network (runtime).")
ASSUMPTIONS = ["scipy.sparse.csgraph.breadth_first_order returns the nodes reachable from the start node",
               "numpy arithmetic propagates NaN", "transient=False"]
TECHNIQUE = "per-class value numbering of extract_results with selector/NaN-strictness analysis; CFG dominance; structural agreement checks"


def r4_1(run):
    ix = run.index
    f = ix.func(RE_ + ".extract_results_active_pit")
    run.analysed(f)
    w = run.where(f, f.node)
    # result / not-affected columns per mode by constant propagation of the conditional expressions
    def cond(name, mode):
        asg = assignments(f.node, name)
        if len(asg) != 1 or not isinstance(asg[0][1], ast.IfExp):
            return None
        e = asg[0][1]
        t = U(e.test).replace(" ", "").replace('"', "'")
        if t == "mode=='hydraulics'":
            return U(e.body if mode == "hydraulics" else e.orelse)
        return None
    exp = {"hydraulics": {"result_node_col": "PINIT", "result_branch_col": "MDOTINIT", "not_affected_node_col": "TINIT_NODE",
                          "not_affected_branch_col": "TOUTINIT"},
           "heat_transfer": {"result_node_col": "TINIT_NODE", "result_branch_col": "TOUTINIT", "not_affected_node_col": "PINIT",
                             "not_affected_branch_col": "MDOTINIT"}}
    for mode, d in exp.items():
        for k, v in d.items():
            run.ob("%s|%s" % (mode, k), cond(k, mode) == v, "%s is %s in mode %s" % (k, v, mode), w, detail=str(cond(k, mode)))
    stores = [n for n in own_walk(f.node) if isinstance(n, ast.Assign) and isinstance(n.targets[0], ast.Subscript)
              and U(n.targets[0].value).replace('"', "'").startswith("net['_pit']")]
    for kind, conn, rescol, rows, cols in (("node", "nodes_connected", "result_node_col", "rows_nodes", "copied_node_cols"),
                                           ("branch", "branches_connected", "result_branch_col", "rows_branches", "copied_branch_cols")):
        fill = [n for n in stores if U(n.targets[0].value).replace('"', "'") == "net['_pit']['%s']" % kind
                and U(n.targets[0].slice).replace(" ", "").strip("()") == "~%s,%s" % (conn, rescol)]
        copy = [n for n in stores if U(n.targets[0].value).replace('"', "'") == "net['_pit']['%s']" % kind
                and "_active_pit" in U(n.value)]
        ok = len(fill) == 1 and len(copy) == 1
        run.ob("%s|nan-fill-and-copy-present" % kind, ok, "one NaN-fill of the non-connected rows and one copy-back of the active rows", w)
        if not ok:
            continue
        run.ob("%s|nan-fill-before-copy" % kind, fill[0].lineno < copy[0].lineno,
               "the %s result column of non-connected rows is filled before the active results are copied back" % kind,
               run.where(f, fill[0]))
        v = fill[0].value
        ok = isinstance(v, ast.IfExp) and U(v.body) in ("np.nan", "numpy.nan") and U(v.test).replace(" ", "").replace('"', "'") == "mode=='hydraulics'"
        run.ob("%s|hydraulic-fill-is-nan" % kind, ok, "in hydraulics mode the fill value is NaN", run.where(f, fill[0]))
        # copy-back: rows of the connected elements, the copied column list on both sides
        tsl = U(copy[0].targets[0].slice).replace(" ", "").strip("()")
        vsl = U(copy[0].value).replace(" ", "").replace('"', "'")
        ok = tsl.startswith("%s[:,np.newaxis],%s[np.newaxis,:]" % (rows, cols)) and vsl == "net['_active_pit']['%s'][:,%s]" % (kind, cols)
        run.ob("%s|copy-back-aligned" % kind, ok, "active rows are copied to the rows of the connected elements, same column list on both sides",
               run.where(f, copy[0]))
        rdef = [U(v_).replace(" ", "").replace('"', "'") for _, v_, _ in assignments(f.node, rows)]
        run.ob("%s|rows-of-connected" % kind, rdef == ["np.arange(net['_pit']['%s'].shape[0])[%s]" % (kind, conn)],
               "%s are the positions of the connected %ss" % (rows, kind), w, detail=str(rdef))
    # copied columns
    cdef = {nm: U(assignments(f.node, nm)[0][1]).replace(" ", "") for nm in ("copied_node_cols", "copied_branch_cols")
            if len(assignments(f.node, nm)) == 1}
    run.ob("branch|renumbered-columns-not-copied", "ifinotin[FROM_NODE,TO_NODE,not_affected_branch_col]" in cdef.get("copied_branch_cols", ""),
           "FROM_NODE/TO_NODE (renumbered in the active pit) and the not-affected column are not copied back", w)
    run.ob("node|not-affected-column-not-copied", "ifinotin[not_affected_node_col]" in cdef.get("copied_node_cols", ""),
           "the not-affected node column is not copied back", w)
    cl = [U(v_).replace(" ", "").replace('"', "'") for nm in ("nodes_connected", "branches_connected") for _, v_, _ in assignments(f.node, nm)]
    run.ob("lookups-of-mode", cl == ["get_lookup(net,'node','active_'+mode)", "get_lookup(net,'branch','active_'+mode)"],
           "the connected masks are the active lookups of the mode being extracted", w, detail=str(cl))
    run.floor(20)


def _basic_defs(ix, gas):
    gb = ix.func(RE_ + ".get_basic_branch_results")
    ki = KInterp(ix, {"fluid.is_gas": gas, "transient": False}, phys.handlers())
    d = ki.run(gb).outputs[0].v
    return {("sym", "branch_results", k): v for k, v in d.items()}


def _strict_in(v, atom_names, defs):
    """every case of the value contains (after expanding branch_results keys) one of the named own-row columns"""
    v = tonum(v)
    for gd, p in v.cases:
        syms = set(p.symbols())
        # expand branch_results.<key>
        expanded = set()
        for s in syms:
            if s in defs:
                for g2, p2 in tonum(defs[s]).cases:
                    expanded |= p2.symbols()
            else:
                expanded.add(s)
        if any(a[0] == "app" and a[1] == "nan_to_num" for a in p.atoms()):
            return False
        if not any(len(a) == 6 and a[1] == "col" and a[3] == "i" and a[5] in atom_names for a in expanded):
            return False
    return True


def r4_2(run):
    ix = run.index
    n_writes = 0
    for c in ix.components():
        is_branch = ix.is_subclass(c, "BranchComponent")
        is_cf = ix.is_subclass(c, "ConstFlow")
        is_junction = c.name == "Junction"
        if not (is_branch or is_cf or is_junction):
            continue
        f = ix.lookup_method(c, "extract_results")
        run.analysed(f)
        for gas in (False, True):
            defs = _basic_defs(ix, gas)
            for mode in ("hydraulics", "sequential", "bidirectional", "heat"):
                for anyv in ((False, True) if ix.is_subclass(c, "BranchWInternalsComponent") else (False,)):
                    try:
                        ki, k = hook_summary(ix, c, "extract_results", {"fluid.is_gas": gas, "any:*": anyv},
                                             {"mode": PyVal(mode), "options": PyVal({"calc_compression_power": PyVal(True)})},
                                             partial=True)
                    except Unsupported as e:
                        raise AnalysisError("extract_results of %s not analysable: %s" % (c.name, e))
                    if k.error:
                        run.stat("extract_results_paths_partially_analysed")
                    for wv in ki.res_writes:
                        n_writes += 1
                        sel = wv["selector"]
                        flags = {a[1] for gsel in sel.dnf for a, pol in gsel if a[0] == "flag" and pol}
                        by_lookup = bool(sel.dnf) and all(any(a[0] == "flag" and pol and a[1].startswith("lookup:branch_active_")
                                                              for a, pol in gsel) for gsel in sel.dnf)
                        key = "%s|%s" % (c.name, wv["column"])
                        where = run.where(wv["fi"], wv["node"])
                        if is_branch:
                            strict = _strict_in(wv["value"], ("MDOTINIT",), defs)
                            run.ob(key + "|masked-or-strict", by_lookup or strict,
                                   "res_%s.%s is written only for active branches (selector %s) or is NaN whenever the branch's "
                                   "mass flow is NaN" % (ix.method_const(c, "table_name"), wv["column"], str(sel)[:80]), where,
                                   detail="value: %s" % str(wv["value"])[:200])
                        elif is_cf:
                            tbl = ix.method_const(c, "table_name")
                            ins = b_ne0(Poly.sym("tbl", tbl, "in_service"))
                            ok = (sel & ~ins).is_false() and any("isin" in str(a) and "nodes_connected_hyd" in str(a) for a in sel.atoms())
                            run.ob(key + "|in-service-and-junction-active", ok,
                                   "res_%s.%s is written only for in-service rows at hydraulically active junctions" % (tbl, wv["column"]),
                                   where, detail=str(sel)[:200])
                        elif is_junction and wv["column"] == "p_bar":
                            v = tonum(wv["value"])
                            strict = all(any(len(a) == 6 and a[1] == "col" and a[2] == "node_pit" and a[3] == "i" and a[5] == "PINIT"
                                             for a in p.symbols()) for gd, p in v.cases)
                            run.ob(key + "|strict-in-PINIT", strict,
                                   "res_junction.p_bar is the PINIT column, which is NaN-filled for unsupplied junctions", where)
    run.stat("result_writes_analysed", n_writes)
    run.floor(60)


def r4_3(run):
    ix = run.index
    f = ix.func(PS + ".reduce_pit")
    run.analysed(f)
    w = run.where(f, f.node)
    lk = [U(v).replace(" ", "") for _, v, _ in assignments(f.node, "reduced_node_lookup")]
    run.ob("reduce_pit|node-renumbering", lk == ["np.cumsum(nodes_connected)-1"],
           "active node number = cumsum(nodes_connected) - 1", w, detail=str(lk))
    st = {}
    for n in own_walk(f.node):
        if isinstance(n, ast.Assign) and isinstance(n.targets[0], ast.Subscript):
            t = U(n.targets[0]).replace(" ", "").replace('"', "'")
            st[t] = U(n.value).replace(" ", "").replace('"', "'")
    a = st.get("active_pit['branch'][:,FROM_NODE]", "")
    b = st.get("active_pit['branch'][:,TO_NODE]", "")
    ok = a == "reduced_node_lookup[net['_pit']['branch'][branches_connected,FROM_NODE].astype(np.int32)]" and \
        b == a.replace("FROM_NODE", "TO_NODE")
    run.ob("reduce_pit|both-ends-same-remap", ok,
           "FROM_NODE and TO_NODE of the active branches are both remapped through the same reduced_node_lookup", w, detail="%s / %s" % (a, b))
    pc = [n for n in own_walk(f.node) if isinstance(n, ast.If) and U(n.test).replace(" ", "") == "notnp.all(nodes_connected)"]
    run.ob("reduce_pit|remap-whenever-a-node-is-dropped", len(pc) == 1 and any("FROM_NODE" in U(s) for s in pc[0].body),
           "the remap is applied whenever not all nodes are connected", w)
    run.ob("reduce_pit|stores-active-pit", st.get("net['_active_pit']") == "active_pit" and st.get("net['_active_old_pit']") == "active_pit_old",
           "the reduced tables are stored as _active_pit / _active_old_pit", w)
    lkps = [U(v).replace(" ", "").replace('"', "'") for nm in ("nodes_connected", "branches_connected") for _, v, _ in assignments(f.node, nm)]
    run.ob("reduce_pit|lookups-of-mode", lkps == ["get_lookup(net,'node','active_'+mode)", "get_lookup(net,'branch','active_'+mode)"],
           "the masks used for the reduction are the active lookups of the requested mode", w)
    rl = ix.func(PS + ".reduce_lookups")
    run.analysed(rl)
    w = run.where(rl, rl.node)
    src = [U(n).replace(" ", "") for n in ast.walk(rl.node) if isinstance(n, (ast.Assign,))]
    run.ob("reduce_lookups|inactive=-1", "lu[elm_idx[~con_elems]]=-1" in src, "index entries of inactive elements become -1", w)
    ok = any(s.startswith("lu[elm_idx[con_elems]]=(index_lookup_reduced[ft_lookup[tbl][0]:ft_lookup[tbl][1]][con_elems]-1)") for s in src) \
        and "index_lookup_reduced=np.cumsum(connected_elements.astype(np.int32))" in src
    run.ob("reduce_lookups|active=cumsum-1", ok, "index entries of active elements become their position in the active pit", w)
    ok = "active_pit[comp_type]=np.copy(comp_pit[connected_elements,:])" in src
    run.ob("reduce_lookups|rows-of-connected", ok, "the active pit holds exactly the connected rows, in pit order", w)
    loops = [n for n in ast.walk(rl.node) if isinstance(n, ast.For) and "sorted(" in U(n.iter) and "n2t" in U(n.iter)]
    ok = len(loops) == 1 and any("ft_active[tbl]=(count,count+le)" == U(s).replace(" ", "") for s in loops[0].body) \
        and any("count+=le" == U(s).replace(" ", "") for s in loops[0].body)
    run.ob("reduce_lookups|from_to-rebuilt-in-table-order", ok,
           "the active from_to table is rebuilt cumulatively in table-number order", w)
    run.floor(9)


def r4_4(run):
    ix = run.index
    f = ix.func(PS + ".identify_active_nodes_branches")
    run.analysed(f)
    cfg = CFG(f.node)
    guards = [n for n in cfg.nodes if n.kind == "if" and U(n.test).replace(" ", "") == "np.all(~nodes_connected)"]
    ok = len(guards) == 1
    run.ob("identify|guard-present", ok, "identify_active_nodes_branches tests np.all(~nodes_connected)", run.where(f, f.node))
    if ok:
        gnode = guards[0]
        t = [b for b, lab in cfg.succ[gnode.id] if lab == "T"]
        raises = cfg.always_raises(t) and any(isinstance(x, ast.Raise) and "PipeflowNotConverged" in U(x.exc) for x in ast.walk(gnode.ast))
        run.ob("identify|raises-when-nothing-supplied", raises, "... and raises PipeflowNotConverged in that case", run.where(f, gnode.ast))
        ungated = cfg.reachable([cfg.entry], lambda a, b, lab: not (a == gnode.id and lab == "F"))
        stores = [n for n in cfg.nodes if n.kind == "stmt" and isinstance(n.ast, ast.Assign) and "_lookups" in U(n.ast.targets[0])]
        run.ob("identify|lookups-stored-after-guard", len(stores) == 2 and all(s.id not in ungated for s in stores),
               "the active lookups are stored only after the guard passed", run.where(f, f.node))
    # pipeflow: identification dominates the stages
    pf = ix.func(P + ".pipeflow")
    run.analysed(pf)
    cfg = CFG(pf.node)
    dom = cfg.dominators()
    ident = [n for n in cfg.nodes if any(callee_name(c) == "identify_active_nodes_branches" for c in calls_in(n))]
    for n in cfg.nodes:
        for c in calls_in(n):
            if callee_name(c) in ("hydraulics", "heat_transfer", "bidirectional", "use_given_hydraulic_results"):
                run.ob("pipeflow|identify-dominates|%s" % callee_name(c), any(i.id in dom[n.id] for i in ident),
                       "identify_active_nodes_branches is executed before %s on every path" % callee_name(c), run.where(pf, c))
    # thermal stages re-identify before reducing
    for name in ("heat_transfer", "solve_bidirectional"):
        g_ = ix.func(P + "." + name)
        run.analysed(g_)
        ident = [c for c in calls(g_.node, "identify_active_nodes_branches") if len(c.args) == 2 and U(c.args[1]) == "False"]
        red = [c for c in calls(g_.node, "reduce_pit") if any(k.arg == "mode" and const_str(k.value) == "heat_transfer" for k in c.keywords)]
        run.ob("%s|thermal-identification-before-reduction" % name,
               len(ident) >= 1 and len(red) >= 1 and min(c.lineno for c in ident) < min(c.lineno for c in red),
               "%s identifies the thermally active part before reducing the pit for heat transfer" % name, run.where(g_, g_.node))
    run.floor(6)


def r4_5(run):
    ix = run.index
    f = ix.func(PS + ".check_connectivity")
    run.analysed(f)
    w = run.where(f, f.node)
    sl = {}
    for n in ast.walk(f.node):
        if isinstance(n, ast.If) and U(n.test).replace(" ", "").replace('"', "'") == "mode=='hydraulics'":
            sl["hyd"] = U(n.body[0].value).replace(" ", "")
            sl["heat"] = U(n.orelse[0].value).replace(" ", "")
    run.ob("slacks|hydraulic", sl.get("hyd") == "np.where((node_pit[:,NODE_TYPE]==P)&nodes_connected)[0]",
           "hydraulic search starts from NODE_TYPE == P nodes that are in service", w, detail=sl.get("hyd"))
    run.ob("slacks|thermal", sl.get("heat") == "np.where(((node_pit[:,NODE_TYPE_T]==T)|(node_pit[:,NODE_TYPE_T]==GE))&nodes_connected)[0]",
           "thermal search starts from NODE_TYPE_T in {T, GE} nodes that are active", w, detail=sl.get("heat"))
    pcs = ix.func(PS + ".perform_connectivity_search")
    run.analysed(pcs)
    src = [U(n).replace(" ", "") for n in ast.walk(pcs.node) if isinstance(n, ast.Assign)]
    w = run.where(pcs, pcs.node)
    run.ob("flow-return|removed-before-search", "connect=branch_pit[:,FLOW_RETURN_CONNECT].astype(bool)" in src
           and "active_branch_lookup=active_branch_lookup&~connect" in src,
           "FLOW_RETURN_CONNECT branches do not establish hydraulic connectivity", w)
    run.ob("flow-return|readmitted-if-both-ends-connected",
           "active=nodes_connected[from_nodes]&nodes_connected[to_nodes]&branch_active" in src
           and "branches_connected[connect&active]=True" in src and "branch_active=branch_pit[:,ACTIVE].astype(bool)" in src,
           "they are re-admitted only if both end nodes are connected and the branch is in service", w)
    # order: removal, search, re-admission
    body = [n for n in ast.walk(pcs.node) if isinstance(n, ast.If)][0].body
    order = [U(s).replace(" ", "") for s in body]
    i_rm = next((i for i, s in enumerate(order) if s.startswith("active_branch_lookup=active_branch_lookup&~")), -1)
    i_se = next((i for i, s in enumerate(order) if "_connectivity(" in s), -1)
    i_re = next((i for i, s in enumerate(order) if s.startswith("branches_connected[connect&active]")), -1)
    run.ob("flow-return|order", 0 <= i_rm < i_se < i_re, "removal precedes the search, re-admission follows it", w)
    # writers of FLOW_RETURN_CONNECT
    writers = {}
    for c in ix.components():
        if not ix.is_subclass(c, "BranchComponent"):
            continue
        ki, k = hook_summary(ix, c, "create_pit_branch_entries", {"option:transient": False, "any:*": True}, partial=True)
        v = pit_cols(ki).get("FLOW_RETURN_CONNECT")
        if v is None:
            continue
        p = tonum(v)
        if p.plain() is not None and p.plain().is_zero():
            continue
        writers[c.name] = p
    ok = set(writers) == {"FlowControlComponent", "HeatConsumer"}
    run.ob("flow-return|writers", ok, "FLOW_RETURN_CONNECT is set only by FlowControl and HeatConsumer: %s" % sorted(writers), "component_models")
    if "FlowControlComponent" in writers:
        want = select(b_ne0(Poly.sym("tbl", "flow_control", "control_active")), g(Poly.const(1)), g(Poly()))
        fc = component(ix, "FlowControlComponent")
        m = ix.lookup_method(fc, "create_pit_branch_entries")
        check_equal(run, "flow-return|flow_control-only-control_active", writers["FlowControlComponent"], want,
                    "a flow controller is flow-return-connecting exactly when control_active", run.where(m, m.node))
    if "HeatConsumer" in writers:
        hc = component(ix, "HeatConsumer")
        m = ix.lookup_method(hc, "create_pit_branch_entries")
        check_equal(run, "flow-return|heat_consumer-always", writers["HeatConsumer"], g(Poly.const(1)),
                    "a heat consumer is always flow-return-connecting", run.where(m, m.node))
    # pressure controllers are directed
    pc = component(ix, "PressureControlComponent")
    ki, k = hook_summary(ix, pc, "create_pit_branch_entries", {"option:transient": False})
    m = ix.lookup_method(pc, "create_pit_branch_entries")
    check_equal(run, "directed|press_control", pit_cols(ki).get("DIRECTED", g(Poly.sym("missing"))), g(Poly.const(1)),
                "pressure controllers are directed branches (connectivity only from -> to)", run.where(m, m.node))
    run.floor(9)


def r4_7(run):
    ix = run.index
    f = ix.func(PS + "._connectivity")
    run.analysed(f)
    w = run.where(f, f.node)
    A = {U(n.targets[0]): n.value for n in own_walk(f.node) if isinstance(n, ast.Assign) and isinstance(n.targets[0], ast.Name)}
    S = lambda nm: U(A.get(nm)).replace(" ", "")

    def parts(nm):
        v = A.get(nm)
        if isinstance(v, ast.Call) and callee_name(v) == "concatenate" and isinstance(v.args[0], ast.List):
            return [U(e).replace(" ", "") for e in v.args[0].elts]
        return []
    fn, tn = parts("fn_matrix"), parts("tn_matrix")
    ok = len(fn) == len(tn) == 3 and fn[0] == "active_from_nodes" and tn[0] == "active_to_nodes" \
        and fn[1] == "active_to_nodes_ud" and tn[1] == "active_from_nodes_ud" \
        and fn[2] == "np.full(len(slack_nodes),len_nodes,dtype=np.int32)" and tn[2] == "slack_nodes"
    run.ob("adjacency|pairwise-aligned", ok,
           "edges: (from, to) of active branches, (to, from) of undirected active branches, (virtual node, slack)", w,
           detail="%s / %s" % (fn, tn))
    defs = {"active_from_nodes": "from_nodes[active_branch_lookup]", "active_to_nodes": "to_nodes[active_branch_lookup]",
            "active_from_nodes_ud": "from_nodes[active_branch_lookup&~directed]", "active_to_nodes_ud": "to_nodes[active_branch_lookup&~directed]",
            "nobranch": "np.sum(active_branch_lookup)", "nobranch_ud": "np.sum(active_branch_lookup&~directed)",
            "from_nodes": "branch_pit[:,FROM_NODE].astype(np.int32)", "to_nodes": "branch_pit[:,TO_NODE].astype(np.int32)",
            "directed": "branch_pit[:,DIRECTED].astype(bool)", "len_nodes": "len(node_pit)"}
    for k, v in defs.items():
        run.ob("adjacency|def|%s" % k, S(k) == v, "%s = %s" % (k, v), w, detail=S(k))
    adj = A.get("adj_matrix")
    ok = isinstance(adj, ast.Call) and callee_name(adj) == "coo_matrix"
    if ok:
        a0 = U(adj.args[0]).replace(" ", "")
        sh = [U(k.value).replace(" ", "") for k in adj.keywords if k.arg == "shape"]
        ok = a0 == "(np.ones(nobranch+nobranch_ud+len(slack_nodes)),(fn_matrix,tn_matrix))" and sh == ["(len_nodes+1,len_nodes+1)"]
    run.ob("adjacency|data-length-and-shape", ok,
           "the data vector has one entry per edge and the matrix has one extra (virtual) node", w)
    ok = S("reachable_nodes").startswith("reachable_nodes[reachable_nodes!=len_nodes]") or any(
        U(n).replace(" ", "") == "reachable_nodes=reachable_nodes[reachable_nodes!=len_nodes]" for n in own_walk(f.node))
    bfs = [U(n.value).replace(" ", "") for n in own_walk(f.node) if isinstance(n, ast.Assign) and "breadth_first_order" in U(n.value)]
    run.ob("search|starts-at-virtual-node", bfs == ["csgraph.breadth_first_order(adj_matrix,len_nodes,True,False)"] and ok,
           "the directed search starts at the virtual node, which is removed from the result", w, detail=str(bfs))
    run.ob("search|branches-connected", S("branches_connected") == "active_branch_lookup&nodes_connected[from_nodes]",
           "a branch is connected iff it is active and its from node was reached", w)
    chk = [n for n in own_walk(f.node) if isinstance(n, ast.If) and "active_from_nodes_ud" in U(n.test) and any(isinstance(x, ast.Raise) for x in n.body)]
    run.ob("search|undirected-end-consistency-asserted", len(chk) == 1,
           "both ends of an undirected active branch must have the same reachability (asserted)", w)
    run.floor(15)


RULES = [("R4.1", r4_1), ("R4.2", r4_2), ("R4.3", r4_3), ("R4.4", r4_4), ("R4.5", r4_5), ("R4.7", r4_7)]
