"""C14 -- options resolve by the documented precedence: call > user options > defaults.

 R14.1 precedence, iter expansion, couplings and carried-through unknown options by exhaustive abstract
       interpretation of init_options over presence patterns (compared with an executable model of the documentation)
 R14.2 resolving options never mutates the stored defaults, the stored user options or the caller's kwargs
 R14.5 documented defaults of init_options = code defaults; every option read in the package has a default
 R14.6 set_user_pf_options stores into the user layer only
"""
import ast
import copy
import itertools
import re

from ..absint import ANet, Interp, Opaque, Oracle, Raised, Tok
from ..astutil import U, calls, callee_name, const_str, docstring, own_walk
from ..source import AnalysisError

PS = "pandapipes.pf.pipeflow_setup"

EXPLANATION = (
    'init_options (with _iteration_check and _mode_check) is interpreted abstractly: the three layers are dictionaries of'
    ' provenance tokens (default:k, user:k, call:k); for every option key of default_options, for `iter`, for an unknown '
    'key and for every presence pattern of the key in the three layers (and, for `iter`, every presence pattern of the '
    'three stage-specific limits in the same and the other layer) the resolved net._options is compared with an '
    'executable model of the documented semantics: call > user > default; `iter` fills the stage limits of its own layer '
    'only where that layer does not set them; reuse_internal_data only together with only_update_hydraulic_matrix; mode '
    "'all' -> 'sequential'; numba falls back when unavailable; fluid name added; interactive_plotting and t_start "
    'removed; everything else carried through unchanged. The enumeration is exhaustive over these patterns. After every '
    'run the module-level default_options, net.user_pf_options and the kwargs dictionary are compared with pristine '
    'copies (no mutation). The docstring bullets of init_options are compared with default_options, and every option name'
    ' read through get_net_option(s)/options[...] in the package must have a default. (R14.8) set_user_pf_options stores '
    'exactly the keyword arguments it is given and hands them to no option-resolving function before storing (shorthands '
    'are resolved per layer at merge time, so the order of storing cannot matter). (R14.7) every call site of '
    'init_options in the package hands its own **kwargs over unchanged, so an option given in the call -- including the '
    'value None and unknown options -- reaches the merge. (R14.9, shared with C05 R5.4) each stage (hydraulics, '
    'heat_transfer, bidirectional) hands newton_raphson the iteration-limit option of its own name (max_iter_hyd / '
    'max_iter_therm / max_iter_bidirect), so the value that won the precedence for that key is the one that bounds the '
    'stage.')
ASSUMPTIONS = ["copy.deepcopy, dict displays with ** and dict methods have their Python semantics",
               "get_fluid(net).name does not depend on the options"]
TECHNIQUE = "exhaustive abstract interpretation of the option merge over provenance tokens, compared with an executable model of the documentation; writer/reader table agreement"
EXPLANATION += (' ' + '(R14.10) the functions that resolve options and modes (init_options, _iteration_check, _mode_check, set_user_pf_options, get_net_option(s)) keep no state between calls: no memoising decorator, no module-level container changed, no global rebound -- a deprecated value is mapped every time, not only the first.')
EXPLANATION += (' ' + '(R14.5) the documented defaults of init_options equal default_options, and every option name the package reads -- get_net_option(s), options[name] and, since round 7, options.get(name, fallback) -- is a defined option: a consumer that reads a name no layer defines never sees the value the precedence picked. (R14.6) set_user_pf_options: reset empties the stored layer first, the keyword arguments are stored as given.')
EXPLANATION += (' ' + '(R14.11) in the functions reachable from pipeflow, outside the merge itself, nothing writes into the resolved options (set_net_option, item stores) except the damping factor alpha, and no name bound from get_net_option(s) is bound again in its function.')

STAGE_KEYS = ("max_iter_hyd", "max_iter_therm", "max_iter_bidirect")


class OptOracle(Oracle):
    def truth(self, a):
        if isinstance(a, Tok):
            return True       # provenance tokens stand for non-empty / truthy user values unless stated otherwise
        return Oracle.truth(self, a)

    def compare(self, op, a, b):
        if op in ("==", "!="):
            same = isinstance(a, Tok) and isinstance(b, Tok) and a == b
            return same if op == "==" else not same
        return Oracle.compare(self, op, a, b)


def _defaults(ix):
    mi = ix.module(PS)
    if "default_options" not in mi.assigns:
        raise AnalysisError("default_options vanished")
    return ix.eval_const(PS, mi.assigns["default_options"])


def model(defaults, user, call, numba_installed):
    """executable model of the documented semantics (doc/source/pipeflow/options.rst and init_options docstring)"""
    def expand(layer):
        layer = dict(layer)
        if layer and layer.get("iter") is not None:
            for k in STAGE_KEYS:
                if k not in layer:
                    layer[k] = layer["iter"]
        return layer
    res = dict(defaults)
    res.update(expand(user))
    res.update(expand(call))
    res.pop("interactive_plotting", None)
    res.pop("t_start", None)
    if not _truthy(res["only_update_hydraulic_matrix"]):
        res["reuse_internal_data"] = False
    if not numba_installed:
        res["use_numba"] = False
    res["fluid"] = Tok("fluid-name")
    if res["mode"] == "all":
        res["mode"] = "sequential"
    return res


def _truthy(v):
    return True if isinstance(v, Tok) else bool(v)


def _run(ix, user, call, numba_installed, has_user=True):
    it = Interp(ix, OptOracle(), handlers={"get_fluid": lambda itp, a, k: ANet({"name": Tok("fluid-name")})})
    it.globals[(PS, "numba_installed")] = numba_installed
    net = ANet()
    if has_user:
        net["user_pf_options"] = user
    f = ix.func(PS + ".init_options")
    kw = dict(call)
    pristine = (copy.deepcopy(user), copy.deepcopy(kw))
    it.call_function(f, [net], kw)
    dflt_after = it.globals.get((PS, "default_options"))
    return net.get("_options"), dflt_after, (user, kw), pristine, it


def r14_1(run):
    ix = run.index
    defaults = _defaults(ix)
    f = ix.func(PS + ".init_options")
    run.analysed(f)
    run.analysed(ix.func(PS + "._iteration_check"))
    run.analysed(ix.func(PS + "._mode_check"))
    w = run.where(f, f.node)
    keys = sorted(defaults) + ["iter", "my_unknown_option", "interactive_plotting", "t_start", "hyd_flag"]
    n_cases, bad, mut_bad = 0, {}, {}
    semantic = {"only_update_hydraulic_matrix": [False, True], "reuse_internal_data": [False, True], "use_numba": [False, True],
                "mode": ["hydraulics", "all", "sequential"]}

    def one(user, call, numba, tag, has_user=True):
        nonlocal n_cases
        n_cases += 1
        try:
            got, dflt_after, (u_after, kw_after), (u0, kw0), it = _run(ix, copy.deepcopy(user), copy.deepcopy(call), numba, has_user)
        except Raised as r:
            bad.setdefault("raises", (tag, user, call, str(r)))
            return
        want = model(defaults, user if has_user else {}, call, numba)
        if got != want:
            diff = {k: (got.get(k, "<absent>"), want.get(k, "<absent>")) for k in set(got) | set(want) if got.get(k, "<absent>") != want.get(k, "<absent>")}
            kind = "precedence" if not any(k in ("iter",) + STAGE_KEYS for k in diff) else "iter-expansion"
            if any(k in ("reuse_internal_data", "use_numba", "mode", "fluid", "interactive_plotting", "t_start") for k in diff):
                kind = "coupling"
            bad.setdefault(kind, dict(case=tag, user=user, call=call, numba=numba, differences=diff))
        if dflt_after is not None and dflt_after != defaults:
            mut_bad.setdefault("default_options", dict(case=tag, user=user, call=call))
        if u_after != u0:
            mut_bad.setdefault("user_pf_options", dict(case=tag, user=user, call=call, after=u_after))
        if kw_after != kw0:
            mut_bad.setdefault("kwargs", dict(case=tag, call=call, after=kw_after))

    # (a) every key, every presence pattern
    for k in keys:
        for in_user, in_call in itertools.product((False, True), repeat=2):
            vals_u = semantic.get(k, [Tok("user:" + k)])
            vals_c = semantic.get(k, [Tok("call:" + k)])
            for vu in (vals_u if in_user else [None]):
                for vc in (vals_c if in_call else [None]):
                    user = {k: vu} if in_user else {}
                    call = {k: vc} if in_call else {}
                    one(user, call, True, "key %s user=%s call=%s" % (k, in_user, in_call))
    # (b) iter together with the stage limits in either layer
    for iu, ic in itertools.product((False, True), repeat=2):
        for su in itertools.product((False, True), repeat=3):
            for sc in itertools.product((False, True), repeat=3):
                user = {"iter": Tok("user:iter")} if iu else {}
                call = {"iter": Tok("call:iter")} if ic else {}
                for k, a, b in zip(STAGE_KEYS, su, sc):
                    if a:
                        user[k] = Tok("user:" + k)
                    if b:
                        call[k] = Tok("call:" + k)
                one(user, call, True, "iter user=%s call=%s stage-user=%s stage-call=%s" % (iu, ic, su, sc))
    # (c) couplings
    for upd, reuse, numba_opt, numba_inst, mode in itertools.product((False, True), (False, True), (False, True), (False, True),
                                                                      ("all", "hydraulics", "bidirectional")):
        one({"only_update_hydraulic_matrix": upd}, {"reuse_internal_data": reuse, "use_numba": numba_opt, "mode": mode}, numba_inst,
            "coupling upd=%s reuse=%s numba=%s/%s mode=%s" % (upd, reuse, numba_opt, numba_inst, mode))
    # (d) no user layer at all / empty layers / explicit None for iter
    one({}, {}, True, "no layers", has_user=False)
    one({}, {"iter": None, "max_iter_hyd": Tok("call:max_iter_hyd")}, True, "iter=None")
    run.stat("abstract_cases_enumerated", n_cases)
    texts = {"precedence": "for every key and presence pattern the resolved value is the call's, else the user's, else the default; unknown keys are carried through",
             "iter-expansion": "`iter` sets the three stage limits of its own layer only where that layer does not set them",
             "coupling": "reuse_internal_data only with only_update_hydraulic_matrix; mode 'all' -> 'sequential'; numba fallback; fluid added; "
                         "interactive_plotting / t_start removed; nothing else is changed after the merge",
             "raises": "init_options does not raise for any combination of layers"}
    for kind, text in texts.items():
        run.ob("init_options|%s" % kind, kind not in bad, text, w, detail=None if kind not in bad else str(bad[kind])[:600])
    run.cur_rule = "R14.2"
    for what in ("default_options", "user_pf_options", "kwargs"):
        run.ob("init_options|does-not-mutate|%s" % what, what not in mut_bad,
               "resolving options leaves %s unchanged" % what, w, detail=None if what not in mut_bad else str(mut_bad[what])[:400])
    # who may write default_options
    writers = []
    for fi in ix.all_functions():
        for n in ast.walk(fi.node):
            tg = n.targets if isinstance(n, ast.Assign) else ([n.target] if isinstance(n, ast.AugAssign) else [])
            for t in tg:
                if isinstance(t, ast.Subscript) and U(t.value) == "default_options":
                    writers.append(fi.qualname)
            if isinstance(n, ast.Call) and isinstance(n.func, ast.Attribute) and U(n.func.value) == "default_options" \
                    and n.func.attr in ("update", "pop", "clear", "setdefault", "popitem"):
                writers.append(fi.qualname)
    run.ob("default_options|no-writer", not writers, "no function of the package stores into default_options", PS, detail=str(writers))
    run.cur_rule = "R14.1"
    run.floor(4)
    run.floor(4, "R14.2")


def r14_5(run):
    ix = run.index
    defaults = _defaults(ix)
    f = ix.func(PS + ".init_options")
    doc = docstring(f.node)
    w = run.where(f, f.node)
    bullets = re.findall(r"-\s+\*\*(\w+)\*\*\s+\(([^)]*)\):\s+(\S+)", doc)
    run.ob("docstring|bullets-found", len(bullets) >= 12, "option bullets found in the init_options docstring (%d)" % len(bullets), w)
    for name, typ, val in bullets:
        val = val.rstrip(".,;")
        if name not in defaults:
            run.ob("docstring|%s|known-option" % name, False, "documented option %s exists in default_options" % name, w)
            continue
        dv = defaults[name]
        try:
            lit = ast.literal_eval(val)
        except Exception:
            lit = val.strip("\"'")
        ok = (lit == dv) or (isinstance(dv, float) and isinstance(lit, (int, float)) and abs(float(lit) - dv) <= 1e-12 * max(1, abs(dv)))
        run.ob("docstring|%s|default" % name, ok, "documented default of %s (%s) equals the code default (%r)" % (name, val, dv), w)
    # every option that is read has a default
    read = {}
    fallbacks = []
    for fi in ix.all_functions():
        if fi.module.startswith("pandapipes.converter") or fi.module.startswith("pandapipes.plotting"):
            continue
        for c in calls(fi.node):
            nm = callee_name(c)
            if nm == "get_net_option" and len(c.args) == 2 and const_str(c.args[1]):
                read.setdefault(const_str(c.args[1]), fi)
            elif nm == "get_net_options":
                for a in c.args[1:]:
                    if const_str(a):
                        read.setdefault(const_str(a), fi)
        for n in ast.walk(fi.node):
            if isinstance(n, ast.Subscript) and U(n.value) in ("options", 'net["_options"]', "net['_options']") and const_str(n.slice) \
                    and isinstance(n.ctx, ast.Load):
                read.setdefault(const_str(n.slice), fi)
        # options.get("name", fallback): the same read with a fallback for nets whose options predate the option
        for c in calls(fi.node):
            if isinstance(c.func, ast.Attribute) and c.func.attr == "get" and c.args and const_str(c.args[0]) \
                    and U(c.func.value) in ("options", 'net["_options"]', "net['_options']", "net._options", "opts"):
                read.setdefault(const_str(c.args[0]), fi)
                if len(c.args) == 2:
                    fallbacks.append((const_str(c.args[0]), c.args[1], fi, c))
    exempt = {"fluid": "added by init_options", "simulation_time_step": "transient runs only (set by the transient time-series loop)"}
    # (the fallback literal itself is not compared: the merged options always hold every default, so a fallback is never in force
    #  -- calc_lambda's `options.get("max_iter_colebrook", 100)` next to the default 10 is dead, not a second default)
    for k, fi in sorted(read.items()):
        ok = k in defaults or k in exempt
        run.ob("option-read|%s" % k, ok, "option %r read in %s has a default%s" % (k, fi.short, (" (%s)" % exempt[k]) if k in exempt else ""),
               run.where(fi, fi.node))
    run.stat("option_names_read", len(read))
    run.floor(25)


def r14_6(run):
    ix = run.index
    f = ix.func(PS + ".set_user_pf_options")
    run.analysed(f)
    w = run.where(f, f.node)
    defaults = _defaults(ix)
    it = Interp(ix, OptOracle())
    net = ANet({"user_pf_options": {"a": Tok("old")}})
    it.call_function(f, [net], {"tol_p": Tok("new"), "b": Tok("b")})
    ok = net["user_pf_options"] == {"a": Tok("old"), "tol_p": Tok("new"), "b": Tok("b")} and it.globals.get((PS, "default_options"), defaults) == defaults
    run.ob("set_user_pf_options|updates-user-layer", ok, "new options are merged into net.user_pf_options, defaults untouched", w,
           detail=str(net["user_pf_options"]))
    net = ANet({"user_pf_options": {"a": Tok("old")}})
    it.call_function(f, [net], {"reset": True, "tol_p": Tok("new")})
    run.ob("set_user_pf_options|reset", net["user_pf_options"] == {"tol_p": Tok("new")}, "reset=True discards the previous user options", w)
    net = ANet()
    it.call_function(f, [net], {"tol_p": Tok("new")})
    run.ob("set_user_pf_options|creates-layer", net.get("user_pf_options") == {"tol_p": Tok("new")}, "the layer is created when missing", w)
    # only writers of net.user_pf_options
    writers = set()
    for fi in ix.all_functions():
        for n in ast.walk(fi.node):
            tg = n.targets if isinstance(n, ast.Assign) else []
            for t in tg:
                s = U(t).replace('"', "'")
                if s in ("net['user_pf_options']", "net.user_pf_options") or s.startswith("net.user_pf_options[") or s.startswith("net['user_pf_options']["):
                    writers.add(fi.short)
            if isinstance(n, ast.Call) and isinstance(n.func, ast.Attribute) and n.func.attr in ("update", "pop", "clear") \
                    and U(n.func.value).replace('"', "'") in ("net.user_pf_options", "net['user_pf_options']"):
                writers.add(fi.short)
    run.ob("user_pf_options|writers", writers <= {"set_user_pf_options"}, "net.user_pf_options is written only by set_user_pf_options: %s" % sorted(writers), PS)
    run.floor(4)


def r14_7(run):
    """the call layer that init_options merges is exactly what the caller passed: every call site of init_options in the package
    hands over its own **kwargs unchanged (no filtering, no defaults mixed in), so an option given in the call -- including the
    value None and unknown options -- reaches the merge"""
    from ..arrnf import ANF, show as tshow
    ix = run.index
    io = ix.func("pandapipes.pf.pipeflow_setup.init_options")
    n = 0
    for f in ix.all_functions():
        if ".test." in f.qualname or f.qualname == io.qualname:
            continue
        if not any(isinstance(c.func, (ast.Name, ast.Attribute)) and (getattr(c.func, "id", None) == "init_options" or getattr(c.func, "attr", None) == "init_options")
                   for c in ast.walk(f.node) if isinstance(c, ast.Call)):
            continue
        r = ANF(ix, f).run()
        for c in r.calls():
            if c.fn != ("f", io.qualname):
                continue
            n += 1
            run.analysed(f)
            kwname = f.node.args.kwarg.arg if f.node.args.kwarg else None
            star = [v for k, v in c.kw if k == "**"]
            named = [k for k, v in c.kw if k != "**"]
            ok = kwname is not None and star == [("n", kwname)] and not named and len(c.args) == 1
            run.ob("%s|call-layer-passed-unchanged" % f.short, ok,
                   "%s hands its keyword arguments to init_options unchanged" % f.short, run.where(f, c.node),
                   detail="**%s %s" % ([tshow(s_)[:120] for s_ in star], named))
    run.ob("init_options-call-sites", n >= 1, "call sites of init_options: %d" % n, "src/pandapipes")
    run.floor(2)


def r14_8(run):
    """the user layer is stored as given: set_user_pf_options does not interpret what it stores (no expansion of `iter`, no mode
    mapping at store time).  Shorthands are resolved per layer when the layers are merged; resolving them when they are stored
    makes the result depend on the order in which options were stored"""
    from ..arrnf import ANF, base_of, roots, key as tkey, show as tshow
    ix = run.index
    f = ix.func("pandapipes.pf.pipeflow_setup.set_user_pf_options")
    run.analysed(f)
    w = run.where(f, f.node)
    kwname = f.node.args.kwarg.arg if f.node.args.kwarg else None
    if kwname is None:
        raise AnalysisError("set_user_pf_options no longer takes **kwargs")
    r = ANF(ix, f, param_alias={f.params()[0]: "net"}).run()
    from ..arrnf import ite_leaves
    def is_user_layer(t):
        # net['user_pf_options'] (possibly the dict freshly stored there on one arm of the reset test)
        return all(leaf[0] == "new" or (leaf[0] == "idx" and leaf[2] == (("c", "user_pf_options"),)) or
                   (leaf[0] == "attr" and leaf[2] == "user_pf_options") for _, leaf in ite_leaves(t))
    ups = [c for c in r.calls() if c.fn[0] == "attr" and c.fn[2] == "update" and is_user_layer(c.fn[1])]
    run.ob("set_user_pf_options|stores-the-given-options", len(ups) == 1 and ups[0].args == (("n", kwname),) and not ups[0].cond,
           "set_user_pf_options stores exactly the keyword arguments it was given", w, detail=tshow(ups[0].args[0])[:120] if ups and ups[0].args else None)
    interp = [c for c in r.calls() if c.fn[0] == "f" and any(a == ("n", kwname) or a == ("star", ("n", kwname)) for a in c.args + tuple(v for _, v in c.kw))]
    run.ob("set_user_pf_options|no-interpretation-at-store-time", not interp,
           "the keyword arguments are not handed to an option-resolving function before they are stored", run.where(f, interp[0].node) if interp else w,
           detail="; ".join(tshow(c.term)[:80] for c in interp))
    other = [s_ for s_ in r.stores() if s_.index == (("c", "user_pf_options"),) and base_of(s_.base) == ("n", "net")]
    run.ob("set_user_pf_options|reset-only-to-empty", all(s_.value[0] == "new" and s_.value[2] == "dict" for s_ in other),
           "the stored layer is replaced only by an empty dictionary (reset)", w)
    run.floor(3)


def r14_9(run):
    """the merged options reach the solver under the right names: every stage reads the iteration limit of its own mode
    (max_iter_hyd / max_iter_therm / max_iter_bidirect), so the value in force is the one the precedence rules selected for
    that mode (shared with C05 R5.4)"""
    from .c05 import stage_iteration_options
    stage_iteration_options(run)
    run.floor(6)


def r14_10(run):
    """the options in force are a function of the three layers alone: init_options, the helpers it calls and the option accessors
    keep no state between calls (a module-level "already warned" set, a memoised result) -- shared machinery with C12 R12.8"""
    from .c12 import hidden_state_sites
    from ..callgraph import CallGraph
    ix = run.index
    cg = CallGraph(ix)
    roots = [ix.func(PS + "." + n_) for n_ in ("init_options", "set_user_pf_options", "get_net_option", "get_net_options", "set_net_option")]
    funcs = cg.reachable(roots)
    sites = hidden_state_sites(ix, list(funcs.values()))
    for f, n, what in sites:
        run.analysed(f)
        run.ob("%s|hidden-state|%s" % (f.short, what.split(" (")[0][:50]), False, "option resolution keeps no state between calls: " + what, run.where(f, n))
    run.ob("option-functions|stateless", len(funcs) >= 5 and not sites,
           "%d functions of the option resolution keep no state between calls" % len(funcs), PS)
    run.floor(1)


RULES = [("R14.1", r14_1), ("R14.5", r14_5), ("R14.6", r14_6), ("R14.7", r14_7), ("R14.8", r14_8), ("R14.9", r14_9), ("R14.10", r14_10)]


def option_overrides(ix):
    """(writes into the resolved options outside init_options, rebindings of names that hold an option value, number of option
    reads looked at) in the functions reachable from pipeflow"""
    from ..callgraph import CallGraph
    cg = CallGraph(ix)
    funcs = [f for f in cg.reachable([ix.func("pandapipes.pipeflow.pipeflow")]).values() if f.module.startswith("pandapipes")]
    writes, rebinds, n = [], [], 0
    merging = set(cg.reachable([ix.func(PS + ".init_options")]))          # the merge itself and its helpers (R14.1 - R14.4 decide them)
    for f in funcs:
        if f.qualname in merging or f.name == "set_net_option":
            continue
        node = f.raw_node
        for c in calls(node):
            if callee_name(c) == "set_net_option":
                sp_ = ix.func(PS + ".set_net_option").params()
                bound = dict(zip(sp_, c.args))
                bound.update({k.arg: k.value for k in c.keywords if k.arg})
                if len(sp_) > 1 and sp_[1] in bound:
                    writes.append((f, c, const_str(bound[sp_[1]]) or U(bound[sp_[1]])))
        for s_ in ast.walk(node):
            tg = s_.targets if isinstance(s_, ast.Assign) else ([s_.target] if isinstance(s_, ast.AugAssign) else [])
            for t in tg:
                if isinstance(t, ast.Subscript) and U(t.value).replace('"', "'") in ("net['_options']", "net._options", "options", "opts"):
                    writes.append((f, s_, const_str(t.slice) or U(t.slice)))
        # names that hold an option value ...
        holds = {}
        for s_ in ast.walk(node):
            if isinstance(s_, ast.Assign) and len(s_.targets) == 1 and isinstance(s_.value, ast.Call) \
                    and callee_name(s_.value) in ("get_net_option", "get_net_options"):
                t = s_.targets[0]
                names = [t] if isinstance(t, ast.Name) else (list(t.elts) if isinstance(t, (ast.Tuple, ast.List)) else [])
                opts_ = [const_str(a) for a in s_.value.args[1:]] or [const_str(k.value) for k in s_.value.keywords if k.arg == "option_name"]
                for k, nm in enumerate(names):
                    if isinstance(nm, ast.Name):
                        n += 1
                        holds[nm.id] = (s_, opts_[k] if k < len(opts_) else None)
        # ... are not bound again
        for s_ in ast.walk(node):
            tg = []
            if isinstance(s_, ast.Assign):
                tg = s_.targets
            elif isinstance(s_, (ast.AugAssign, ast.AnnAssign)):
                tg = [s_.target]
            for t in tg:
                for x in ast.walk(t):
                    if isinstance(x, ast.Name) and isinstance(x.ctx, ast.Store) and x.id in holds and holds[x.id][0] is not s_:
                        rebinds.append((f, s_, "%s (option %s)" % (x.id, holds[x.id][1])))
    return writes, rebinds, n


ADAPTED_OPTIONS = {"alpha": "the damping factor is adapted by set_damping_factor when nonlinear_method is 'automatic' (documented)"}


def r14_11(run):
    """the option values in force during a calculation are the ones the three layers resolved: after init_options nothing reachable
    from pipeflow writes into the resolved options -- except the damping factor, which the automatic damping adapts -- and no name that
    holds an option value read through get_net_option(s) is bound again in its function (`if mode == 'bidirectional': nonlinear_method =
    'constant'` overrules the value the precedence picked without leaving a trace in any layer)."""
    ix = run.index
    writes, rebinds, n = option_overrides(ix)
    for f, node, key in writes:
        run.analysed(f)
        run.ob("%s|writes-option|%s" % (f.short, key), key in ADAPTED_OPTIONS,
               "resolved options are not overwritten during the calculation (except %s)" % ", ".join(sorted(ADAPTED_OPTIONS)), run.where(f, node))
    for f, node, what in rebinds:
        run.analysed(f)
        run.ob("%s|rebinds-option-value|%s" % (f.short, what), False,
               "a name holding an option value is not bound to something else afterwards", run.where(f, node))
    if n < 3:
        # how many names hold option values is not part of the property; with next to none the scan has lost its subject
        raise AnalysisError("only %d names bound from get_net_option(s) found in the functions reachable from pipeflow" % n)
    run.ob("option-reads-scanned", not rebinds, "names bound from get_net_option(s) in functions reachable from pipeflow: %d, none bound again" % n,
           "src/pandapipes")
    run.floor(2)


RULES.append(("R14.11", r14_11))

EXPLANATION += (' ' + '(R14.12, shared with C12 R12.1) a resolved option value is never written into the tables of the net: a default filled in for missing '
                'entries (ambient_temperature for pipes without text_k) goes into the pit, so the next call resolves the option anew.')


def r14_12(run):
    """precedence holds for every call, not only the first: an option used as the fill value of missing table entries must not be stored
    in the table (an in-place fill through `.values` makes the first call's value an explicit entry that overrules the layers of all
    later calls) -- shared with C12 R12.1 (no in-place write to user tables reachable from pipeflow)."""
    from .c12 import r12_1
    r12_1(run)


RULES.append(("R14.12", r14_12))
