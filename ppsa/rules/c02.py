"""C02 -- every flowing branch obeys the documented pressure-loss law.

 R2.1 the hydraulic residual / friction loss of the numpy kernels equals the transcribed law
      (kernel level for liquid and gas; end-to-end through calculate_derivatives_hydraulic for liquids)
 R2.2 friction-factor models (Nikuradse liquid/gas, Swamee-Jain, Colebrook residual and its derivative)
 R2.3 physical constants
 R2.4 wiring: ambient-pressure writers, RE/LAMBDA columns, result dictionary and result-key tables
 R2.5 state equations (barometric formula, real-gas density, norm factors)
 R2.6 every writer of AREA writes D^2*pi/4 of the same rows
 R2.7 unit-suffix conversions (_mm, _km) of user columns on their way into the pit
 R2.8 the branch Jacobian entries are the derivatives of the residual (thorough tier)
"""
import ast

from .. import phys
from ..algebra import BExpr, GExpr, Poly, apply_fn, b_le0, b_ne0, diff, frac, select
from ..astutil import U, assignments, calls, callee_name, const_str, own_walk, returns
from ..kernelir import KInterp, PyVal, Unsupported
from ..pathcond import parents, path_condition
from ..phys import DC, DT, PT, bcol, check_equal, g, hook_summary, ncol, run_kernel, run_spec
from ..source import AnalysisError

RE_ = "pandapipes.pf.result_extraction"
CT = "pandapipes.component_models.component_toolbox"

EXPLANATION = (
    "The numeric kernels are translated by forward substitution into exact rational normal forms and compared "
    "with a transcription of the documented laws (ppsa/spec/laws.py, written independently in velocity form and "
    "never executed): (R2.1) load_vec and dp_frict_loss of derivatives_hydraulic_incomp_np / _comp_np equal the "
    "Darcy-Weisbach + hydrostatic + lumped-loss law resp. the real-gas law with compressibility and mean "
    "pressure, and for liquids the complete chain calculate_derivatives_hydraulic -> LOAD_VEC_BRANCHES, "
    "DP_FRICT_LOSS, RE, LAMBDA equals the law expressed in pit columns and fluid properties (absolute pressure = "
    "PINIT+PAMB of the own end node, height difference from-to, mean density/viscosity); (R2.2) Nikuradse "
    "(liquid and gas form), Swamee-Jain, Reynolds number, the Colebrook implicit residual and its analytic "
    "derivative; (R2.3) constants; (R2.4) PAMB writers use the barometric formula of the node's own height, "
    "RE/LAMBDA columns are written from calc_lambda's outputs, get_basic_branch_results maps keys to the right "
    "columns, every (result column, key) pair of every extract_results refers to an existing key and an existing "
    "result column of the same fluid class; (R2.5) barometric formula, real-gas density, norm factors; (R2.6, now part of R2.10: the "
    "statement-level form evaluated the right-hand side of the AREA store alone and mis-read a local alias of the D column) "
    "AREA = D^2*pi/4 of the finally stored D; (R2.7) _mm/_km columns are scaled by 1000 on their way into the pit; (R2.8, thorough) the "
    "Jacobian slots are the symbolic derivatives of the residual. The numba twins are tied to the numpy kernels by "
    "C07. (R2.9, shared with C07 R7.1) the numba twins of the hydraulic kernels compute the same residual and reported quantities as the numpy kernels the law is compared with. Decided: the residual driven to zero IS the documented law and reported quantities are wired to it; not "
    "decided: accuracy of a returned solution (C05's tolerance) or correctness of property data.")
ASSUMPTIONS = [phys.POSITIVITY_TEXT,
               "the documented law is the transcription in /verif/ppsa/spec/laws.py (pipe_component.rst, Eberhard 1990, Cerbe 2008)",
               "numpy elementwise semantics of the operators used in the kernels"]
TECHNIQUE = "value numbering of kernels and of the whole derivative calculation into rational normal forms, compared with a transcribed specification; symbolic differentiation; writer/reader table agreement"
EXPLANATION += (' ' + '(R2.11, shared with C06 R6.2) the per-pipe means of sectioned pipes (lambda, reynolds, mean velocity, friction loss) divide sums by counts in the same (sorted-label) order and are placed through the same permutation.')

P_FROM, P_TO = Poly.sym("p_init_i_abs"), Poly.sym("p_init_i1_abs")
DH, RHO, RHON = Poly.sym("height_difference"), Poly.sym("rho"), Poly.sym("rho_n")
M = bcol("MDOTINIT")


def r2_1(run):
    ix = run.index
    # ---- kernel level, liquid
    f = ix.func(DT + ".derivatives_hydraulic_incomp_np")
    run.analysed(f)
    k, _ = run_kernel(ix, None, fi=f)
    out = dict(zip(k.output_names, k.outputs))
    spec = run_spec(ix, "momentum_liquid", {
        "p_from": g(P_FROM), "p_to": g(P_TO), "dh": g(DH), "rho": g(RHO), "lam": g(bcol("LAMBDA")), "m": g(M),
        "length": g(bcol("LENGTH")), "d": g(bcol("D")), "area": g(bcol("AREA")), "zeta": g(bcol("LOSS_COEFFICIENT")),
        "pl": g(bcol("PL"))})
    w = run.where(f, f.node)
    check_equal(run, "incomp|load_vec==law", out["load_vec"], spec[0],
                "liquid residual = p_from - p_to + PL + rho g dh - rho (lambda l/d + zeta) v|v|/2 (in bar)", w)
    check_equal(run, "incomp|dp_frict_loss==law", out["dp_frict_loss"], spec[1],
                "liquid friction loss = rho (lambda l/d + zeta) v|v|/2 (in bar)", w)
    # ---- kernel level, gas
    f = ix.func(DT + ".derivatives_hydraulic_comp_np")
    run.analysed(f)
    k, _ = run_kernel(ix, None, fi=f)
    out = dict(zip(k.output_names, k.outputs))
    fn_row = bcol("FROM_NODE")
    tm = (ncol("TINIT", fn_row) + bcol("TOUTINIT")) / 2
    spec = run_spec(ix, "momentum_gas", {
        "p_from": g(P_FROM), "p_to": g(P_TO), "dh": g(DH), "rho": g(RHO), "rho_n": g(RHON), "lam": g(Poly.sym("lambda_")),
        "m": g(M), "length": g(bcol("LENGTH")), "d": g(bcol("D")), "area": g(bcol("AREA")),
        "zeta": g(bcol("LOSS_COEFFICIENT")), "pl": g(bcol("PL")), "tm": g(tm), "comp": g(Poly.sym("comp_fact"))})
    w = run.where(f, f.node)
    check_equal(run, "comp|load_vec==law", out["load_vec"], spec[0],
                "gas residual = p_from - p_to + PL + rho g dh - (lambda l/d + zeta) rho_N v_N|v_N|/2 * p_N/p_m * T/T_N * K "
                "with p_m = (p_from+p_to)/2 and T the mean of node and outlet temperature", w)
    check_equal(run, "comp|dp_frict_loss==law", out["dp_frict_loss"], spec[1], "gas friction loss (in bar)", w)
    # ---- end to end, liquid
    ki, code = phys.hydraulic_summary(ix, gas=False, friction_model="nikuradse")
    f = ix.func(DC + ".calculate_derivatives_hydraulic")
    run.analysed(f)
    spec = run_spec(ix, "hydraulic_liquid_nikuradse")
    w = run.where(f, f.node)
    for colname, want, text in (("LOAD_VEC_BRANCHES", spec[0], "residual written to LOAD_VEC_BRANCHES is the law in pit columns"),
                                ("DP_FRICT_LOSS", spec[1], "DP_FRICT_LOSS is the friction loss of the law"),
                                ("RE", spec[2], "RE column is |m| d / (eta A)"),
                                ("LAMBDA", spec[3], "LAMBDA column is the Nikuradse friction factor used in the residual")):
        if colname not in code:
            run.ob("end-to-end|liquid|%s-written" % colname, False, "column %s is written" % colname, w)
            continue
        check_equal(run, "end-to-end|liquid|%s" % colname, code[colname], want, text, w)
    # ---- end to end, gas: inputs handed to the kernel
    ki, code = phys.hydraulic_summary(ix, gas=True, friction_model="nikuradse")
    run.ob("end-to-end|gas|writes-residual", "LOAD_VEC_BRANCHES" in code and "DP_FRICT_LOSS" in code,
           "the gas arm writes LOAD_VEC_BRANCHES and DP_FRICT_LOSS", w)
    run.floor(9)


def r2_2(run):
    ix = run.index
    f = ix.func(DC + ".calc_lambda")
    run.analysed(f)
    w = run.where(f, f.node)
    syms = {n: g(Poly.sym(n)) for n in ("m", "eta", "d", "k", "area", "lengths")}
    sargs = {"m": syms["m"], "d": syms["d"], "k": syms["k"], "eta": syms["eta"], "area": syms["area"]}
    for gas, fm, specname in ((False, "nikuradse", "lambda_nikuradse_liquid"), (True, "nikuradse", "lambda_nikuradse_gas"),
                              (False, "swamee-jain", "lambda_swamee_jain"), (True, "swamee-jain", "lambda_swamee_jain")):
        k, _ = run_kernel(ix, None, fi=f, args=dict(syms, gas_mode=PyVal(gas), friction_model=PyVal(fm),
                                                     options=phys.options_val(fm)))
        lam, re = k.outputs
        want = run_spec(ix, specname, sargs)[0]
        check_equal(run, "calc_lambda|%s|%s|lambda" % ("gas" if gas else "liquid", fm), lam, want,
                    "calc_lambda(%s, %s) returns the documented friction factor" % ("gas" if gas else "liquid", fm), w)
        check_equal(run, "calc_lambda|%s|%s|re" % ("gas" if gas else "liquid", fm), re, run_spec(ix, "reynolds", {
            "m": syms["m"], "d": syms["d"], "eta": syms["eta"], "area": syms["area"]})[0],
                    "calc_lambda returns Re = |m| d / (eta A)", w)
    # Colebrook: implicit residual and its derivative
    cw = ix.func(DC + ".colebrook_white")
    run.analysed(cw)
    # which nested functions are handed to the Newton solver, and with which arguments (whole-function terms)
    from ..arrnf import ANF as _ANF, key as _tkey
    pcw = cw.params()
    if len(pcw) != 7:
        raise AnalysisError("colebrook_white no longer has 7 parameters")
    rcw = _ANF(ix, cw, param_alias=dict(zip(pcw, ("re", "d", "k", "lambda_nikuradse", "max_iter", "lengths", "tolerance")))).run()
    ncalls = [c for c in rcw.calls() if c.fn[0] == "x" and c.fn[1].endswith("newton")]
    if len(ncalls) != 1:
        raise AnalysisError("unrecognised shape: colebrook_white calls the Newton solver %d times" % len(ncalls))
    nc_ = ncalls[0]
    nkw = dict(nc_.kw)
    fterm = nc_.args[0] if nc_.args else nkw.get("func")
    dterm = nkw.get("fprime")
    lf = getattr(rcw, "localfns", {})
    if not (fterm is not None and dterm is not None and fterm[0] == "localfn" and dterm[0] == "localfn" and fterm[1] in lf and dterm[1] in lf):
        raise AnalysisError("unrecognised shape: the function / derivative passed to newton() are not nested functions of colebrook_white")
    from ..index import FunctionInfo as _FI
    imp = _FI(cw.module, lf[fterm[1]].name, lf[fterm[1]], parent=cw)
    der = _FI(cw.module, lf[dterm[1]].name, lf[dterm[1]], parent=cw)
    if len(imp.params()) != 4 or len(der.params()) != 4:
        raise AnalysisError("unrecognised shape: residual / derivative do not take (lambda, re, k, d)")
    # positional roles: (unknown, *args) with args = (re[mask], k[mask], d[mask]) is checked below
    a = dict(zip(imp.params(), (g(Poly.sym("lam")), g(Poly.sym("re")), g(Poly.sym("k")), g(Poly.sym("d")))))
    a_der = dict(zip(der.params(), (g(Poly.sym("lam")), g(Poly.sym("re")), g(Poly.sym("k")), g(Poly.sym("d")))))
    ki, _ = run_kernel(ix, None, fi=imp, args=a)
    want = run_spec(ix, "colebrook_residual", {"lam": g(Poly.sym("lam")), "re": g(Poly.sym("re")), "k": g(Poly.sym("k")), "d": g(Poly.sym("d"))})[0]
    check_equal(run, "colebrook_white|implicit-residual", ki.outputs[0], want,
                "the function handed to the Newton solver is 1/sqrt(l) + 2 log10(2.51/(Re sqrt(l)) + k/(3.71 d))",
                run.where(cw, imp.node))
    kd, _ = run_kernel(ix, None, fi=der, args=a_der)
    p = ki.outputs[0].plain()
    if p is None:
        raise AnalysisError("colebrook residual is guarded")
    dp = diff(p, ("sym", "lam"))
    check_equal(run, "colebrook_white|derivative-is-derivative", kd.outputs[0], g(dp),
                "cw_derivative is the derivative of the implicit residual with respect to lambda", run.where(cw, der.node))
    # the Newton call wires function, derivative, start value and arguments consistently
    x0 = nc_.args[1] if len(nc_.args) > 1 else nkw.get("x0")
    ok = False
    if x0 is not None and x0[0] == "idx" and len(x0[2]) == 1:
        mask = x0[2][0]
        want_args = ("tuple", tuple(("idx", ("n", nm), (mask,)) for nm in ("re", "k", "d")))
        ok = _tkey(nkw.get("args")) == _tkey(want_args) and nkw.get("maxiter") == ("n", "max_iter") and nkw.get("tol") == ("n", "tolerance") \
            and x0[1] == ("n", "lambda_nikuradse")
    run.ob("colebrook_white|newton-wiring", ok,
           "newton() receives the residual, its derivative, (re, k, d) of the same mask in parameter order, max_iter "
           "and tolerance", run.where(cw, cw.node))
    # non-convergence of the Colebrook iteration raises
    cl = ix.func(DC + ".calc_lambda")
    from ..arrnf import ANF, norm_cond
    rcl = ANF(ix, cl).run()
    cwc = [c_ for c_ in rcl.calls() if c_.fn[0] == "f" and c_.fn[1].endswith(".colebrook_white")]
    ok = False
    if len(cwc) == 1:
        conv = ("proj", cwc[0].term, 0)
        ok = any(any(norm_cond(c_, p_) == (conv, False) for c_, p_ in e.cond) for e in rcl.raises())
    run.ob("calc_lambda|colebrook-non-convergence-raises", ok, "calc_lambda raises when colebrook_white did not converge", w)
    run.floor(11)


def r2_3(run):
    ix = run.index
    C = "pandapipes.constants"
    w = ix.sp.relpath(C)
    for name, lo, hi in (("P_CONVERSION", 1e5, 1e5), ("NORMAL_TEMPERATURE", 273.15, 273.15), ("NORMAL_PRESSURE", 1.01325, 1.01325),
                         ("GRAVITATION_CONSTANT", 9.78, 9.84), ("HEIGHT_EXPONENT", 5.255, 5.256),
                         ("TEMP_GRADIENT_KPM", 0.0065, 0.0065), ("AVG_TEMPERATURE_K", 288.15, 288.15),
                         ("R_UNIVERSAL", 8.314, 8.3145)):
        v = ix.const(C, name)
        run.ob("constant|%s" % name, lo <= v <= hi, "%s = %r lies in [%r, %r]" % (name, v, lo, hi), w)
    run.floor(8)


def _eval_expr(ix, fi, expr, env_syms=None):
    """evaluate one expression of function `fi` with all free names as symbols"""
    phys.install_positivity()
    ki = KInterp(ix, {"transient": False}, phys.handlers(), free_syms=True)
    st = {"fi": fi, "env": dict(env_syms or {}), "G": BExpr.true(), "loopvars": set(), "kernel": None, "mask": None,
          "returned": False}
    return ki.eval(expr, st)


def r2_4(run):
    ix = run.index
    # ---- PAMB writers: whole-hook forward substitution (arrnf), so that the HEIGHT a PAMB value is computed from is the
    # HEIGHT the same rows finally carry (a PAMB computed before HEIGHT is stored sees the unset column)
    from ..arrnf import ANF, FULL, base_of, key as tkey, match, show as tshow
    n_w = 0
    PAMB = HEIGHT = None
    for c in ix.all_classes():
        m = c.methods.get("create_pit_node_entries")
        if not m:
            continue
        r = ANF(ix, m, options={"transient": False}).run()
        if PAMB is None:
            from ..arrnf import expect
            jf = ix.func("pandapipes.component_models.junction_component.Junction.create_pit_node_entries")
            PAMB, HEIGHT = expect(ix, jf, "PAMB"), expect(ix, jf, "HEIGHT")
            if PAMB[0] != "k" or HEIGHT[0] != "k":
                raise AnalysisError("PAMB / HEIGHT are not node-pit constants in junction_component")
        stores = r.stores()
        for s_ in stores:
            if not (len(s_.index) == 2 and s_.index[1] == PAMB):
                continue
            n_w += 1
            run.analysed(m)
            root = tkey(base_of(s_.base))
            hs = [h for h in stores if tkey(base_of(h.base)) == root and len(h.index) == 2 and h.index[1] == HEIGHT
                  and tkey(h.index[0]) == tkey(s_.index[0])]
            where = run.where(m, s_.node)
            if not hs:
                run.ob("pamb-writer|%s|height-of-same-rows-written" % c.name, False,
                       "the hook that writes PAMB of a set of node rows also writes their HEIGHT", where)
                continue
            H = hs[-1].value          # the height these rows finally carry
            v = s_.value
            baro = v[0] == "call" and v[1][0] == "f" and v[1][1].endswith(".p_correction_height_air") and len(v[2]) == 1
            if baro:
                ok = tkey(v[2][0]) == tkey(H)
                what = "PAMB = p_correction_height_air(HEIGHT finally stored for the same rows)"
                detail = "argument: %s ; HEIGHT: %s" % (tshow(v[2][0])[:150], tshow(H)[:150])
            else:
                # copy of the PAMB of the node the HEIGHT is copied from
                b1 = match(("idx", ("?", "g"), (("?", "rows"), PAMB)), v)
                b2 = match(("idx", ("?", "g"), (("?", "rows"), HEIGHT)), H)
                ok = b1 is not None and b2 is not None and tkey(b1["g"]) == tkey(b2["g"]) and tkey(b1["rows"]) == tkey(b2["rows"])
                what = "PAMB is copied from the node rows the HEIGHT is copied from"
                detail = "PAMB: %s ; HEIGHT: %s" % (tshow(v)[:150], tshow(H)[:150])
            run.ob("pamb-writer|%s" % c.name, ok, what, where, detail=detail)
    run.ob("pamb-writers-found", n_w >= 3, "junction, pipe-node and valve-node PAMB writers found (%d)" % n_w, "component_models")
    # ---- result dictionary
    gb = ix.func(RE_ + ".get_basic_branch_results")
    run.analysed(gb)
    w = run.where(gb, gb.node)
    for gas in (False, True):
        phys.install_positivity()
        ki = KInterp(ix, {"fluid.is_gas": gas, "transient": False}, phys.handlers())
        k = ki.run(gb)
        res = k.outputs[0]
        if not (isinstance(res, PyVal) and isinstance(res.v, dict)):
            # the function returns a local bound to a dict display: evaluate it
            raise AnalysisError("get_basic_branch_results does not return a dict display")
        d = res.v
        fr, to = bcol("FROM_NODE"), bcol("TO_NODE")
        if gas:
            rho = apply_fn("fluid.get_density", [Poly.const(ix.const("pandapipes.constants", "NORMAL_TEMPERATURE"))])
            rho = g(rho)
        else:
            rho = run_kernel(ix, PT + ".get_branch_real_density", consts={"fluid.is_gas": False},
                             args={"fluid": g(Poly.sym("fluid"))})[0].outputs[0]
        fl = "gas" if gas else "liquid"
        expect = {
            "mf_from": g(M), "mf_to": g(-M), "vf": g(M) / rho, "v_mps": g(M) / rho / g(bcol("AREA")),
            "p_from": g(ncol("PINIT", fr)), "p_to": g(ncol("PINIT", to)), "temp_from": g(ncol("TINIT", fr)),
            "temp_to": g(ncol("TINIT", to)), "reynolds": g(bcol("RE")), "lambda": g(bcol("LAMBDA")), "pl": g(bcol("PL")),
            "t_outlet": g(bcol("TOUTINIT")), "qext": g(bcol("QEXT")), "loss_coeff": g(bcol("LOSS_COEFFICIENT")),
            "dp_frict_loss": g(bcol("DP_FRICT_LOSS")), "from_nodes": g(fr), "to_nodes": g(to)}
        for key, want in sorted(expect.items()):
            if key not in d:
                run.ob("basic-results|%s|%s" % (fl, key), False, "result key %r is produced" % key, w)
                continue
            check_equal(run, "basic-results|%s|%s" % (fl, key), d[key], want,
                        "branch result %r (%s) is wired to the right pit column / formula" % (key, fl), w)
    _result_key_tables(run)
    run.floor(40)


def _dict_of(fi, node):
    return None


def _result_key_tables(run):
    """every (result column, producer key) pair used by an extract_results refers to an existing producer key and
    to a column of the component's result table for the same fluid class"""
    ix = run.index
    gb = ix.func(RE_ + ".get_basic_branch_results")
    ear = ix.func(RE_ + ".extract_all_results")
    # producer keys from whole-function terms: keys of dictionary displays and of constant-key stores / updates, wherever the
    # dictionaries are built (a literal, a helper, a loop over zip(names, values) ...)
    from ..arrnf import ANF as _ANF, walk as _walk

    def keys_of(fi, gas=None):
        r_ = _ANF(ix, fi).run()
        out = {}
        for e_ in r_.events:
            # path condition: under the gas test or not
            g_ = None
            for c_, p_ in e_.cond:
                if any(x[0] == "attr" and x[2] == "is_gas" for x in _walk(c_)):
                    from ..arrnf import norm_cond as _nc
                    g_ = _nc(c_, p_)[1]
            terms = []
            if e_.kind == "store":
                if len(e_.index) == 1 and e_.index[0][0] == "c" and isinstance(e_.index[0][1], str):
                    out.setdefault(e_.index[0][1], g_)
                terms = [e_.value]
            elif e_.kind == "call":
                terms = [e_.term]
            elif e_.kind in ("return", "inlined-return"):
                terms = [e_.value]
            for t_ in terms:
                for x in _walk(t_):
                    if x[0] == "dict":
                        for k_, _v in x[1]:
                            if k_[0] == "c" and isinstance(k_[1], str):
                                out.setdefault(k_[1], g_)
                    elif x[0] == "call" and x[1] == ("x", "builtins.zip") and x[2] and x[2][0][0] in ("tuple", "list") \
                            and x[2][0][1] and all(i_[0] == "c" and isinstance(i_[1], str) for i_ in x[2][0][1]):
                        # d.update(zip(<names>, <values>)) / dict(zip(<names>, <values>))
                        for i_ in x[2][0][1]:
                            out.setdefault(i_[1], g_)
        return out
    basic = set(keys_of(gb))
    ek = keys_of(ear)
    gaskeys = {k_ for k_, g_ in ek.items() if g_ is True} | {k_ for k_ in ek if k_ not in basic}
    run.ob("producer-keys-found", len(basic) >= 15 and len(gaskeys) >= 10,
           "producer dictionaries found (%d basic, %d gas keys)" % (len(basic), len(gaskeys)), run.where(gb, gb.node))
    std = ix.func("pandapipes.component_models.component_toolbox.standard_branch_wo_internals_result_lookup")

    def pairs_of(fi):
        out = []
        par = parents(fi.node)
        for n in ast.walk(fi.node):
            if isinstance(n, ast.Tuple) and len(n.elts) == 2 and all(const_str(e) is not None for e in n.elts):
                p = par.get(n)
                if isinstance(p, (ast.List,)):
                    pc = path_condition(fi.node, n, par)
                    gas = None
                    for lit, pol in pc:
                        if "is_gas" in lit:
                            gas = pol
                    out.append((n.elts[0].value, n.elts[1].value, gas, n))
        return out

    def table_cols(ci):
        """{gas?: column names} of get_result_table, evaluated for both fluid classes (forward substitution: it does not matter
        whether the lists are literals in the method, built by append / extend, or returned by a helper)"""
        if ix.lookup_method(ci, "get_result_table") is None:
            return None
        cols = {True: set(), False: set(), None: set()}
        for gas_ in (True, False):
            try:
                ki_, k_ = hook_summary(ix, ci, "get_result_table", {"fluid.is_gas": gas_})
            except (AnalysisError, Exception) as ex:     # noqa
                raise AnalysisError("unrecognised shape: get_result_table of %s: %s" % (ci.name, str(ex)[:120]))
            out_ = k_.outputs[0] if k_.outputs else None
            if isinstance(out_, PyVal) and isinstance(out_.v, (list, tuple)):
                out_ = list(out_.v)
            if not isinstance(out_, (list, tuple)):
                raise AnalysisError("unrecognised shape: get_result_table of %s does not return a list of columns" % ci.name)
            for it_ in out_:
                v_ = it_.v if isinstance(it_, PyVal) else it_
                if isinstance(v_, (list, tuple)) and v_:
                    v_ = v_[0].v if isinstance(v_[0], PyVal) else v_[0]
                if isinstance(v_, str):
                    cols[gas_].add(v_)
        return cols

    n_pairs = 0
    for ci in ix.components():
        if not ix.is_subclass(ci, "BranchComponent"):
            continue
        m = ix.lookup_method(ci, "extract_results")
        if m is None:
            continue
        cols = table_cols(ci)
        prs = pairs_of(m)
        uses_std = any(callee_name(c) == "standard_branch_wo_internals_result_lookup" for c in calls(m.node))
        if uses_std:
            prs = prs + pairs_of(std)
        run.analysed(m)
        for res_name, key, gas, node in prs:
            n_pairs += 1
            keys_ok = key in basic or (key in gaskeys and gas is not False)
            run.ob("result-key|%s|%s<-%s" % (ci.name, res_name, key), keys_ok,
                   "producer key %r exists%s" % (key, "" if gas is None else (" for gas" if gas else " for liquids")),
                   run.where(m, node))
            for fl in ([True, False] if gas is None else [gas]):
                have = cols[fl] | cols[None]
                run.ob("result-column|%s|%s|%s" % (ci.name, "gas" if fl else "liquid", res_name), res_name in have,
                       "result column %r is in get_result_table of %s for %s" % (res_name, ci.name, "gas" if fl else "liquids"),
                       run.where(m, node))
    run.stat("result_pairs_checked", n_pairs)


def r2_5(run):
    ix = run.index
    f = ix.func(CT + ".p_correction_height_air")
    run.analysed(f)
    k, _ = run_kernel(ix, None, fi=f)
    check_equal(run, "p_correction_height_air==barometric", k.outputs[0], run_spec(ix, "barometric", {"height": g(Poly.sym("height"))})[0],
                "PAMB = p_N (1 - h * 0.0065/288.15)^5.255", run.where(f, f.node))
    # real gas density
    f = ix.func(PT + ".get_branch_real_density")
    run.analysed(f)
    k, _ = run_kernel(ix, None, fi=f, consts={"fluid.is_gas": True})
    T_N = ix.const("pandapipes.constants", "NORMAL_TEMPERATURE")
    rho_n = apply_fn("fluid.get_density", [Poly.const(T_N)])
    p_f = ncol("PINIT", phys.FROM_C) + ncol("PAMB", phys.FROM_C)
    p_t = ncol("PINIT", phys.TO_C) + ncol("PAMB", phys.TO_C)
    t_f, t_t = ncol("TINIT", phys.FROM_C), bcol("TOUTINIT")
    a = run_spec(ix, "real_gas_density", {"rho_n": g(rho_n), "p": g(p_f), "t": g(t_f),
                                          "comp": g(apply_fn("fluid.get_compressibility", [p_f, t_f]))})[0]
    b = run_spec(ix, "real_gas_density", {"rho_n": g(rho_n), "p": g(p_t), "t": g(t_t),
                                          "comp": g(apply_fn("fluid.get_compressibility", [p_t, t_t]))})[0]
    check_equal(run, "get_branch_real_density|gas", k.outputs[0], (a + b) / GExpr.of(2),
                "gas density of a branch = mean of rho_N p T_N/(T p_N K(p,T)) at inlet and outlet", run.where(f, f.node))
    k, _ = run_kernel(ix, None, fi=f, consts={"fluid.is_gas": False})
    want = (g(apply_fn("fluid.get_density", [t_f])) + g(apply_fn("fluid.get_density", [t_t]))) / GExpr.of(2)
    check_equal(run, "get_branch_real_density|liquid", k.outputs[0], want,
                "liquid density of a branch = mean of rho(T_inlet), rho(T_outlet); no pressure dependence", run.where(f, f.node))
    # norm factors of the gas result extraction
    f = ix.func(RE_ + ".get_branch_results_gas")
    run.analysed(f)
    fr, to = bcol("FROM_NODE"), bcol("TO_NODE")
    k, _ = run_kernel(ix, None, fi=f, args={"from_nodes": g(fr), "to_nodes": g(to)})
    out = dict(zip(k.output_names, k.outputs))
    sw = b_ne0(bcol("FROM_NODE_T_SWITCHED"))
    t_in = select(sw, g(ncol("TINIT", to)), g(ncol("TINIT", fr)))
    p_af = g(ncol("PAMB", fr) + Poly.sym("p_from"))
    p_at = g(ncol("PAMB", to) + Poly.sym("p_to"))
    check_equal(run, "gas-results|p_abs_from", out["p_abs_from"], p_af, "p_abs_from = p_from + PAMB[from]", run.where(f, f.node))
    check_equal(run, "gas-results|p_abs_to", out["p_abs_to"], p_at, "p_abs_to = p_to + PAMB[to]", run.where(f, f.node))
    kf = KInterp(ix, {}, phys.handlers())

    def comp(p, t):
        # K(p, T) with guards distributed
        cases = []
        for g1, pp in p.cases:
            for g2, tt in t.cases:
                gg = g1 | g2
                cases.append((gg, apply_fn("fluid.get_compressibility", [pp, tt])))
        return GExpr(cases)
    want_from = run_spec(ix, "norm_factor", {"p": p_af, "t": t_in, "comp": comp(p_af, t_in)})[0]
    check_equal(run, "gas-results|normfactor_from", out["normfactor_from"], want_from,
                "normfactor_from = T_in p_N/(p_abs_from T_N) K(p_abs_from, T_in) with the flow-corrected inlet temperature",
                run.where(f, f.node))
    t_out = g(bcol("TOUTINIT"))
    want_to = run_spec(ix, "norm_factor", {"p": p_at, "t": t_out, "comp": comp(p_at, t_out)})[0]
    check_equal(run, "gas-results|normfactor_to", out["normfactor_to"], want_to,
                "normfactor_to = T_out p_N/(p_abs_to T_N) K(p_abs_to, T_out)", run.where(f, f.node))
    check_equal(run, "gas-results|v_gas_from", out["v_gas_from"], g(Poly.sym("v_mps")) * want_from,
                "v_gas_from = v_N * normfactor_from", run.where(f, f.node))
    check_equal(run, "gas-results|v_gas_to", out["v_gas_to"], g(Poly.sym("v_mps")) * want_to,
                "v_gas_to = v_N * normfactor_to", run.where(f, f.node))
    run.floor(9)


def r2_6(run):
    ix = run.index
    n = 0
    for c in ix.all_classes():
        m = c.methods.get("create_pit_branch_entries")
        if not m:
            continue
        for s in own_walk(m.node):
            if isinstance(s, ast.Assign) and isinstance(s.targets[0], ast.Subscript):
                t = s.targets[0]
                if isinstance(t.slice, ast.Tuple) and len(t.slice.elts) == 2 and U(t.slice.elts[1]) == "AREA":
                    n += 1
                    run.analysed(m)
                    pit = U(t.value)
                    got = _eval_expr(ix, m, s.value)
                    dcol = Poly.sym("col", pit, "i", "idx_branch", "D")
                    want = g(dcol.pow(2) * Poly.sym("pi") / 4)
                    check_equal(run, "area-writer|%s" % c.name, got, want,
                                "AREA of %s = D^2 * pi / 4 of the same rows" % pit, run.where(m, s))
    run.ob("area-writers-found", n >= 4, "AREA writers found (%d)" % n, "component_models")
    run.floor(5)


UNIT = {"_mm": ("div", 1000), "_km": ("mul", 1000)}


def r2_7(run):
    ix = run.index
    n = 0
    # every function of the component-model package that reads a millimetre / kilometre column (the pit-filling hooks and
    # whatever helpers they delegate to), in the tree as written (helper substitution would only duplicate the sites)
    class _NoCls:
        name = "-"
    for m in ix.all_functions():
        if not m.module.startswith("pandapipes.component_models"):
            continue
        c = m.cls if m.cls is not None else _NoCls
        mname = m.name
        if mname in ("get_component_input", "get_result_table", "extract_results", "get_internal_results"):
            continue        # declarations and result reporting (results are converted back explicitly, checked elsewhere)
        if True:
            par = parents(m.raw_node)
            for a in ast.walk(m.raw_node):
                if not (isinstance(a, ast.Attribute) and any(a.attr.endswith(s) for s in UNIT)):
                    continue
                suffix = "_mm" if a.attr.endswith("_mm") else "_km"
                kind, factor = UNIT[suffix]
                # climb .values / astype
                top = a
                while isinstance(par.get(top), ast.Attribute) or (isinstance(par.get(top), ast.Call) and par[top].func is top):
                    top = par[top]
                p = par.get(top)
                n += 1
                run.analysed(m)
                ok, how = False, ""
                if isinstance(p, ast.BinOp) and p.left is top:
                    if kind == "div" and isinstance(p.op, ast.Div) and _num(p.right) == factor:
                        ok, how = True, "direct"
                    if kind == "mul" and isinstance(p.op, ast.Mult) and _num(p.right) == factor:
                        ok, how = True, "direct"
                elif isinstance(p, ast.Assign) and isinstance(p.targets[0], ast.Name):
                    # alias: every use that flows into the pit must carry the factor
                    nm = p.targets[0].id
                    uses = [x for x in ast.walk(m.raw_node) if isinstance(x, ast.Name) and x.id == nm and isinstance(x.ctx, ast.Load)]
                    flows = []
                    for u in uses:
                        q = par.get(u)
                        if isinstance(q, ast.Call) and callee_name(q) in ("isnull", "isnan"):
                            continue
                        if isinstance(q, ast.Subscript) and q.value is u:
                            continue    # masked read/write among values of the same unit
                        flows.append(q)
                    def converted(q):
                        if isinstance(q, ast.BinOp) and isinstance(q.op, ast.Div) and _num(q.right) == factor:
                            return True
                        if isinstance(q, ast.Return):
                            # a helper that hands the column on in its own unit: every call of it carries the factor
                            sites = [(g_, c_) for g_ in ix.all_functions() if g_.module.startswith("pandapipes.component_models")
                                     for c_ in calls(g_.raw_node) if callee_name(c_) == mname]
                            pars = {id(g_): parents(g_.raw_node) for g_, _c in sites}
                            return bool(sites) and all(
                                isinstance(pars[id(g_)].get(c_), ast.BinOp) and isinstance(pars[id(g_)][c_].op, ast.Div)
                                and pars[id(g_)][c_].left is c_ and _num(pars[id(g_)][c_].right) == factor for g_, c_ in sites)
                        return False
                    ok = all(converted(q) for q in flows) if kind == "div" else False
                    how = "through local %s" % nm if flows else "local %s is only copied into arrays of the same unit" % nm
                elif isinstance(p, ast.Compare) or (isinstance(p, ast.Call) and callee_name(p) in ("isnull", "isnan")):
                    n -= 1
                    continue
                run.ob("unit|%s.%s|%s" % (c.name, mname, a.attr), ok,
                       "user column %s is converted to SI by %s %d before it enters the pit (%s)"
                       % (a.attr, "dividing by" if kind == "div" else "multiplying with", factor, how or "not converted"),
                       run.where(m, a))
    run.floor(6)


def _num(node):
    if isinstance(node, ast.Constant) and isinstance(node.value, (int, float)):
        return float(node.value)
    return None


def r2_8(run):
    """Jacobian slots = symbolic derivatives of the residual (kernel level)"""
    ix = run.index
    for kname, gas in (("derivatives_hydraulic_incomp_np", False), ("derivatives_hydraulic_comp_np", True)):
        f = ix.func(DT + "." + kname)
        k, _ = run_kernel(ix, None, fi=f)
        out = dict(zip(k.output_names, k.outputs))
        lv = out["load_vec"].plain()
        if lv is None:
            raise AnalysisError("guarded residual in %s" % kname)
        matom = ("sym", "col", "branch_pit", "i", "idx_branch", "MDOTINIT")
        w = run.where(f, f.node)
        pf, pt = ("sym", "p_init_i_abs"), ("sym", "p_init_i1_abs")
        chain_p, chain_p1 = {}, {}
        if gas:
            chain_p = {("sym", "comp_fact"): Poly.sym("der_comp")}
            chain_p1 = {("sym", "comp_fact"): Poly.sym("der_comp1")}
        check_equal(run, "%s|df_dp" % kname, out["df_dp"], g(diff(lv, pf, chain_p)),
                    "df_dp is d(residual)/d(p_from)%s" % (" with dK/dp_from = der_comp" if gas else ""), w)
        check_equal(run, "%s|df_dp1" % kname, out["df_dp1"], g(diff(lv, pt, chain_p1)),
                    "df_dp1 is d(residual)/d(p_to)%s" % (" with dK/dp_to = der_comp1" if gas else ""), w)
        # d/dm with d lambda/dm = der_lambda; the code regularises |m| by max(|m|, 1e-8) in the 2|m| factor
        lam_atom = ("sym", "lambda_") if gas else ("sym", "col", "branch_pit", "i", "idx_branch", "LAMBDA")
        d_m = diff(lv, matom, {lam_atom: Poly.sym("der_lambda")})
        # replace the regularised factor in the code's expression by |m| for the comparison
        mabs = apply_fn("abs", [Poly.atom(matom)])
        reg = apply_fn("max", [mabs, Poly.const(frac(1e-8))])
        (ra,) = reg.atoms()
        got = out["df_dm"]
        got = GExpr([(gd, p.subst({ra: mabs})) for gd, p in got.cases])
        # m * m / |m| == |m|
        sgn = Poly.atom(matom) * Poly.atom(matom) * mabs.pow(-1)
        d_m2 = Poly()
        for mono, c in d_m.terms.items():
            d_m2 = d_m2 + Poly({mono: c})
        want = g(d_m)
        if gas:
            # the numpy twin overrides df_dm at zero flow (known divergence recorded under C07); compare off that guard
            zero = b_le0(mabs - frac(1e-8))
            got = got.restrict(frozenset([(list(zero.atoms())[0], False)]))
            want = want.restrict(frozenset([(list(zero.atoms())[0], False)]))
        check_equal(run, "%s|df_dm" % kname, got, want,
                    "df_dm is d(residual)/dm with d(lambda)/dm = der_lambda (|m| regularised by max(|m|, 1e-8))", w)
    # medium pressure derivative
    f = ix.func(DT + ".calc_medium_pressure_with_derivative_np")
    k, _ = run_kernel(ix, None, fi=f)
    out = dict(zip(k.output_names, k.outputs))
    pm = out["p_m"]
    for name, atom in (("der_p_m", ("sym", "p_init_i_abs")), ("der_p_m1", ("sym", "p_init_i1_abs"))):
        cases = []
        for gd, p in pm.cases:
            cases.append((gd, diff(p, atom)))
        want = GExpr(cases)
        got = out[name]
        # at equal pressures the code returns +-1 by convention; compare where they differ
        ne = [a for a in got.atoms() | want.atoms() if a[0] == "ne0"]
        if ne:
            got = got.restrict(frozenset([(ne[0], True)]))
            want = want.restrict(frozenset([(ne[0], True)]))
        check_equal(run, "calc_medium_pressure|%s" % name, got, want,
                    "%s is the derivative of the mean pressure 2/3 (p1^3-p2^3)/(p1^2-p2^2)" % name, run.where(f, f.node))
    run.floor(8)


def r2_9(run):
    """the law is compared with the numpy kernels (R2.1, R2.2); the numba twins the solver uses by default must compute the
    same guarded expressions (shared with C07 R7.1, restricted to the hydraulic kernels)"""
    from .c07 import r7_1
    r7_1(run, only={"derivatives_hydraulic_incomp", "derivatives_hydraulic_comp", "calc_lambda_nikuradse_incomp",
                    "calc_lambda_nikuradse_comp", "calc_medium_pressure_with_derivative", "get_branch_results_gas"}, floor=20, residual_only=True)


def r2_10(run):
    """the velocity of the law is m / (rho * AREA): for every branch component the flow area written into the pit is the circle
    area of the diameter D the same rows finally carry (a D that is set after AREA was computed leaves a stale area), and the
    to-side temperature the fluid properties are evaluated at is that of the to node (shared with C09 R9.7)"""
    ix = run.index
    import math
    n = 0
    for c in ix.components():
        if not ix.is_subclass(c, "BranchComponent"):
            continue
        m = ix.lookup_method(c, "create_pit_branch_entries")
        run.analysed(m)
        ki, k = phys.hook_summary(ix, c, "create_pit_branch_entries", {"option:transient": False, "any:*": True}, partial=True)
        cols = phys.pit_cols(ki)
        if "D" not in cols or "AREA" not in cols:
            raise AnalysisError("%s.create_pit_branch_entries: D / AREA not summarised (%s)" % (c.name, k.error))
        n += 1
        d = phys.tonum(cols["D"])
        want = d * d * g(Poly.sym("pi")) * g(Poly.const(0.25))
        check_equal(run, "area|%s" % c.name, cols["AREA"], want,
                    "AREA of %s rows is pi/4 * D^2 of the diameter finally stored for the same rows" % c.name, run.where(m, m.node))
    run.ob("area|branch-components", n >= 10, "branch components summarised: %d" % n, "component_models")
    from .c09 import r9_7
    r9_7(run)
    run.floor(12)


RULES = [("R2.1", r2_1), ("R2.2", r2_2), ("R2.3", r2_3), ("R2.4", r2_4), ("R2.5", r2_5), ("R2.7", r2_7), ("R2.9", r2_9), ("R2.10", r2_10)]
THOROUGH = [("R2.8", r2_8)]


def r2_11(run):
    """the reported Reynolds number, friction factor and mean velocity of a sectioned pipe are the means over ITS sections: sums
    formed per pipe (sorted by pipe label) are divided by counts in the same order and placed through the same permutation -- shared
    with C06 R6.2 (order kinds: an array in table order is never combined element-wise with an array in sorted-group order)."""
    from .c06 import r6_2
    r6_2(run)


RULES.append(("R2.11", r2_11))

EXPLANATION += (' ' + '(R2.12, shared with C03 R3.7) a component writes its pressure-law terms (the lift of a compressor, the loss of a valve) into the rows of '
                'the array it was handed: the row window is read from the window table of that array (idx_lookups of the same call for the reduced pit), '
                'never from the full-pit table.')


def r2_12(run):
    """the momentum equation of a branch is the one of its own component: a hook that takes its row window from the full-pit table while
    it works on the reduced pit writes its pressure lift into the rows of the element behind it as soon as a branch ahead is inactive
    (that element then reports a pressure difference its own law forbids) -- shared with C03 R3.7."""
    from .c03 import r3_7
    r3_7(run)


RULES.append(("R2.12", r2_12))
