"""C10 -- temperatures obey the pipe cooling law, energy-conserving mixing and fixed feeds.

 R10.1 thermal residuals and Jacobian slots written by calculate_derivatives_thermal equal the documented law
       (end to end: pit columns and fluid properties), incl. the infeed flags
 R10.2 quantity kinds of every fluid-API argument reachable in the thermal and hydraulic derivative calculation
 R10.4 imposed temperatures: fixed node entries in mode 't', circulation-pump outlet temperature and its pinned row
 R10.5 every thermal consumer of from/to nodes uses the flow-direction corrected nodes; the switch flag and the
       corrected-node formulas
 (R10.3, the thermal system assembly, is decided together with the hydraulic assembly by the segment analysis of C01.)
"""
import ast

from .. import phys
from ..algebra import BExpr, GExpr, Poly, apply_fn, b_le0, b_nan, b_ne0, diff, frac, poly_from_key, select
from ..astutil import U, calls, callee_name, const_str, own_walk
from ..kernelir import KInterp, PyVal, Unsupported
from ..phys import DC, DT, PT, bcol, check_equal, g, hook_summary, ncol, run_kernel, run_spec, tonum
from ..source import AnalysisError

P = "pandapipes.pipeflow"
CT = "pandapipes.component_models.component_toolbox"
IT = "pandapipes.pf.internals_toolbox"

EXPLANATION = (
    'calculate_derivatives_thermal is summarised end to end by forward substitution (numpy arm, transient=False): (R10.1)'
    ' the columns LOAD_VEC_BRANCHES_T, JAC_DERIV_DT, JAC_DERIV_DTOUT, LOAD_VEC_NODES_TO_T, JAC_DERIV_DT_NODE, '
    'JAC_DERIV_DTOUT_NODE, LOAD_T, JAC_DERIV_DT_N and INFEED equal the transcribed law: exponential approach of the '
    'outlet temperature to the ambient temperature with alpha*pi*d_o*l/(cp*|m|), temperature lift, lumped heat extraction'
    ' q/(cp |m|); node rows weight every entering stream by |m| times the MEAN of the heat capacities at stream and node '
    'temperature (the same mean form the branch terms use); rows of nodes/branches without flow are pinned to the ambient'
    ' temperature; the Jacobian slots are the symbolic derivatives of these residuals; infeed nodes are the nodes with '
    'leaving but without entering flow. (R10.2) every argument passed to '
    'get_heat_capacity/get_density/get_viscosity/get_compressibility in the derivative calculation has the quantity kind '
    'its signature documents (temperature / pressure), inferred from pit columns. (R10.4) temperature-fixing ext grids go'
    " through set_fixed_node_entries(mode 't') whose running mean, counter and node type are checked; circulation pumps "
    'of type t/pt write TOUTINIT = t_flow_k and pin their thermal branch row. (R10.5) the direction switch is MDOTINIT < '
    '-eps and get_from/to_nodes_corrected constant-fold to (FROM,TO)/(TO,FROM); all thermal consumers use them. (R10.6, '
    'shared with C07 R7.1) the numba twin of the thermal kernel computes the same residuals as the numpy kernel the law '
    'is compared with. Numba twin tied by C07. (R10.8) the per-row pit values of the thermal law (TEXT, ALPHA, TOUTINIT, '
    "LENGTH, D ...) written by the create_pit_branch_entries hooks are element-wise functions of the row's own table "
    'entry: the hook summary of every concrete branch class must not contain a whole-array flag (a store or a skipped '
    "store decided by np.any / np.all over the column), which would let one pipe's entry decide the value of all others. "
    'Not decided: temperature bounds of a solution, convergence.')
ASSUMPTIONS = [phys.POSITIVITY_TEXT, "transient=False", "the law is the transcription in ppsa/spec/laws.py "
               "(pipe_component.rst, junction_component.rst, Baehr 2010)"]
TECHNIQUE = "whole-function value numbering of the thermal derivative calculation vs transcribed law; quantity-kind inference on normal forms; symbolic differentiation; constant folding"
EXPLANATION += (' ' + "(R10.7) every store into the heat-exchanging diameter DO is independent of the inner diameter or restricted to the rows whose DO is NaN. (R10.9) in mode 'heat' use_given_hydraulic_results stores sol_vec[:n_nodes] into PINIT and sol_vec[n_nodes:] into MDOTINIT of all rows; up to a dtype conversion nothing is done to the values (a masked overwrite, abs() or a sign filter makes the cooling law be evaluated for a flow that is not the given one).")

MDOT = bcol("MDOTINIT")


def _bf():
    return ~b_nan(MDOT) & ~b_le0(apply_fn("abs", [MDOT]) - frac(1e-10))


def _exists(idx, b):
    return BExpr.lit(("exists", idx.key(), b.key()))


def _cp(t):
    return apply_fn("fluid.get_heat_capacity", [t])


def r10_1(run):
    ix = run.index
    ki = phys.thermal_summary(ix)
    f = ix.func(DC + ".calculate_derivatives_thermal")
    run.analysed(f)
    run.analysed(ix.func(DT + ".derivatives_thermal_np"))
    w = run.where(f, f.node)
    code = {(k[0], k[3]): v for k, v in ki.pit.items() if k[1] == "i"}
    bf = _bf()
    t_in = ncol("TINIT", phys.FROM_C)
    t_nt = ncol("TINIT", phys.TO_C)
    t_out = bcol("TOUTINIT")
    amb = Poly.sym("option", "ambient_temperature")
    cp_b = (_cp(t_in) + _cp(t_out)) / 2
    cp_mix = (_cp(t_out) + _cp(t_nt)) / 2
    fb = run_spec(ix, "thermal_branch", {
        "t_in": g(t_in), "t_out": g(t_out), "t_amb": g(bcol("TEXT")), "alpha": g(bcol("ALPHA")), "d_outer": g(bcol("DO")),
        "length": g(bcol("LENGTH")), "cp": g(cp_b), "m": g(MDOT), "tl": g(bcol("TL")), "qext": g(bcol("QEXT")),
        "flowing": bf, "amb": g(amb)})[0]
    dfb = run_spec(ix, "thermal_branch_derivatives", {
        "t_amb": g(bcol("TEXT")), "alpha": g(bcol("ALPHA")), "d_outer": g(bcol("DO")), "length": g(bcol("LENGTH")),
        "cp": g(cp_b), "m": g(MDOT), "flowing": bf})
    fnt = run_spec(ix, "thermal_node_inflow", {"cp_mix": g(cp_mix), "m": g(MDOT), "t_out": g(t_out), "t_node": g(t_nt),
                                               "flowing": bf})
    nodes_flow = _exists(phys.FROM_C, bf) | _exists(phys.TO_C, bf)
    t_n = Poly.sym("col", "node_pit", "i", "idx_node", "TINIT")
    want = {
        ("branch_pit", "LOAD_VEC_BRANCHES_T"): (fb, "branch residual = T_amb + (T_in - T_amb) exp(-alpha pi d_o l/(cp |m|)) + TL - q/(cp |m|) - T_out; "
                                                    "ambient - T_out without flow"),
        ("branch_pit", "JAC_DERIV_DT"): (dfb[0], "d(branch residual)/dT_in = exp(-alpha pi d_o l/(cp |m|)), 0 without flow"),
        ("branch_pit", "JAC_DERIV_DTOUT"): (dfb[1], "d(branch residual)/dT_out = -1"),
        ("branch_pit", "LOAD_VEC_NODES_TO_T"): (fnt[0], "node inflow term = mean(cp(T_out), cp(T_node)) |m| (T_out - T_node), 0 without flow"),
        ("branch_pit", "JAC_DERIV_DT_NODE"): (fnt[1], "d(inflow term)/dT_node = -mean(cp) |m|"),
        ("branch_pit", "JAC_DERIV_DTOUT_NODE"): (fnt[2], "d(inflow term)/dT_out = +mean(cp) |m|"),
        ("node_pit", "LOAD_T"): (select(nodes_flow, g(Poly()), g(amb - t_n)), "nodes without flowing branch are pinned to the ambient temperature"),
        ("node_pit", "JAC_DERIV_DT_N"): (select(nodes_flow, g(Poly()), g(Poly.const(1))), "derivative 1 for pinned nodes, 0 otherwise"),
        ("node_pit", "INFEED"): (select(_exists(phys.FROM_C, bf) & ~_exists(phys.TO_C, bf), g(Poly.const(1)), g(Poly())),
                                 "infeed nodes = nodes with a leaving but no entering flowing branch"),
    }
    for key, (wv, text) in want.items():
        if key not in code:
            run.ob("thermal|%s-written" % key[1], False, "column %s is written by calculate_derivatives_thermal" % key[1], w)
            continue
        check_equal(run, "thermal|%s" % key[1], code[key], wv, text, w)
    # Jacobian = derivative of the residual (heat capacities held fixed, as the scheme does)
    chain = {}
    for a in list(fb.atoms()) + []:
        pass
    for val in (fb, fnt[0]):
        for gd, p in val.cases:
            for a in _all_app_atoms(p):
                if a[1] == "fluid.get_heat_capacity":
                    chain[a] = Poly()
    tin_atom = list(t_in.atoms())[0]
    tout_atom = list(t_out.atoms())[0]
    tnt_atom = list(t_nt.atoms())[0]
    d1 = GExpr([(gd, diff(p, tin_atom, chain)) for gd, p in fb.cases])
    check_equal(run, "thermal|JAC_DERIV_DT==d(residual)/dT_in", code.get(("branch_pit", "JAC_DERIV_DT"), g(Poly.sym("missing"))),
                d1, "JAC_DERIV_DT is the derivative of the written branch residual wrt. the inlet temperature", w)
    d2 = GExpr([(gd, diff(p, tnt_atom, chain)) for gd, p in fnt[0].cases])
    check_equal(run, "thermal|JAC_DERIV_DT_NODE==d(inflow)/dT_node", code.get(("branch_pit", "JAC_DERIV_DT_NODE"), g(Poly.sym("missing"))),
                d2, "JAC_DERIV_DT_NODE is the derivative of the inflow term wrt. the node temperature", w)
    d3 = GExpr([(gd, diff(p, tout_atom, chain)) for gd, p in fnt[0].cases])
    check_equal(run, "thermal|JAC_DERIV_DTOUT_NODE==d(inflow)/dT_out", code.get(("branch_pit", "JAC_DERIV_DTOUT_NODE"), g(Poly.sym("missing"))),
                d3, "JAC_DERIV_DTOUT_NODE is the derivative of the inflow term wrt. the outlet temperature", w)
    run.floor(12)


def _all_app_atoms(p, acc=None):
    acc = [] if acc is None else acc
    for a in p.atoms():
        _walk_atom(a, acc)
    return acc


def _walk_atom(a, acc):
    if a[0] == "app":
        acc.append(a)
        for k in a[2:]:
            _all_app_atoms(poly_from_key(k), acc)
    elif a[0] == "par":
        _all_app_atoms(poly_from_key(a[1]), acc)


TEMP_COLS = {"TINIT", "TOUTINIT", "TEXT"}
PRES_COLS = {"PINIT", "PAMB", "PL"}
SIG = {"fluid.get_heat_capacity": ["Temperature"], "fluid.get_density": ["Temperature"],
       "fluid.get_viscosity": ["Temperature", "Pressure"], "fluid.get_compressibility": ["Pressure", "Temperature"]}


def kind_of(p, const_ok=True):
    """quantity kind of a normal form: means / sums / differences of one kind keep the kind"""
    if p.is_const():
        return "Number"
    kinds = set()
    for m, c in p.terms.items():
        if m == ():
            kinds.add("Number")
            continue
        if len(m) != 1 or m[0][1] != 1:
            return "TOP"
        kinds.add(atom_kind(m[0][0]))
    kinds.discard("Number") if len(kinds) > 1 and not const_ok else None
    if len(kinds) == 1:
        return kinds.pop()
    if kinds == {"Temperature", "Number"} or kinds == {"Pressure", "Number"}:
        return "TOP"
    return "MIXED:" + "+".join(sorted(kinds))


def atom_kind(a):
    if a[0] == "sym" and len(a) == 6 and a[1] == "col":
        if a[5] in TEMP_COLS:
            return "Temperature"
        if a[5] in PRES_COLS:
            return "Pressure"
        return "TOP"
    if a[0] == "sym" and a[1] == "option" and a[2] == "ambient_temperature":
        return "Temperature"
    if a[0] == "app":
        if a[1] == "fluid.get_heat_capacity":
            return "HeatCapacity"
        if a[1] == "fluid.get_density":
            return "Density"
        if a[1] == "fluid.get_viscosity":
            return "Viscosity"
        if a[1] == "fluid.get_compressibility":
            return "Compressibility"
        if a[1].startswith("kw:"):
            return kind_of(poly_from_key(a[2]))
        return "TOP"
    if a[0] == "par":
        return kind_of(poly_from_key(a[1]))
    return "TOP"


def r10_2(run):
    ix = run.index
    sites = {}
    srcs = [("thermal", phys.thermal_summary(ix))]
    for gas in (False, True):
        ki, _ = phys.hydraulic_summary(ix, gas)
        srcs.append(("hydraulic-gas" if gas else "hydraulic-liquid", ki))
    T_N = ix.const("pandapipes.constants", "NORMAL_TEMPERATURE")
    for label, ki in srcs:
        for key, val in ki.pit.items():
            for gd, p in val.cases:
                for a in _all_app_atoms(p):
                    if a[1] in SIG:
                        sites.setdefault((label, a), key[3])
    f = ix.func(DC + ".calculate_derivatives_thermal")
    w = run.where(f, f.node)
    n = 0
    for (label, a), colname in sorted(sites.items(), key=repr):
        args = [poly_from_key(k) for k in a[2:]]
        for i, (arg, want) in enumerate(zip(args, SIG[a[1]])):
            k = kind_of(arg)
            if k == "Number" and want == "Temperature" and arg.is_const() and float(arg.const_value()) == T_N:
                k = "Temperature"
            n += 1
            ok = k in (want, "TOP")
            if k == "TOP":
                run.stat("fluid_api_args_unresolved_kind")
            from ..algebra import fmt_poly
            run.ob("%s|%s|arg%d|%s" % (label, a[1], i, fmt_poly(arg)[:120]), ok,
                   "argument %d of %s is a %s (required: %s)" % (i, a[1], k, want), w,
                   detail=None if ok else "argument: %s (reaches column %s)" % (fmt_poly(arg)[:300], colname))
    run.stat("fluid_api_argument_sites", n)
    run.floor(12)


def r10_4(run):
    ix = run.index
    # ---- set_fixed_node_entries: running mean, counter, type (modes p and t)
    f = ix.func(CT + ".set_fixed_node_entries")
    run.analysed(f)
    w = run.where(f, f.node)
    from ..arrnf import ANF, C, base_of, contains, expect as texpect, key as tkey, match, show as tshow, walk
    ps = f.params()
    if len(ps) != 7:
        raise AnalysisError("set_fixed_node_entries no longer has 7 parameters")
    alias = dict(zip(ps, ("net", "node_pit", "junctions", "types", "values", "node_comp", "mode")))
    table = {"p": ("PINIT", "NODE_TYPE", "EXT_GRID_OCCURENCE", "P", {"p", "pt"}),
             "t": ("TINIT", "NODE_TYPE_T", "EXT_GRID_OCCURENCE_T", "T", {"t", "pt"})}
    sbg = None
    for mode, (vcol, tcol, ccol, typ, valid) in table.items():
        r = ANF(ix, f, consts={ps[6]: mode}, param_alias=alias).run()
        K = lambda nm: ("k", "idx_node." + nm)
        st = [s_ for s_ in r.stores() if tkey(base_of(s_.base)) == tkey(("n", "node_pit")) and len(s_.index) == 2]
        by = {}
        for s_ in st:
            by.setdefault(s_.index[1], []).append(s_)
        ok = set(by) == {K(vcol), K(tcol), K(ccol)} and all(len(v) == 1 for v in by.values())
        run.ob("set_fixed_node_entries|mode-%s-columns" % mode, ok and by[K(tcol)][0].value == K(typ),
               "mode %r fixes column %s, sets %s to %s and counts in %s" % (mode, vcol, tcol, typ, ccol), w,
               detail=str(sorted(tshow(k_) for k_ in by)))
        if not ok:
            continue
        sv, sc, stp = by[K(vcol)][0], by[K(ccol)][0], by[K(tcol)][0]
        G = [c for c in r.calls() if c.fn[0] == "f" and c.fn[1].endswith("._sum_by_group")]
        if len(G) != 1:
            raise AnalysisError("set_fixed_node_entries: expected one _sum_by_group call")
        g_ = G[0].term
        I = sv.index[0]
        run.ob("set_fixed_node_entries|%s|rows-of-the-grouped-junctions" % mode,
               I[0] == "idx" and I[2] == (("proj", g_, 0),) and tkey(sc.index[0]) == tkey(I) and tkey(stp.index[0]) == tkey(I),
               "value, counter and type are written at the pit rows of the grouped junctions (index lookup of the group keys)", w)
        env = {"I": I, "S": ("proj", g_, 1), "N": ("proj", g_, 2)}
        want = texpect(ix, f, "(node_pit[I, %s] * node_pit[I, %s] + S) / (N + node_pit[I, %s])" % (vcol, ccol, ccol), env=env)
        run.ob("set_fixed_node_entries|%s|running-mean" % mode, tkey(sv.value) == tkey(want),
               "new fixed value = (old*count + sum of new values)/(count + number of new values)", w, detail=tshow(sv.value)[:200])
        wantc = texpect(ix, f, "node_pit[I, %s] + N" % ccol, env=env)
        run.ob("set_fixed_node_entries|%s|counter-after-mean" % mode, tkey(sc.value) == tkey(wantc) and sc.seq > sv.seq,
               "the occurrence counter is increased by the number of new values after the mean was formed", w)
        # values of rows with a non-matching type are excluded before summing: one mask for keys, values and counts
        a_ = G[0].args
        mk = None
        if len(a_) == 4:
            m1 = match(("idx", ("n", "junctions"), (("?", "m"),)), a_[1])
            m2 = match(("idx", ("n", "values"), (("?", "m"),)), a_[2])
            if m1 and m2 and tkey(m1["m"]) == tkey(m2["m"]) and contains(a_[3], m1["m"]):
                mk = m1["m"]
        okm = mk is not None and mk[0] == "call" and mk[1] == ("x", "numpy.isin") and mk[2][0] == ("n", "types") \
            and mk[2][1][0] in ("list", "tuple", "set") and {x[1] for x in mk[2][1][1]} == valid
        run.ob("set_fixed_node_entries|%s|type-filter" % mode, okm,
               "only rows whose type is in %s enter the grouped sum (junctions, values and counts use one mask)" % sorted(valid), w,
               detail=tshow(mk)[:100] if mk else None)
        rets = sorted(r.returns(), key=lambda e: e.seq)
        run.ob("set_fixed_node_entries|%s|returns-rows" % mode, bool(rets) and tkey(rets[-1].value) == tkey(I),
               "the function returns the pit rows it fixed", w)
    # ---- callers
    for cname, mode_expect in (("ExtGrid", {"p": "p_bar", "t": "t_k"}), ("CirculationPump", {"p": "p_flow_bar"})):
        ci = [c for c in ix.all_classes() if c.name == cname][0]
        m = ci.methods["create_pit_node_entries"]
        run.analysed(m)
        # whole-function terms: keyword / positional spelling and temporaries do not matter
        rm = ANF(ix, m).run()
        got = {}
        for c in rm.calls():
            if c.fn != ("f", f.qualname) or len(c.args) < 7:
                continue
            mode = c.args[6][1] if c.args[6][0] == "c" else None
            v = c.args[4]
            while v[0] == "attr" and v[2] == "values":
                v = v[1]
            colname = None
            if v[0] == "attr":
                colname = v[2]
            elif v[0] == "idx" and len(v[2]) == 1 and v[2][0][0] == "c":
                colname = v[2][0][1]
            got[mode] = colname
        run.ob("%s|fixed-node-calls" % cname, got == mode_expect,
               "%s.create_pit_node_entries fixes %s" % (cname, mode_expect), run.where(m, m.node), detail=str(got))
        # only in-service rows
        filt = [n for n in own_walk(m.node) if isinstance(n, ast.Assign) and isinstance(n.value, ast.Subscript)
                and "active_identifier" in U(n.value.slice)]
        # ... and exactly those: the row mask of the element table is its own active flag and nothing else.  Whether the junction
        # an element sits on is calculated is decided by the connectivity search (it can put a junction back in service), not
        # by a flag the component reads itself -- an ext grid dropped here leaves a calculated junction without its pressure.
        def _strip(t):
            while t[0] == "attr" and t[2] == "values" or (t[0] == "call" and t[1][0] == "attr" and t[1][2] == "to_numpy" and not t[2]):
                t = t[1] if t[0] == "attr" else t[1][1]
            return t
        masks = []
        for c in rm.calls():
            if c.fn != ("f", f.qualname) or len(c.args) < 7:
                continue
            for sub in walk(c.args[2]):
                if sub[0] == "idx" and len(sub[2]) == 1 and any(x[0] == "call" and x[1][0] == "attr" and x[1][2] == "active_identifier"
                                                                 for x in walk(sub[2][0])):
                    inner = _strip(sub[2][0])
                    if inner[0] == "idx" and tkey(inner[1]) == tkey(sub[1]) and len(inner[2]) == 1 and inner[2][0][0] == "call" \
                            and inner[2][0][1][0] == "attr" and inner[2][0][1][2] == "active_identifier":
                        masks.append((True, sub[2][0]))
                    elif not (inner[0] == "call" and inner[1][0] == "attr" and inner[1][2] == "active_identifier"):
                        masks.append((False, sub[2][0]))
        if filt and not masks:
            raise AnalysisError("unrecognised shape: the row filter of %s.create_pit_node_entries is not table[mask]" % cname)
        # (term level: a mask kept in a temporary or spelled with to_numpy() is the same filter)
        run.ob("%s|in-service-rows-only" % cname, bool(masks),
               "%s passes only rows whose active identifier is set" % cname, run.where(m, m.node))
        bad = [mk for okk, mk in masks if not okk]
        run.ob("%s|row-filter-is-own-active-flag" % cname, bool(masks) and not bad,
               "the rows %s hands to set_fixed_node_entries are selected by table[table[active_identifier]] and by nothing else "
               "(an element of a calculated junction is never dropped because of a flag of another table)" % cname,
               run.where(m, m.node), detail=tshow(bad[0])[:200] if bad else None)
    # ---- circulation pump outlet temperature and pinned thermal row
    cp = [c for c in ix.all_classes() if c.name == "CirculationPump"][0]
    m = cp.methods["create_pit_branch_entries"]
    run.analysed(m)
    rcp = ANF(ix, m).run()
    ok = False
    for s_ in rcp.stores():
        if len(s_.index) == 2 and s_.index[1] == ("k", "idx_branch.TOUTINIT") and any(x[0] == "attr" and x[2] == "t_flow_k" for x in walk(s_.value)):
            sel = s_.index[0]
            ok = sel[0] == "call" and sel[1] == ("x", "numpy.isin") and sel[2][1][0] in ("list", "tuple", "set") \
                and {x[1] for x in sel[2][1][1]} == {"pt", "t"} and any(x[0] == "attr" and x[2] == "type" for x in walk(sel[2][0])) \
                and s_.value[0] == "idx" and tkey(s_.value[2][0]) == tkey(sel)
    run.ob("CirculationPump|outlet-temperature-imposed", ok,
           "pumps of type t/pt write TOUTINIT = t_flow_k", run.where(m, m.node))
    for sub in ("CirculationPumpMass", "CirculationPumpPressure"):
        ci = [c for c in ix.components() if c.name == sub][0]
        ki, k = phys.hook_summary(ix, ci, "adaption_after_derivatives_thermal")
        got = {key[3]: v for key, v in ki.pit.items() if key[0] == "branch_pit"}
        for colname, val in (("LOAD_VEC_BRANCHES_T", 0), ("JAC_DERIV_DTOUT", 1), ("JAC_DERIV_DT", 0)):
            run.ob("%s|thermal-identity-row|%s" % (sub, colname),
                   colname in got and got[colname].plain() is not None and got[colname].plain() == Poly.const(val),
                   "%s pins its thermal branch row: %s = %d on all its rows" % (sub, colname, val),
                   run.where(ix.lookup_method(ci, "adaption_after_derivatives_thermal"), ix.lookup_method(ci, "adaption_after_derivatives_thermal").node))
    run.floor(20)


def r10_5(run):
    ix = run.index
    # ---- the switch flag
    st = ix.func(P + ".solve_temperature")
    run.analysed(st)
    from ..arrnf import ANF, FULL, base_of, key as tkey, match, show as tshow
    ra = ANF(ix, st).run()
    FLAG, MD = ("k", "idx_branch.FROM_NODE_T_SWITCHED"), ("k", "idx_branch.MDOTINIT")
    sw = [s_ for s_ in ra.stores() if len(s_.index) == 2 and s_.index[0] == FULL and s_.index[1] == FLAG]
    ok = False
    if len(sw) == 1:
        v = sw[0].value
        bp = base_of(sw[0].base)
        m = match(("cmp", "<", ("idx", ("?", "b"), (FULL, MD)), ("?", "thr")), v)
        if m is None:
            m2 = match(("cmp", ">", ("?", "thr"), ("idx", ("?", "b"), (FULL, MD))), v)
            m = m2
        ok = m is not None and tkey(m["b"]) == tkey(bp) and m["thr"][0] == "c" and isinstance(m["thr"][1], (int, float)) and -1e-9 <= m["thr"][1] <= 0 \
            and not sw[0].cond and not sw[0].loops
    run.ob("switch-flag", ok, "FROM_NODE_T_SWITCHED = MDOTINIT < -eps with a small eps >= 0, set before the derivative calculation",
           run.where(st, st.node), detail=tshow(sw[0].value)[:120] if sw else None)
    users_ = [c for c in ra.calls() if (c.fn[0] == "f" and c.fn[1].endswith(".calculate_derivatives_thermal"))
              or (c.fn[0] == "attr" and c.fn[2].startswith("adaption_") and c.fn[2].endswith("_thermal"))]
    run.ob("switch-flag-before-use", bool(sw) and bool(users_) and sw[0].seq < min(c.seq for c in users_),
           "the switch flag is set before any thermal hook or kernel runs", run.where(st, st.node))
    # ---- corrected node formulas by constant folding
    FROM = ix.const("pandapipes.idx_branch", "FROM_NODE")
    TO = ix.const("pandapipes.idx_branch", "TO_NODE")
    for fname, exp in (("get_from_nodes_corrected", {0: FROM, 1: TO}), ("get_to_nodes_corrected", {0: TO, 1: FROM})):
        f = ix.func(IT + "." + fname)
        run.analysed(f)
        asg = [n for n in own_walk(f.node) if isinstance(n, ast.Assign) and isinstance(n.value, ast.BinOp)]
        ok = len(asg) == 1
        colname = U(asg[0].targets[0]) if ok else None
        vals = {}
        if ok:
            import copy
            for s in (0, 1):
                e = copy.deepcopy(asg[0].value)

                class R(ast.NodeTransformer):
                    def visit_Call(self, node):
                        if isinstance(node.func, ast.Attribute) and node.func.attr == "astype":
                            return ast.Constant(value=s)
                        return self.generic_visit(node)
                e = ast.fix_missing_locations(R().visit(e))
                try:
                    vals[s] = ix.eval_const(f.module, e)
                except AnalysisError:
                    vals[s] = None
            ret = [n for n in ast.walk(f.node) if isinstance(n, ast.Return)]
            ok = vals == exp and len(ret) == 1 and colname in U(ret[0].value) and "np.arange(len(branch_pit))" in U(ret[0].value)
            dflt = [n for n in own_walk(f.node) if isinstance(n, ast.Assign) and U(n.value).replace(" ", "") == "branch_pit[:,FROM_NODE_T_SWITCHED]"]
            ok = ok and len(dflt) == 1
        run.ob("%s|column-formula" % fname, ok,
               "%s selects column %s for switch=0 and %s for switch=1 of the same row, default switch = FROM_NODE_T_SWITCHED"
               % (fname, exp[0], exp[1]), run.where(f, f.node), detail=str(vals))
    # ---- users
    users = [(DC + ".calculate_derivatives_thermal", ("get_from_nodes_corrected", "get_to_nodes_corrected")),
             (PT + ".get_branch_real_density", ("get_from_nodes_corrected",)),
             (PT + ".get_branch_real_eta", ("get_from_nodes_corrected",)),
             (PT + ".get_branch_cp", ("get_from_nodes_corrected",)),
             ("pandapipes.pf.build_system_matrix.build_system_matrix", ("get_from_nodes_corrected", "get_to_nodes_corrected")),
             ("pandapipes.component_models.heat_consumer_component.HeatConsumer.adaption_before_derivatives_thermal", ("get_from_nodes_corrected",)),
             ("pandapipes.component_models.heat_consumer_component.HeatConsumer.extract_results", ("get_from_nodes_corrected",)),
             ("pandapipes.component_models.abstract_models.circulation_pump.CirculationPump.extract_results", ("get_from_nodes_corrected",))]
    for q, need in users:
        f = ix.func(q)
        run.analysed(f)
        have = {callee_name(c) for c in calls(f.node)}
        # a thermal consumer must not read TINIT through the uncorrected FROM_NODE column
        raw = [n for n in ast.walk(f.node) if isinstance(n, ast.Subscript) and U(n).replace(" ", "").endswith(",FROM_NODE]")
               and "heat" not in U(n)]
        uses_raw_for_T = False
        if q.endswith("build_system_matrix"):
            raw = []
        run.ob("uses-corrected-nodes|%s" % f.short, all(n in have for n in need),
               "%s obtains its thermal from/to nodes through %s" % (f.short, "/".join(need)), run.where(f, f.node))
    run.floor(10)


def r10_6(run):
    """the thermal law is compared with the numpy kernel (R10.1); the numba twin must compute the same guarded expressions
    (shared with C07 R7.1, restricted to the thermal kernel pair)"""
    from .c07 import r7_1
    r7_1(run, only={"derivatives_thermal"}, floor=4, residual_only=True)


def r10_7(run):
    """the heat-exchanging diameter of the cooling law is the outer diameter the user gave: wherever outer_diameter_mm is given,
    the DO column is that value; the inner diameter may replace it only where it is missing (NaN).  Every store into DO is
    therefore either independent of the inner diameter (outside a NaN-masked fallback) or restricted to the rows whose DO is NaN"""
    from ..arrnf import ANF, C, FULL, base_of, contains, key as tkey, show as tshow, walk
    ix = run.index
    n = 0
    inl = {"pandapipes.component_models.component_toolbox.set_entry_check_repeat"}
    for c in ix.all_classes():
        m = c.methods.get("create_pit_branch_entries")
        if not m:
            continue
        r = ANF(ix, m, options={"transient": False}, inline=inl, strip=True).run()
        DO, D = ("k", "idx_branch.DO"), ("k", "idx_branch.D")

        def nullmask(t):
            return t[0] == "call" and t[1] in (("x", "pandas.isnull"), ("x", "numpy.isnan"), ("x", "pandas.isna")) and len(t[2]) == 1

        def strip_fallback(t):
            """x{isnull(x) := y}  ->  x   (the value is only replaced where it is missing)"""
            if not isinstance(t, tuple) or not t:
                return t
            if t[0] == "upd" and len(t[2]) == 1 and nullmask(t[2][0]) and tkey(base_of(t[2][0][2][0])) == tkey(base_of(t[1])):
                return strip_fallback(t[1])
            return tuple(strip_fallback(x) if isinstance(x, tuple) else x for x in t)

        def inner_dependent(t):
            return any((x[0] == "attr" and x[2] == "inner_diameter_mm") or (x[0] == "idx" and x[2] and x[2][-1] == D)
                       or (x[0] == "idx" and x[2] == (C("inner_diameter_mm"),)) for x in walk(t))
        for s_ in r.stores():
            if not (len(s_.index) == 2 and s_.index[1] == DO):
                continue
            n += 1
            run.analysed(m)
            outer_given = any(contains(c_, C("outer_diameter_mm")) and p_ for c_, p_ in s_.cond)
            where = run.where(m, s_.node)
            key0 = "DO|%s|%s" % (c.name, tshow(s_.index[0])[:40])
            if s_.index[0] == FULL:
                # a value that is chosen by `"outer_diameter_mm" in <table>` (a helper with an early return, substituted): what
                # counts is the arm for tables that have the column; without the column there is nothing the user gave
                from ..arrnf import norm_cond as _nc

                def present_arm(t):
                    if not isinstance(t, tuple) or not t:
                        return t
                    if t[0] == "ite" and len(t) == 4:
                        c2, p2 = _nc(t[1], True)
                        if c2[0] == "cmp" and c2[1] in ("in", "not in") and c2[2] == C("outer_diameter_mm"):
                            has = p2 if c2[1] == "in" else not p2       # truth of the test when the column is present ...
                            return present_arm(t[2] if has else t[3])
                    return tuple(present_arm(x) if isinstance(x, tuple) else x for x in t)
                val = present_arm(s_.value)
                v = strip_fallback(val)
                uses_outer = any((x[0] == "attr" and x[2] == "outer_diameter_mm") or x == C("outer_diameter_mm") for x in walk(val))
                ok = (not uses_outer and not outer_given) or (uses_outer and not inner_dependent(v))
                run.ob(key0 + "|given-outer-diameter-kept", ok,
                       "where the user gives outer_diameter_mm, DO of %s rows is that value (the inner diameter enters only as "
                       "fallback for missing entries)" % c.name, where, detail=tshow(s_.value)[:200])
            else:
                sel = s_.index[0]
                ok = nullmask(sel) and sel[2][0][0] == "idx" and sel[2][0][2] == (FULL, DO)
                run.ob(key0 + "|fallback-only-where-missing", ok,
                       "a partial store into DO of %s rows is restricted to the rows whose DO is NaN" % c.name, where, detail=tshow(sel)[:120])
    run.ob("DO-writers-found", n >= 4, "stores into the DO column analysed: %d" % n, "component_models")
    run.floor(5)


def r10_8(run):
    """the parameters of the cooling law are taken element by element: what a component writes into a pit column for one
    element (ambient temperature TEXT, heat transfer coefficient, diameters, length ...) depends on that element's own inputs
    and on net-wide options, never on whether *other* elements of the table have a value (`if not np.any(np.isnan(col)): ...`
    adopts or drops everybody's values together).  Decided on the forward substitution of the pit-filling hooks of every
    component: no written pit value is guarded by a whole-array condition."""
    ix = run.index
    n = 0
    for c in ix.components():
        for h in ("create_pit_branch_entries", "create_pit_node_entries"):
            f = ix.lookup_method(c, h)
            if f is None or f.cls.name == "Component":
                continue
            for anyv in (True, False):
                try:
                    ki, k = hook_summary(ix, c, h, {"option:transient": False, "any:*": anyv}, partial=True)
                except (Unsupported, AnalysisError):
                    continue
                for key, v in ki.pit.items():
                    if key[1] != "i" and not isinstance(key[1], str):
                        pass
                    bad = sorted({a[1][:60] for gd, p in tonum(v).cases for a, pol in gd if a[0] == "flag" and str(a[1]).startswith("whole-array:")})
                    n += 1
                    if bad or anyv:
                        run.ob("%s.%s|%s|element-wise" % (c.name, h, key[3]), not bad,
                               "column %s of the %s rows is filled element by element (no value is adopted or dropped depending on "
                               "other rows of the table)" % (key[3], c.name), run.where(f, f.node), detail="; ".join(bad) if bad else None)
    run.stat("pit_values_checked_for_whole_array_conditions", n)
    run.floor(40)


_IDENT_CALLS = ("numpy.array", "numpy.asarray", "numpy.ascontiguousarray", "numpy.float64", "numpy.copy", "numpy.asanyarray")


def r10_9(run):
    """mode "heat": the flows and pressures the temperatures are calculated for are the given hydraulic solution, entry by
    entry.  use_given_hydraulic_results stores sol_vec[:n_nodes] into PINIT and sol_vec[n_nodes:] into MDOTINIT; up to a
    dtype conversion / copy nothing is done to the values (a masked overwrite, a clip, an abs() or a sign filter would
    make the cooling law and the mixing be evaluated for a flow that is not the reported one)."""
    from ..arrnf import ANF, key, show
    ix = run.index
    f = ix.func(P + ".use_given_hydraulic_results")
    params = [a.arg for a in f.node.args.args]
    if len(params) < 2:
        raise AnalysisError("use_given_hydraulic_results no longer takes (net, sol_vec)")
    sv = params[1]
    r = ANF(ix, f, strip=False).run()

    def strip(t):
        while isinstance(t, tuple) and t:
            if t[0] == "call" and t[1][0] == "x" and t[1][1] in _IDENT_CALLS and t[2]:
                t = t[2][0]
            elif t[0] == "call" and t[1][0] == "attr" and t[1][2] in ("astype", "copy", "ravel", "flatten"):
                t = t[1][1]
            else:
                break
        return t

    def pit_len(t, which):
        return (isinstance(t, tuple) and t[0] == "call" and t[1] == ("x", "builtins.len") and len(t[2]) == 1
                and key(t[2][0]) == key(("idx", ("idx", ("n", params[0]), (("c", "_pit"),)), (("c", which),))))

    def bound_ok(t, col):
        if not (isinstance(t, tuple) and t[0] == "idx" and t[1] == ("n", sv) and len(t[2]) == 1 and t[2][0][0] == "slice"):
            return False
        lo, hi, st = t[2][0][1:4]
        if st != ("c", None):
            return False
        if col == "idx_node.PINIT":
            return lo in (("c", None), ("c", 0)) and pit_len(hi, "node")
        if not pit_len(lo, "node"):
            return False
        if hi == ("c", None):
            return True
        return (hi[0] == "opn" and hi[1] == "+" and len(hi[2]) == 2 and sorted(
            ("node" if pit_len(x, "node") else "branch" if pit_len(x, "branch") else "?") for x in hi[2]) == ["branch", "node"])

    seen = {}
    for e in r.events:
        if e.kind != "store" or not e.index or len(e.index) != 2 or e.index[1][0] != "k":
            continue
        col = e.index[1][1]
        if col not in ("idx_node.PINIT", "idx_branch.MDOTINIT"):
            continue
        v = strip(e.value)
        ok = e.index[0] == ("slice", ("c", None), ("c", None), ("c", None)) and bound_ok(v, col)
        seen[col] = seen.get(col, True) and ok
        run.ob("use_given_hydraulic_results|%s|given-solution-unchanged" % col.split(".")[1], ok,
               "the %s column of all rows is the corresponding slice of the given solution vector, values untouched" % col.split(".")[1],
               run.where(f, e.node), detail=None if ok else show(e.value)[:200])
    if set(seen) != {"idx_node.PINIT", "idx_branch.MDOTINIT"}:
        raise AnalysisError("use_given_hydraulic_results: the stores into PINIT and MDOTINIT were not both found (%s)" % sorted(seen))
    run.floor(2)


RULES = [("R10.1", r10_1), ("R10.2", r10_2), ("R10.4", r10_4), ("R10.5", r10_5), ("R10.6", r10_6), ("R10.7", r10_7), ("R10.8", r10_8), ("R10.9", r10_9)]
