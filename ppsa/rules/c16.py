"""C16 -- element creation keeps the net referentially intact, atomic and as documented (structural part).

 R16.1 validate before write: no validator call and no raise is reachable after the first row writer
 R16.2 every value stored into a reference column (junction / pipe / std type) was handed to a validator
 R16.3 written columns = the component's input columns
 R16.4 parity of single / bulk siblings and of std-type / parameter siblings (defaults, columns, validators)
 R16.5 documented defaults equal the signature defaults
"""
import ast
import re

from ..astutil import U, assignments, calls, callee_name, const_str, docstring, own_walk
from ..cfg import CFG, calls_in
from ..source import AnalysisError

CR = "pandapipes.create"

EXPLANATION = (
    'All element-creating functions of pandapipes.create are enumerated from the source (functions that call _set_entries'
    ' / _set_multiple_entries). (R16.1) in the statement CFG of each, calls are classified as validators (_check_*, '
    '_get_*index_with_check, _check_std_type, _auto_ext_grid_type(s), check_pressure_controllability, explicit raise) or '
    'row writers (_set_entries, _set_multiple_entries, geodata stores, create_pump_std_type); no validator or raise may '
    'be reachable after a row writer, so a raising call leaves the tables unchanged (add_new_component only registers an '
    'empty table and is deliberately not counted as a write). (R16.2) every parameter written to a junction-, pipe- or '
    'std-type-typed column must also be an argument of a validator in the same function, and on every path to the row '
    'writer of a std_type column the name was checked or registered. (R16.3) the set of written columns equals the '
    "component's get_component_input columns. (R16.4) for each single/bulk pair and each std-type/parameter pair: equal "
    'defaults of corresponding parameters, equal written column sets, corresponding validators. (R16.5) `:type x: ..., '
    'default V` in the docstring equals the signature default. (R16.7) in the bulk writer a pandas Series argument is '
    'aligned by label only if all of its labels are labels of the new rows, otherwise its values are used by position (as'
    ' a list would be). (R16.6) a create call changes the addressed table(s) only: with the std-type and component-'
    'toolbox helpers inlined (copies kept as fresh objects), no store and no mutating method call of a create function '
    'targets an object whose possible origins (through element access, views, conditionals and .get) include '
    'net.std_types, net.fluid, net.user_pf_options or net.component_list. (R16.8) inside a loop of a bulk create function'
    " nothing consumes a fixed key from a mapping that outlives the loop (kwargs.pop('k'), del kwargs['k'], directly or "
    'inside a helper whose summary says so; a fresh copy handed to the helper is fine): the first pass would take the '
    "caller's option and all later elements would be created without it, so that bulk creation differs from one-by-one "
    'creation. Not decided: dtype preservation and index uniqueness at run time (pandapower helpers are trusted).')
ASSUMPTIONS = ["pandapower's _get_index_with_check / _check_element / _check_branch_element raise on duplicate indices and unknown junctions",
               "add_new_component only adds an empty table (schema registration)"]
TECHNIQUE = "CFG reachability with validator/writer classification, def-use of parameters into reference columns, sibling table agreement, docstring/signature agreement"
EXPLANATION += (' ' + '(R16.9) in the create functions and the helpers they reach, an optional numeric input (a parameter with default None or a value taken out of **kwargs whose name marks it as a quantity) is never tested by its truth value.')

VALIDATORS = {"_check_junction_element", "_check_multiple_junction_elements", "_check_branch", "_check_branches", "_check_std_type",
              "_get_index_with_check", "_get_multiple_index_with_check", "_check_element", "_check_multiple_elements",
              "_auto_ext_grid_type", "_auto_ext_grid_types", "check_pressure_controllability", "_check_branch_element",
              "_check_multiple_branch_elements"}
WRITERS = {"_set_entries", "_set_multiple_entries", "_add_multiple_branch_geodata", "create_pump_std_type"}
ROW_WRITERS = {"_set_entries", "_set_multiple_entries"}


def create_functions(ix):
    mi = ix.module(CR)
    out = []
    for f in mi.functions.values():
        if f.name.startswith("create_") and any(callee_name(c) in ROW_WRITERS for c in calls(f.node)):
            out.append(f)
    out.sort(key=lambda f: f.node.lineno)
    return out


def _is_net_store(n):
    if isinstance(n, ast.Assign):
        for t in n.targets:
            s = U(t)
            if s.startswith("net[") or s.startswith("net."):
                return True
    return False


def _table_name(fi, e, depth=0):
    """the table a create function writes: a string, a local name bound once to one, or <Component>.table_name()"""
    if const_str(e) is not None:
        return const_str(e)
    if isinstance(e, ast.Name) and depth < 3:
        asg = assignments(fi.node, e.id)
        if len(asg) == 1 and asg[0][2] is None:
            return _table_name(fi, asg[0][1], depth + 1)
    ix = getattr(fi, "_index", None)
    if isinstance(e, ast.Call) and isinstance(e.func, ast.Attribute) and e.func.attr == "table_name" and not e.args \
            and isinstance(e.func.value, ast.Name) and ix is not None:
        r = ix.resolve_in(fi, e.func.value.id)
        if r and r[0] == "class":
            return ix.method_const(r[1], "table_name")
    return None


def written_columns(fi):
    """{column: value expr} of the row writer call of a create function, and the table name"""
    cs = [c for c in calls(fi.node) if callee_name(c) in ROW_WRITERS]
    if len(cs) != 1:
        raise AnalysisError("%s has %d row writer calls" % (fi.name, len(cs)))
    c = cs[0]
    table = _table_name(fi, c.args[1]) if len(c.args) > 1 else None
    cols = {}
    for k in c.keywords:
        if k.arg is not None:
            if k.arg not in ("preserve_dtypes", "defaults_to_fill"):
                cols[k.arg] = k.value
            continue
        v = k.value
        if isinstance(v, ast.Name) and v.id == "kwargs":
            continue
        if isinstance(v, ast.Name):
            asg = assignments(fi.node, v.id)
            if len(asg) == 1 and isinstance(asg[0][1], ast.Dict):
                for kk, vv in zip(asg[0][1].keys, asg[0][1].values):
                    cols[const_str(kk)] = vv
                continue
        if isinstance(v, ast.Call) and callee_name(v) == "dict" and v.args and isinstance(v.args[0], ast.Call) and callee_name(v.args[0]) == "zip":
            z = v.args[0]
            lists = []
            for a in z.args:
                asg = assignments(fi.node, a.id) if isinstance(a, ast.Name) else []
                lists.append(asg[0][1] if len(asg) == 1 else None)
            if all(isinstance(x, ast.List) for x in lists) and len(lists) == 2 and len(lists[0].elts) == len(lists[1].elts):
                for kk, vv in zip(lists[0].elts, lists[1].elts):
                    cols[const_str(kk)] = vv
                continue
        raise AnalysisError("cannot determine the columns written by %s (%s)" % (fi.name, U(v)[:60]))
    return table, cols, c


def r16_1(run):
    ix = run.index
    fs = create_functions(ix)
    run.ob("create-functions-found", len(fs) >= 27, "element-creating functions found: %d" % len(fs), CR)
    for f in fs:
        run.analysed(f)
        cfg = CFG(f.node)
        wnodes, vnodes = [], []
        for n in cfg.nodes:
            if n.ast is None:
                continue
            names = [callee_name(c) for c in calls_in(n)]
            if any(x in WRITERS for x in names) or (n.kind == "stmt" and _is_net_store(n.ast)):
                wnodes.append(n)
            if any(x in VALIDATORS for x in names):
                vnodes.append((n, [x for x in names if x in VALIDATORS][0]))
            if n.kind == "stmt" and isinstance(n.ast, ast.Raise):
                vnodes.append((n, "raise"))
        run.ob("%s|has-validator-and-writer" % f.name, bool(wnodes) and any(k != "raise" for _, k in vnodes),
               "%s validates (index check) and writes" % f.name, run.where(f, f.node))
        after = set()
        for w in wnodes:
            after |= cfg.reachable([w.id])
        late = [(n, k) for n, k in vnodes if n.id in after]
        for n, k in late:
            what = U(n.ast if n.test is None else n.test).split("\n")[0][:70]
            run.ob("%s|no-check-after-write|%s" % (f.name, re.sub(r"\s+", " ", what)), False,
                   "no validator call or raise is reachable after a row was written (atomicity)", run.where(f, n.ast),
                   detail="`%s` can execute after the write" % what)
        if not late:
            run.ob("%s|no-check-after-write" % f.name, True,
                   "no validator call or raise is reachable after a row was written (atomicity)", run.where(f, f.node))
    run.floor(56)


def reference_columns(ix):
    """table -> {column: target kind}: junction references from the component classes"""
    out = {}
    for c in ix.components():
        tbl = ix.method_const(c, "table_name")
        cols = ix.method_const(c, "get_component_input") or []
        names = [x[0] for x in cols]
        d = {}
        ft = ix.method_const(c, "from_to_node_cols") if ix.is_subclass(c, "BranchComponent") else None
        if ft:
            for x in ft:
                d[x] = "junction"
        if "junction" in names:
            d["junction"] = "junction"
        if "controlled_junction" in names:
            d["controlled_junction"] = "junction"
        if "std_type" in names:
            d["std_type"] = "std_type"
        if tbl == "valve":
            d["element"] = "junction-or-pipe"
        out[tbl] = d
    return out


def r16_2(run):
    ix = run.index
    refs = reference_columns(ix)
    n = 0
    for f in create_functions(ix):
        table, cols, wcall = written_columns(f)
        params = set(f.params())
        vargs = {}
        for c in calls(f.node):
            # check_pressure_controllability is optional (check_controllability=False skips it): not a reference validator
            if callee_name(c) in VALIDATORS and callee_name(c) != "check_pressure_controllability":
                for a in list(c.args) + [k.value for k in c.keywords]:
                    for x in ast.walk(a):
                        if isinstance(x, ast.Name):
                            vargs.setdefault(x.id, []).append(callee_name(c))
        # membership tests that raise count as validation (create_valve: element in net.pipe.index)
        for node in ast.walk(f.node):
            if isinstance(node, ast.If) and any(isinstance(s, ast.Raise) for s in node.body):
                for x in ast.walk(node.test):
                    if isinstance(x, ast.Name):
                        vargs.setdefault(x.id, []).append("raise-guard")
        for col, kind in sorted(refs.get(table, {}).items()):
            if col not in cols:
                continue
            v = cols[col]
            n += 1
            if isinstance(v, ast.Constant) and v.value is None:
                run.ob("%s|%s|reference-checked" % (f.name, col), kind == "std_type", "column %s stores no reference (None)" % col, run.where(f, wcall))
                continue
            names = [x.id for x in ast.walk(v) if isinstance(x, ast.Name) and x.id in params]
            ok = bool(names) and all(nm in vargs for nm in names)
            if kind == "std_type" and ok:
                ok = any("_check_std_type" in vargs.get(nm, []) for nm in names) or _std_type_registered_on_all_paths(f, wcall)
            run.ob("%s|%s|reference-checked" % (f.name, col), ok,
                   "the %s reference stored in %s.%s is validated before the row is written" % (kind, table, col),
                   run.where(f, wcall), detail="value %s; validators seeing it: %s" % (U(v), {nm: vargs.get(nm) for nm in names}))
    run.ob("reference-columns-found", n >= 45, "reference columns examined: %d" % n, CR)
    run.floor(45)


def _std_type_registered_on_all_paths(f, wcall):
    """on every path to the row writer a create_pump_std_type call (registration) or a raise precedes"""
    cfg = CFG(f.node)
    reg = {n.id for n in cfg.nodes if any(callee_name(c) in ("create_pump_std_type", "_check_std_type") for c in calls_in(n))}
    wn = cfg.containing(wcall)
    if wn is None:
        return False
    reach = cfg.reachable([cfg.entry], lambda a, b, lab: a not in reg, include_starts=False)
    # nodes reachable from entry without passing a registration node
    return wn.id not in reach


def r16_3(run):
    ix = run.index
    for f in create_functions(ix):
        table, cols, wcall = written_columns(f)
        try:
            comp = ix.component_by_table(table)
        except AnalysisError:
            run.ob("%s|table-known" % f.name, False, "table %r belongs to a component" % table, run.where(f, wcall))
            continue
        inp = [x[0] for x in (ix.method_const(comp, "get_component_input") or [])]
        extra = sorted(set(cols) - set(inp))
        missing = sorted(set(inp) - set(cols))
        run.ob("%s|columns-subset-of-input" % f.name, not extra,
               "every written column is an input column of %s" % comp.name, run.where(f, wcall), detail="extra: %s" % extra)
        run.ob("%s|all-input-columns-written" % f.name, not missing,
               "every input column of %s is written" % comp.name, run.where(f, wcall), detail="missing: %s" % missing)
        # boolean columns are normalised with bool() in the single-element functions
    run.floor(54)


def _defaults(fi):
    a = fi.node.args
    pos = a.posonlyargs + a.args
    d = {}
    for p, dv in zip(reversed(pos), reversed(a.defaults)):
        d[p.arg] = dv
    return d


PLURAL = {"junction": "junctions", "from_junction": "from_junctions", "to_junction": "to_junctions", "element": "elements",
          "controlled_junction": "controlled_junctions"}


def r16_4(run):
    ix = run.index
    fs = {f.name: f for f in create_functions(ix)}
    pairs = []
    for name, f in fs.items():
        for bulk in (name + "s", name.replace("_from_parameters", "s_from_parameters") if name.endswith("_from_parameters") else None):
            if bulk and bulk in fs and bulk != name:
                pairs.append((f, fs[bulk]))
    run.ob("single-bulk-pairs-found", len(pairs) >= 11, "single/bulk pairs: %s" % [(a.name, b.name) for a, b in pairs], CR)
    for a, b in pairs:
        da, db = _defaults(a), _defaults(b)
        for p, dv in da.items():
            q = PLURAL.get(p, p)
            if q in db:
                same = U(dv) == U(db[q])
                run.ob("parity|%s/%s|default|%s" % (a.name, b.name, p), same,
                       "default of %s is the same in %s (%s) and %s (%s)" % (p, a.name, U(dv), b.name, U(db[q])), run.where(a, a.node))
        ta, ca, _ = written_columns(a)
        tb, cb, _ = written_columns(b)
        run.ob("parity|%s/%s|table-and-columns" % (a.name, b.name), ta == tb and set(ca) == set(cb),
               "both write the same columns of the same table", run.where(b, b.node),
               detail="only single: %s; only bulk: %s" % (sorted(set(ca) - set(cb)), sorted(set(cb) - set(ca))))
        va = {_kind(callee_name(c)) for c in calls(a.node) if callee_name(c) in VALIDATORS}
        vb = {_kind(callee_name(c)) for c in calls(b.node) if callee_name(c) in VALIDATORS}
        va.discard(None)
        vb.discard(None)
        run.ob("parity|%s/%s|validators" % (a.name, b.name), va == vb,
               "both run the same kinds of checks (%s vs %s)" % (sorted(va), sorted(vb)), run.where(b, b.node))
    # std-type vs parameter siblings
    for a, b in (("create_pipe", "create_pipe_from_parameters"), ("create_pipes", "create_pipes_from_parameters"),
                 ("create_pump", "create_pump_from_parameters")):
        if a in fs and b in fs:
            ta, ca, _ = written_columns(fs[a])
            tb, cb, _ = written_columns(fs[b])
            run.ob("parity|%s/%s|table-and-columns" % (a, b), ta == tb and set(ca) == set(cb),
                   "elements created from a std type and from parameters have the same columns", run.where(fs[b], fs[b].node),
                   detail="only %s: %s; only %s: %s" % (a, sorted(set(ca) - set(cb)), b, sorted(set(cb) - set(ca))))
            da, db = _defaults(fs[a]), _defaults(fs[b])
            for p in sorted(set(da) & set(db)):
                run.ob("parity|%s/%s|default|%s" % (a, b, p), U(da[p]) == U(db[p]),
                       "default of %s is the same in %s (%s) and %s (%s)" % (p, a, U(da[p]), b, U(db[p])), run.where(fs[a], fs[a].node))
    run.floor(60)


def _kind(name):
    if name in ("_check_junction_element", "_check_multiple_junction_elements", "_check_element", "_check_multiple_elements"):
        return "node-reference"
    if name in ("_check_branch", "_check_branches"):
        return "branch-reference"
    if name in ("_get_index_with_check", "_get_multiple_index_with_check"):
        return "index"
    if name in ("_auto_ext_grid_type", "_auto_ext_grid_types"):
        return "type-inference"
    if name == "_check_std_type":
        return "std-type"
    if name == "check_pressure_controllability":
        return None
    return name


def r16_5(run):
    ix = run.index
    mi = ix.module(CR)
    n = 0
    for f in mi.functions.values():
        if not f.name.startswith("create_"):
            continue
        doc = docstring(f.node)
        if not doc:
            continue
        d = _defaults(f)
        for m in re.finditer(r":type\s+(\w+):\s*([^\n]*?),\s*default\s+([^\n]+)", doc):
            p, typ, val = m.group(1), m.group(2), m.group(3).strip()
            if p not in d:
                continue
            tok = val.split()[0].rstrip(".,;") if val else ""
            try:
                lit = ast.literal_eval(tok)
            except Exception:
                if tok in ("np.inf", "inf"):
                    lit = float("inf")
                else:
                    continue
            try:
                sig = ix.eval_const(CR, d[p]) if not (isinstance(d[p], ast.Attribute) and U(d[p]) == "np.inf") else float("inf")
            except AnalysisError:
                continue
            n += 1
            ok = (lit == sig) and (type(lit) == type(sig) or (isinstance(lit, (int, float)) and isinstance(sig, (int, float))
                                                              and not isinstance(lit, bool) and not isinstance(sig, bool)))
            run.ob("%s|doc-default|%s" % (f.name, p), ok,
                   "documented default of %s.%s (%s) equals the signature default (%r)" % (f.name, p, tok, sig), run.where(f, f.node))
    run.ob("documented-defaults-found", n >= 100, "documented defaults compared: %d" % n, CR)
    run.floor(100)


FRESH_CALLS = ("copy.deepcopy", "copy.copy", "builtins.dict", "builtins.list", "builtins.set", "builtins.tuple", "builtins.sorted")
VIEW_ATTRS = {"values", "loc", "iloc", "at", "iat", "index", "columns", "T"}
SHARED_KEYS = ("std_types", "fluid", "user_pf_options", "component_list", "controller")


def origins(t):
    """objects a mutable term may alias (copies and fresh containers have none)"""
    h = t[0]
    if h == "upd":
        yield from origins(t[1])
    elif h == "ite":
        yield from origins(t[2])
        yield from origins(t[3])
    elif h == "idx":
        for o in origins(t[1]):
            yield ("idx", o, t[2])
    elif h == "attr":
        if t[2] in VIEW_ATTRS:
            for o in origins(t[1]):
                yield ("attr", o, t[2])
        else:
            yield t
    elif h == "proj":
        for o in origins(t[1]):
            yield ("proj", o, t[2])
    elif h == "call":
        fn = t[1]
        if fn[0] == "x" and (fn[1] in FRESH_CALLS or fn[1].startswith(("numpy.", "pandas."))):
            return
        if fn[0] == "attr" and fn[2] in ("copy", "deepcopy", "astype", "tolist", "to_numpy", "keys", "items"):
            return
        if fn[0] == "attr" and fn[2] in ("get", "setdefault", "pop") and t[2]:
            for o in origins(fn[1]):
                yield ("idx", o, (t[2][0],))
            return
        yield t
    elif h in ("n", "loop", "carried", "phi", "b"):
        yield t


def r16_6(run):
    """a create call changes the addressed table(s) only: nothing reachable from a create function stores into (or calls a
    mutating method on) an object that aliases the net's standard-type library, fluid or options"""
    from ..arrnf import ANF, C, contains, key as tkey, show as tshow, Unsupported as AUnsupported
    ix = run.index
    helpers = set()
    for mod in ("pandapipes.std_types.std_types", "pandapipes.component_models.component_toolbox"):
        for g in ix.module(mod).functions.values():
            helpers.add(g.qualname)
    # functions whose purpose is to edit the library are not create functions of elements
    helpers -= {q for q in helpers if q.rsplit(".", 1)[1] in ("create_std_type", "create_std_types", "delete_std_type", "change_std_type",
                                                              "add_basic_std_types", "create_pump_std_type", "create_dynamic_valve_std_type",
                                                              "copy_std_types", "add_new_component", "init_results_element")}
    mut = {"update", "pop", "clear", "setdefault", "append", "extend", "insert", "remove", "popitem", "sort", "fill", "__setitem__"}
    n = 0
    for f in create_functions(ix):
        run.analysed(f)
        try:
            r = ANF(ix, f, inline=helpers, strip=False, param_alias={f.params()[0]: "net"}).run()
        except AUnsupported as e:
            raise AnalysisError("create function %s not analysable: %s" % (f.name, e))
        shared = [("idx", ("n", "net"), (C(k),)) for k in SHARED_KEYS]
        bad = []
        sites = 0
        for e in r.events:
            tgt = None
            if e.kind == "store":
                tgt = e.base
            elif e.kind == "call" and e.fn[0] == "attr" and e.fn[2] in mut:
                tgt = e.fn[1]
            if tgt is None:
                continue
            sites += 1
            for o in origins(tgt):
                if any(contains(o, s_) for s_ in shared):
                    bad.append((e, o))
        n += sites
        run.ob("%s|no-write-into-shared-net-objects" % f.name, not bad,
               "%s (with its std-type / toolbox helpers inlined) stores only into fresh objects or the addressed tables, never into "
               "net.std_types / net.fluid / net.user_pf_options (%d store / mutator sites)" % (f.name, sites),
               run.where(f, bad[0][0].node) if bad else run.where(f, f.node),
               detail="; ".join("%s aliases %s" % (tshow(e.base if e.kind == "store" else e.fn[1])[:120], tshow(o)[:80]) for e, o in bad[:3]))
    run.stat("store_sites_in_create_functions", n)
    run.floor(25)


def r16_7(run):
    """bulk creation equals one-by-one creation also for pandas Series arguments: a Series is aligned by label only if ALL of its
    labels are labels of the new rows; otherwise its values are taken by position (label alignment of a partly overlapping Series
    leaves NaN in some new rows and puts values into wrong rows)"""
    from ..arrnf import ANF, norm_cond, show as tshow, walk
    ix = run.index
    f = ix.func("pandapipes.create._set_multiple_entries")
    run.analysed(f)
    # the entry filter: the nested def or private helper of _set_multiple_entries that maps a Series entry to its `.values`
    # on some path (found by what it does, in the tree as written; flattening substitutes it into the caller)
    from ..index import FunctionInfo
    cands = [FunctionInfo(f.module, n.name, n, parent=f) for n in f.raw_node.body if isinstance(n, ast.FunctionDef)]
    for n in ast.walk(f.raw_node):
        if isinstance(n, ast.Call) and isinstance(n.func, ast.Name) and n.func.id.startswith("_"):
            rr = ix.resolve_in(f, n.func.id)
            if rr and rr[0] == "func" and rr[1].qualname != f.qualname and rr[1] not in cands:
                cands.append(rr[1])
    found = []
    for g_ in cands:
        if not g_.params():
            continue
        try:
            r_ = ANF(ix, g_, param_alias={g_.params()[0]: "val"}).run()
        except AnalysisError:
            continue
        if any(e.value == ("attr", ("n", "val"), "values") for e in r_.returns()):
            found.append((g_, r_))
    if len(found) != 1:
        raise AnalysisError("unrecognised shape: _set_multiple_entries has %d entry filters (expected one)" % len(found))
    g, r = found[0]
    pos = [e for e in r.returns() if e.value == ("attr", ("n", "val"), "values")]
    if len(pos) != 1 or not pos[0].cond:
        raise AnalysisError("the positional arm of the Series filter was not found")
    c_, p_ = norm_cond(*pos[0].cond[-1])
    parts = list(c_[2]) if c_[0] == "bool" and c_[1] == "and" else [c_]
    test = None
    for x in parts:
        x2, pol = norm_cond(x, p_)
        if any(y[0] == "call" and y[1] == ("x", "numpy.isin") for y in walk(x2)):
            test = (x2, pol)
    if test is None:
        raise AnalysisError("unrecognised shape: condition of the positional arm: %s" % tshow(c_)[:160])
    t, pol = test
    isin = [y for y in walk(t) if y[0] == "call" and y[1] == ("x", "numpy.isin")][0]
    covers = isin[2][0] == ("attr", ("n", "val"), "index")
    neg_inner = any(y[0] == "u" and y[1] == "~" and y[2] == isin for y in walk(t))
    agg = t[1][1].split(".")[-1] if t[0] == "call" and t[1][0] == "x" else None
    if agg not in ("all", "any") or not covers:
        raise AnalysisError("unrecognised shape: Series label test %s" % tshow(t)[:160])
    # positional  <=>  some label of the Series is not a new row label
    positional_iff_some_missing = (agg == "all" and not neg_inner and pol is False) or (agg == "any" and neg_inner and pol is True)
    run.ob("_set_multiple_entries|series-aligned-only-if-all-labels-are-new-rows", positional_iff_some_missing,
           "a Series argument is used by position unless all of its labels are labels of the new rows", run.where(f, pos[0].node),
           detail="positional when %s%s" % ("" if pol else "not ", tshow(t)[:120]))
    run.floor(1)


CONSUMING = {"pop", "popitem", "clear", "remove"}


def _consumed_keys(ix):
    """qualname -> {parameter: {constant keys the function removes from the mapping bound to it}} (directly or through callees)"""
    fns = [f for f in ix.all_functions()]
    summ = {}
    for f in fns:
        params = set(f.params())
        a = f.raw_node.args
        if a.kwarg is not None:
            params.add(a.kwarg.arg)
        d = {}
        for n in ast.walk(f.raw_node):
            if isinstance(n, ast.Call) and isinstance(n.func, ast.Attribute) and n.func.attr in CONSUMING \
                    and isinstance(n.func.value, ast.Name) and n.func.value.id in params:
                k = const_str(n.args[0]) if n.args else None
                d.setdefault(n.func.value.id, set()).add(k if k is not None else "*")
            elif isinstance(n, ast.Delete):
                for t in n.targets:
                    if isinstance(t, ast.Subscript) and isinstance(t.value, ast.Name) and t.value.id in params:
                        k = const_str(t.slice)
                        d.setdefault(t.value.id, set()).add(k if k is not None else "*")
        summ[f.qualname] = d
    changed = True
    while changed:
        changed = False
        for f in fns:
            params = set(f.params()) | ({f.raw_node.args.kwarg.arg} if f.raw_node.args.kwarg else set())
            for n in ast.walk(f.raw_node):
                if not isinstance(n, ast.Call):
                    continue
                for g, bound in _bound_names(ix, f, n):
                    for gp, keys in summ.get(g.qualname, {}).items():
                        nm = bound.get(gp)
                        if nm in params and not keys <= summ[f.qualname].get(nm, set()):
                            summ[f.qualname].setdefault(nm, set()).update(keys)
                            changed = True
    return summ


def _bound_names(ix, f, call):
    """[(callee, {callee parameter: caller name handed over as it is})] -- only plain names are objects shared with the caller"""
    out = []
    try:
        targets = ix.resolve_call(f, call)
    except Exception:  # noqa
        targets = []
    for g in targets:
        gp = g.params()
        skip = 1 if (g.cls is not None and gp and gp[0] in ("cls", "self")) else 0
        bound = {}
        for i, a in enumerate(call.args):
            if isinstance(a, ast.Name) and i + skip < len(gp):
                bound[gp[i + skip]] = a.id
        for k in call.keywords:
            if k.arg and isinstance(k.value, ast.Name):
                bound[k.arg] = k.value.id
        out.append((g, bound))
    return out


def r16_8(run):
    """bulk creation equals one-by-one creation also for options handed over as keyword dictionary: inside a loop over the
    elements (std types, rows) of a bulk create function nothing *consumes* a fixed key from a mapping that outlives the loop
    (kwargs.pop('k') directly or inside a helper): the first pass would take the option and every later element would be created
    without it"""
    ix = run.index
    summ = _consumed_keys(ix)
    n_loops = 0
    for f in create_functions(ix):
        loops = [n for n in ast.walk(f.raw_node) if isinstance(n, (ast.For, ast.While))]
        if loops:
            run.analysed(f)
        for lp in loops:
            n_loops += 1
            bound_inside = {t.id for st in ast.walk(lp) for t in ast.walk(st) if isinstance(t, ast.Name) and isinstance(t.ctx, ast.Store)}
            bad = []
            for st in lp.body:
                for n in ast.walk(st):
                    if isinstance(n, ast.Call) and isinstance(n.func, ast.Attribute) and n.func.attr in CONSUMING \
                            and isinstance(n.func.value, ast.Name) and n.func.value.id not in bound_inside:
                        k = const_str(n.args[0]) if n.args else "*"
                        if k is not None:       # a key computed from the loop variable is a different key in every pass
                            bad.append((n, "%s.%s(%r)" % (n.func.value.id, n.func.attr, k)))
                    elif isinstance(n, ast.Delete):
                        for t in n.targets:
                            if isinstance(t, ast.Subscript) and isinstance(t.value, ast.Name) and t.value.id not in bound_inside \
                                    and const_str(t.slice) is not None:
                                bad.append((n, "del %s[%r]" % (t.value.id, const_str(t.slice))))
                    elif isinstance(n, ast.Call):
                        for g, bound in _bound_names(ix, f, n):
                            for gp, keys in summ.get(g.qualname, {}).items():
                                nm = bound.get(gp)
                                if nm is not None and nm not in bound_inside:
                                    bad.append((n, "%s(%s) removes %s from %s" % (g.name, nm, "/".join(sorted(repr(k) for k in keys)), nm)))
            # a loop that is left right after the consuming statement runs it once
            leaves = any(isinstance(x, (ast.Break, ast.Return)) for st in lp.body for x in ast.walk(st))
            what = U(lp.target) + " in " + U(lp.iter) if isinstance(lp, ast.For) else U(lp.test)
            run.ob("%s|loop|%s|passes-independent" % (f.name, what[:40]), not bad or leaves,
                   "no pass of the loop `%s` of %s consumes an option from a mapping that later passes read" % (what[:60], f.name),
                   run.where(f, bad[0][0] if bad else lp), detail="; ".join(sorted({b for _, b in bad}))[:300] if bad else None)
    run.stat("loops_in_create_functions", n_loops)
    run.floor(1)


RULES = [("R16.1", r16_1), ("R16.2", r16_2), ("R16.3", r16_3), ("R16.4", r16_4), ("R16.5", r16_5), ("R16.6", r16_6), ("R16.7", r16_7), ("R16.8", r16_8)]


def truthiness_sites(ix):
    """[(function, test node, name, how it was bound)]: a value taken out of the caller's keyword arguments (kwargs.pop(k, None),
    kwargs.get(k), kwargs[k]) or an optional parameter with default None is tested by its truth value (`if x:`, `x or d`, `not x`,
    `a if x else b`) in the create functions and the helpers they call; and the number of such optional values looked at"""
    from ..callgraph import CallGraph
    cg = CallGraph(ix)
    roots = [f for f in ix.module("pandapipes.create").functions.values() if f.name.startswith("create_")]
    funcs = [f for f in cg.reachable(roots).values() if f.module.startswith("pandapipes") and ".test." not in f.module]
    out, n = [], 0
    for f in funcs:
        node = f.raw_node
        opt = {}
        a = node.args
        pos = a.posonlyargs + a.args
        for p_, d in zip(reversed(pos), reversed(a.defaults)):
            if isinstance(d, ast.Constant) and d.value is None:
                opt[p_.arg] = "parameter with default None"
        for p_, d in zip(a.kwonlyargs, a.kw_defaults):
            if isinstance(d, ast.Constant) and d.value is None:
                opt[p_.arg] = "parameter with default None"
        kwname = a.kwarg.arg if a.kwarg else None
        for s_ in ast.walk(node):
            if isinstance(s_, ast.Assign) and len(s_.targets) == 1 and isinstance(s_.targets[0], ast.Name):
                v = s_.value
                if isinstance(v, ast.Call) and isinstance(v.func, ast.Attribute) and v.func.attr in ("pop", "get") \
                        and isinstance(v.func.value, ast.Name) and v.func.value.id in (kwname, "kwargs") and v.args and const_str(v.args[0]):
                    opt[s_.targets[0].id] = "%s.%s(%r, ..)" % (v.func.value.id, v.func.attr, const_str(v.args[0]))
        # numeric-looking names only: names of flags / containers / strings are commonly and rightly tested by truth value
        numeric = {k: v for k, v in opt.items() if re.search(r"(_mm|_m|_km|_k|_bar|_w|_kw|_mw|_kg|_per_|coefficient|_m2k|^k$|^u$|^alpha$|diameter|length|height|sections|scaling)", k)}
        n += len(numeric)

        def tests(t):
            if isinstance(t, ast.Name):
                yield t
            elif isinstance(t, ast.UnaryOp) and isinstance(t.op, ast.Not):
                yield from tests(t.operand)
            elif isinstance(t, ast.BoolOp):
                for v_ in t.values:
                    yield from tests(v_)
        for s_ in ast.walk(node):
            cands = []
            if isinstance(s_, (ast.If, ast.While, ast.IfExp)):
                cands = list(tests(s_.test))
            elif isinstance(s_, ast.BoolOp) and isinstance(s_.op, ast.Or):
                cands = [v_ for v_ in s_.values[:-1] if isinstance(v_, ast.Name)]
            elif isinstance(s_, ast.Assert):
                cands = list(tests(s_.test))
            for nm in cands:
                if nm.id in numeric:
                    out.append((f, s_, nm.id, numeric[nm.id]))
    return out, n


def r16_9(run):
    """what the caller asked for is stored: an optional numeric argument (a roughness, a heat transfer coefficient, a diameter
    handed in through **kwargs or a parameter with default None) is recognised by `is not None` / `in kwargs`, never by its truth
    value -- `k = kwargs.pop('k_mm', None); if k:` drops an override of exactly 0, the standard-type value is stored instead, and
    single and bulk creation disagree."""
    ix = run.index
    sites, n = truthiness_sites(ix)
    seen = set()
    for f, node, name, how in sites:
        k = (f.short, name)
        if k in seen:
            continue
        seen.add(k)
        run.analysed(f)
        run.ob("%s|%s|presence-not-truth-value" % (f.short, name), False,
               "optional numeric input %s (%s) is tested with `is not None` / `in`, not by its truth value" % (name, how), run.where(f, node))
    if n < 5:
        raise AnalysisError("only %d optional numeric inputs found in the create functions" % n)
    run.ob("optional-numeric-inputs-scanned", not sites,
           "optional numeric inputs of the create functions and their helpers: %d, none tested by truth value" % n, "src/pandapipes/create.py")
    run.floor(1)


RULES.append(("R16.9", r16_9))

EXPLANATION += (' ' + '(R16.10) regression_function (the fit behind create_pump_from_parameters, called before anything is written) refuses a non-integer '
                'polynomial degree: a test on `degree` guards a raise on the branch of the invalid value, and np.polyfit receives `degree` itself, not a value '
                'rounded on the way.')


def r16_10(run):
    """invalid arguments are refused with the net unchanged: reg_polynomial_degree is documented as an integer.  The pump-curve fit
    raises for a non-integer degree (the raise is what stops create_pump_from_parameters before the std type and the pump row are
    written); a logged warning followed by a fit with the truncated degree registers a curve the caller did not ask for."""
    ix = run.index
    rf = ix.func("pandapipes.std_types.std_type_class.regression_function")
    run.analysed(rf)
    w = run.where(rf, rf.node)
    guards = []
    for n in own_walk(rf.node):
        if isinstance(n, ast.If) and "degree" in U(n.test):
            for arm in (n.body, n.orelse):
                if arm and isinstance(arm[-1], ast.Raise):
                    guards.append(n)
    run.ob("regression_function|non-integer-degree-raises", bool(guards),
           "a test on `degree` guards a raise: an invalid polynomial degree stops the creation before anything is written", w)
    fits = [c for c in calls(rf.node) if callee_name(c) in ("polyfit", "np.polyfit", "numpy.polyfit") or U(c.func).endswith("polyfit")]
    if not fits:
        raise AnalysisError("unrecognised shape: regression_function does not call polyfit")
    for c in fits:
        a = c.args[2] if len(c.args) > 2 else next((k.value for k in c.keywords if k.arg == "deg"), None)
        run.ob("regression_function|polyfit-gets-the-given-degree", isinstance(a, ast.Name) and a.id == "degree",
               "np.polyfit is handed the degree the caller gave (no silent rounding between the check and the fit)", run.where(rf, c),
               detail=U(a) if a is not None else None)
    # the fit happens before the first write of create_pump_from_parameters (R16.1 orders checks and writes there)
    run.floor(2)


RULES.append(("R16.10", r16_10))
