"""C03 -- prescribed pressures, flows, lifts and ratios are met exactly.

 R3.1 every flow-prescribing component pins its hydraulic branch row (identity quartet) on one common row selection
 R3.2 fixed-pressure rows: running mean of fixed values, node typing, pressure-controller wiring
 R3.3 lifts: circulation pump (pressure), compressor ratio with reverse-flow guard, pump curve at the reported volume flow
 R3.4 const-flow components: LOAD accumulation and reported mass flow = mdot * scaling
"""
import ast

from .. import phys
from ..algebra import BExpr, GExpr, Poly, apply_fn, b_le0, b_ne0, compare, poly_from_key, select
from ..astutil import U, calls, callee_name, const_str, own_walk
from ..kernelir import PyVal
from ..phys import bcol, check_equal, component, g, hook_summary, ncol, pit_cols, tonum
from ..source import AnalysisError

EXPLANATION = (
    'Component hooks are summarised per concrete class by forward substitution (cls./super() resolved through the MRO, '
    'user-table columns, component arrays and index lookups as symbols, masks as guards). (R3.1) the set of flow-'
    'prescribing components is computed from the repository (create_pit_branch_entries feeds MDOTINIT from a user '
    'column); for each, adaption_after_derivatives_hydraulic must write the identity quartet JAC_DERIV_DP=0, '
    'JAC_DERIV_DP1=0, JAC_DERIV_DM=1, LOAD_VEC_BRANCHES=0 on ONE row selection (all rows, or the control_active rows) and'
    ' leave the other rows untouched. (R3.2) set_fixed_node_entries forms the running mean (old*count+sum)/(count+n), '
    'counts and types the node; ext grids and circulation pumps pass in-service rows and their p_bar/p_flow_bar and mark '
    'the slack-mass derivative; the pressure controller writes controlled_p_bar into PINIT of the controlled junction for'
    ' control_active & in_service rows, types the node PC before the derivatives and zeroes its branch derivatives on PC '
    'branches, BRANCH_TYPE=PC only for control_active. (R3.3) PL=plift_bar with derivatives (1,-1); compressor PL = '
    '(PAMB+PINIT)[from]*(ratio-1), 0 for reverse flow; the pump evaluates its curve at a volume flow that must equal the '
    'volume flow the result extraction reports (liquids) / the inlet volume flow (gases). (R3.4) LOAD += group sum of '
    'in_service*scaling*sign*nan_to_num(mdot) per junction; sign literals +1/-1/+1; report = mdot*scaling on in-service '
    'rows at active junctions. (R3.6) several elements may prescribe a value at one junction: every read-modify-write '
    'store through an index array in set_fixed_node_entries and ConstFlow.create_pit_node_entries (`pit[rows, c] = '
    'g(pit[rows, c], v)`, `pit[rows, c] += v`) uses rows that are unique by construction -- the keys of a group sum / '
    'np.unique passed through an index lookup; with a repeated row numpy keeps only the last entry. Decided: the chain '
    'user column -> pit slot -> matrix row kind is complete; (R3.5, shared with C06 R6.5) the std-type index of each pump'
    " found by np.where over the outer comparison of table and lookup is scattered to the pump's own row (index domains "
    'of np.where outputs); not decided: that the solve reproduces the value numerically (C05 tolerance).')
ASSUMPTIONS = [phys.POSITIVITY_TEXT, "transient=False", "tables are non-empty on the analysed path (len(...) assumed non-zero)"]
TECHNIQUE = "per-class value numbering of component hooks (MRO-resolved), guarded normal-form comparison, slot filling from the repository"
EXPLANATION += (' ' + "(R3.7) every row window A[W[k][0]:W[k][1]] whose array and window table have a known coordinate system (full pit and 'from_to', active pit and 'from_to_active_<mode>'; the parameters of the adaption / rerun hooks take the coordinate system of the arguments at the call sites in pipeflow.py, which must agree) reads its bounds from the window table of that array: with the other table the set-point lands on the rows of a different element as soon as an element ahead in the pit is not calculated.")
EXPLANATION += (' ' + '(R3.8, shared with C04 R4.5) what counts as a connected sink / source / controller is decided by the connectivity search; its inputs are checked, among them that DIRECTED (one-way in the search) is written by the pressure controller only.')
EXPLANATION += (' ' + '(R3.9) stores of the pit-filling hooks that read a user column and are guarded by the transient options are confined to the structural columns (ONCE_ONLY_COLUMNS: labels, topology, geometry, confirmed by reading Junction, Pipe and Valve); a prescribed value is written in every step of a transient run.')

QUARTET = (("JAC_DERIV_DP", 0), ("JAC_DERIV_DP1", 0), ("JAC_DERIV_DM", 1), ("LOAD_VEC_BRANCHES", 0))


def _has_tbl_sym(v, exclude=()):
    v = tonum(v)
    for gd, p in v.cases:
        for a in p.symbols():
            if len(a) > 3 and a[1] == "tbl" and a[3] not in exclude:
                return a
    return None


def flow_prescribers(ix):
    out = []
    for c in ix.components():
        if not ix.is_subclass(c, "BranchComponent"):
            continue
        try:
            ki, k = hook_summary(ix, c, "create_pit_branch_entries", {"option:transient": False}, partial=True)
        except AnalysisError:
            continue
        cols = pit_cols(ki)
        if "MDOTINIT" in cols:
            a = _is_tbl_column(cols["MDOTINIT"])
            if a is not None:
                out.append((c, a[3]))
    return out


def _is_tbl_column(v):
    """the user-table column when, in some case, the value IS that column (coefficient 1, nothing else): a prescribed value.
    A start guess *computed from* user columns (the pipe's initial mass flow from its diameter) is not a prescription."""
    v = tonum(v)
    for gd, p in v.cases:
        st_ = p.single_term()
        if st_ is None:
            continue
        mono, coef = st_
        if coef == 1 and len(mono) == 1:
            (atom, exp), = mono if not isinstance(mono, dict) else list(mono.items())
            if exp == 1 and isinstance(atom, tuple) and len(atom) > 3 and atom[0] == "sym" and atom[1] == "tbl":
                return atom
    return None


def _identity_cond(val, const, colname):
    """(guards under which val == const, guards under which val is the untouched column, other cases)"""
    ident, same, other = BExpr.false(), BExpr.false(), []
    own = bcol(colname)
    for gd, p in tonum(val).cases:
        if p == Poly.const(const):
            ident = ident | BExpr([gd])
        elif p == own:
            same = same | BExpr([gd])
        else:
            other.append((gd, p))
    return ident, same, other


def r3_1(run):
    ix = run.index
    pres = flow_prescribers(ix)
    names = sorted(c.name for c, _ in pres)
    run.ob("flow-prescribers-found", {"FlowControlComponent", "CirculationPumpMass", "HeatConsumer"} <= set(names),
           "flow-prescribing components computed from create_pit_branch_entries: %s" % names, "component_models")
    for c, usercol in pres:
        f = ix.lookup_method(c, "adaption_after_derivatives_hydraulic")
        run.analysed(f)
        w = run.where(f, f.node)
        ki, k = hook_summary(ix, c, "adaption_after_derivatives_hydraulic")
        cols = pit_cols(ki)
        conds = {}
        for colname, const in QUARTET:
            if colname not in cols:
                run.ob("%s|quartet|%s" % (c.name, colname), False,
                       "%s (mass flow from user column %s) pins %s = %d" % (c.name, usercol, colname, const), w)
                continue
            ident, same, other = _identity_cond(cols[colname], const, colname)
            # rows where another documented formula applies (heat consumer QE_TR) are decided under C11
            conds[colname] = (ident, same, other)
            run.ob("%s|quartet|%s" % (c.name, colname), not ident.is_false(),
                   "%s (mass flow from user column %s) pins %s = %d" % (c.name, usercol, colname, const), w,
                   detail=None if not ident.is_false() else "value: %s" % cols[colname])
        if len(conds) == 4:
            # one common row selection: wherever one slot is pinned or left alone, all four are
            ref = None
            ok, why = True, None
            for colname, (ident, same, other) in conds.items():
                touched = ident
                for gd, p in other:
                    touched = touched | BExpr([gd])
                if ref is None:
                    ref = (colname, touched)
                else:
                    d, _, _ = compare(select(ref[1], g(Poly.const(1)), g(Poly())), select(touched, g(Poly.const(1)), g(Poly())))
                    if d:
                        ok, why = False, "%s is written when %s, %s when %s" % (ref[0], ref[1], colname, touched)
            run.ob("%s|quartet|one-row-selection" % c.name, ok,
                   "the four slots of %s are written on one common row selection" % c.name, w, detail=why)
    run.floor(1 + 3 * 5)


def r3_2(run):
    ix = run.index
    from .c10 import r10_4
    # the running mean / counter / type obligations of set_fixed_node_entries and its callers (both modes)
    r10_4(run)
    run.obs = [o for o in run.obs if not (o["rule"] == "R3.2" and ("thermal-identity-row" in o["key"] or "outlet-temperature" in o["key"]))]
    # ---- slack mass derivative on exactly the fixed-pressure rows
    for cname in ("ExtGrid", "CirculationPumpMass", "CirculationPumpPressure"):
        c = component(ix, cname)
        f = ix.lookup_method(c, "create_pit_node_entries")
        run.analysed(f)
        ki, k = hook_summary(ix, c, "create_pit_node_entries", {"option:use_numba": False})
        rows = {}
        for key, v in ki.pit.items():
            if key[0] == "node_pit":
                rows.setdefault(key[3], []).append((key[1], v))
        ok = "JAC_DERIV_MSL" in rows and "NODE_TYPE" in rows and "PINIT" in rows
        same_rows = ok and {r for r, _ in rows["JAC_DERIV_MSL"]} == {r for r, _ in rows["NODE_TYPE"]} == {r for r, _ in rows["PINIT"]}
        val_ok = ok and all(tonum(v).plain() == Poly.const(-1) for _, v in rows["JAC_DERIV_MSL"])
        P = ix.const("pandapipes.idx_node", "P")
        typ_ok = ok and all(tonum(v).plain() == Poly.const(P) for _, v in rows["NODE_TYPE"])
        run.ob("%s|slack-rows" % cname, bool(same_rows and val_ok and typ_ok),
               "%s sets NODE_TYPE=P, PINIT and JAC_DERIV_MSL=-1 on the same (fixed-pressure) rows" % cname, run.where(f, f.node))
        pin = rows.get("PINIT", [(None, None)])[0][1]
        col = {"ExtGrid": "p_bar"}.get(cname, "p_flow_bar")
        a = _has_tbl_sym(pin, exclude=("junction", "flow_junction", "in_service", "type"))
        run.ob("%s|fixed-value-column" % cname, a is not None and a[3] == col,
               "the fixed pressure of %s comes from column %s" % (cname, col), run.where(f, f.node), detail=str(a))
    # ---- pressure controller
    c = component(ix, "PressureControlComponent")
    tbl = "press_control"
    ki, k = hook_summary(ix, c, "create_pit_node_entries")
    f = ix.lookup_method(c, "create_pit_node_entries")
    run.analysed(f)
    w = run.where(f, f.node)
    wr = [(key, v) for key, v in ki.pit.items() if key[0] == "node_pit" and key[3] == "PINIT"]
    ok = len(wr) == 1
    if ok:
        key, v = wr[0]
        rowp = poly_from_key(key[1])
        ra = list(rowp.atoms())
        ok = len(ra) == 1 and ra[0][1] == "pos" and ra[0][2] == "node_index" and ra[0][3] == "junction" \
            and poly_from_key(ra[0][4]) == Poly.sym("tbl", tbl, "controlled_junction")
        act = b_ne0(Poly.sym("tbl", tbl, "control_active")) & b_ne0(Poly.sym("tbl", tbl, "in_service"))
        old = Poly.sym("col", "node_pit", key[1], "idx_node", "PINIT")
        want = select(act, g(Poly.sym("tbl", tbl, "controlled_p_bar")), g(old))
        check_equal(run, "press_control|PINIT<-controlled_p_bar", v, want,
                    "PINIT of the controlled junction = controlled_p_bar for control_active & in_service rows", w)
    run.ob("press_control|writes-controlled-junction", ok,
           "the pressure is written at node_index[junction][controlled_junction]", w)
    ki, k = hook_summary(ix, c, "create_pit_branch_entries", {"option:transient": False})
    cols = pit_cols(ki)
    PCB = ix.const("pandapipes.idx_branch", "PC")
    want = select(b_ne0(Poly.sym("tbl", tbl, "control_active")), g(Poly.const(PCB)), g(Poly()))
    f = ix.lookup_method(c, "create_pit_branch_entries")
    check_equal(run, "press_control|BRANCH_TYPE", cols.get("BRANCH_TYPE", g(Poly.sym("missing"))), want,
                "BRANCH_TYPE = PC exactly for control_active rows", run.where(f, f.node))
    ki, k = hook_summary(ix, c, "adaption_before_derivatives_hydraulic")
    f = ix.lookup_method(c, "adaption_before_derivatives_hydraulic")
    run.analysed(f)
    nt = [(key, v) for key, v in ki.pit.items() if key[0] == "node_pit" and key[3] == "NODE_TYPE"]
    PCN = ix.const("pandapipes.idx_node", "PC")
    ok = len(nt) == 1
    if ok:
        key, v = nt[0]
        ra = list(poly_from_key(key[1]).atoms())
        ok = len(ra) == 1 and ra[0][1] == "pos" and ra[0][2] == "node_index_active_hydraulics"
        ctrl = b_ne0(Poly.sym("col", "press_control.array", "i", "array", "CONTROLLED"))
        old = Poly.sym("col", "node_pit", key[1], "idx_node", "NODE_TYPE")
        check_equal(run, "press_control|NODE_TYPE=PC", v, select(ctrl, g(Poly.const(PCN)), g(old)),
                    "the controlled junction (active-pit position) becomes a PC node for controlled rows", run.where(f, f.node))
    run.ob("press_control|types-controlled-node", ok, "NODE_TYPE is written through the active node index lookup", run.where(f, f.node))
    raised = [r for r in k.raises if "disconnected" in r[1] or "UserWarning" in r[1]]
    run.ob("press_control|disconnected-controlled-junction-raises", bool(raised),
           "a controlled junction outside the supplied part raises instead of being silently skipped", run.where(f, f.node))
    ki, k = hook_summary(ix, c, "adaption_after_derivatives_hydraulic")
    f = ix.lookup_method(c, "adaption_after_derivatives_hydraulic")
    cols = pit_cols(ki)
    pc = ~b_ne0(bcol("BRANCH_TYPE") - PCB)
    for colname in ("JAC_DERIV_DP", "JAC_DERIV_DP1", "JAC_DERIV_DM"):
        check_equal(run, "press_control|PC-branch|%s" % colname, cols.get(colname, g(Poly.sym("missing"))),
                    select(pc, g(Poly()), g(bcol(colname))), "%s = 0 on PC branches only" % colname, run.where(f, f.node))
    # component array mirrors the table
    ca = c.methods["create_component_array"]
    got = _component_array_columns(ix, ca)
    ok = got.get("JUNCTS") == "controlled_junction" and got.get("CONTROLLED") == "control_active" and got.get("IN_SERVICE") == "in_service"
    run.ob("press_control|component-array", ok,
           "JUNCTS/CONTROLLED/IN_SERVICE of the component array mirror controlled_junction/control_active/in_service",
           run.where(ca, ca.node))
    run.floor(24)


def _walk(t):
    from ..arrnf import walk
    return walk(t)


def _component_array_columns(ix, ca):
    """{component-array column constant: user table column} from the stores `arr[:, cls.X] = <table>.<col>.values`"""
    from ..arrnf import ANF, FULL, walk
    r = ANF(ix, ca).run()
    out = {}
    for s_ in r.stores():
        if len(s_.index) == 2 and s_.index[0] == FULL and s_.index[1][0] == "attr" and s_.index[1][1] == ("n", "cls"):
            v = s_.value
            while v[0] == "attr" and v[2] in ("values",):
                v = v[1]
            col = None
            if v[0] == "attr":
                col = v[2]
            elif v[0] == "idx" and len(v[2]) == 1 and v[2][0][0] == "c":
                col = v[2][0][1]
            out[s_.index[1][2]] = col
    return out


def _pump_map_call(f):
    """(function parameter, functions expr name, argument expr name) of map(lambda x, y: x.get_pressure(y), fcts, vol)"""
    for n in ast.walk(f.node):
        if isinstance(n, ast.Call) and isinstance(n.func, ast.Name) and n.func.id == "map" and len(n.args) == 3 \
                and isinstance(n.args[0], ast.Lambda) and len(n.args[0].args.args) == 2:
            lam = n.args[0]
            x, y = [a.arg for a in lam.args.args]
            b = lam.body
            if isinstance(b, ast.Call) and isinstance(b.func, ast.Attribute) and b.func.attr == "get_pressure" \
                    and isinstance(b.func.value, ast.Name) and b.func.value.id == x and len(b.args) == 1 \
                    and isinstance(b.args[0], ast.Name) and b.args[0].id == y:
                return (x, U(n.args[1]), n.args[2])
        # [f.get_pressure(q) for f, q in zip(fcts, vol)]
        if isinstance(n, ast.ListComp) and len(n.generators) == 1 and isinstance(n.generators[0].iter, ast.Call) \
                and callee_name(n.generators[0].iter) == "zip" and len(n.generators[0].iter.args) == 2 \
                and isinstance(n.generators[0].target, ast.Tuple) and len(n.generators[0].target.elts) == 2 \
                and all(isinstance(e_, ast.Name) for e_ in n.generators[0].target.elts):
            x, y = [e_.id for e_ in n.generators[0].target.elts]
            b = n.elt
            za = n.generators[0].iter.args
            if isinstance(b, ast.Call) and isinstance(b.func, ast.Attribute) and b.func.attr == "get_pressure" \
                    and isinstance(b.func.value, ast.Name) and b.func.value.id == x and len(b.args) == 1 \
                    and isinstance(b.args[0], ast.Name) and b.args[0].id == y:
                return (x, U(za[0]), za[1])
    return None


def _is_curve_values(v):
    """the stored term is, up to array/list conversion, `map(lambda f, q: f.get_pressure(q), <std type functions of the rows>,
    <volume flow>)` (or the comprehension over zip of the two): no sign, factor or offset between the curve value and PL"""
    from ..arrnf import contains
    while v[0] == "call" and v[1] in (("x", "numpy.array"), ("x", "numpy.asarray"), ("x", "builtins.list"), ("x", "builtins.tuple")) \
            and len(v[2]) == 1:
        v = v[2][0]
    curve = None
    if v[0] == "call" and v[1] == ("x", "builtins.map") and len(v[2]) == 3 and v[2][0][0] == "lambda" and v[2][0][1] == 2:
        body = v[2][0][2]
        if body == ("call", ("attr", ("b", 0), "get_pressure"), (("b", 1),), ()):
            curve = v[2][1]
    elif v[0] == "comp" and v[1] == "ListComp" and len(v[3]) == 1 and not v[3][0][2]:
        it = v[3][0][1]
        if v[2] == ("call", ("attr", ("b", 0, 0), "get_pressure"), (("b", 0, 1),), ()) and it[0] == "call" \
                and it[1] == ("x", "builtins.zip") and len(it[2]) == 2:
            curve = it[2][0]
    if curve is None:
        return False
    # the functions are those of the rows' own std types: looked up in net.std_types['pump'] through the STD_TYPE column
    return any(x[0] == "idx" and x[2] and x[2][-1] == ("c", "pump") for x in _walk(curve)) \
        and any(x == ("attr", ("n", "cls"), "STD_TYPE") for x in _walk(curve))


def r3_3(run):
    ix = run.index
    # ---- pressure circulation pump
    c = component(ix, "CirculationPumpPressure")
    ki, k = hook_summary(ix, c, "create_pit_branch_entries", {"option:transient": False})
    f = ix.lookup_method(c, "create_pit_branch_entries")
    run.analysed(f)
    check_equal(run, "circ_pump_pressure|PL<-plift_bar", pit_cols(ki).get("PL", g(Poly.sym("missing"))),
                g(Poly.sym("tbl", "circ_pump_pressure", "plift_bar")), "PL = plift_bar", run.where(f, f.node))
    ki, k = hook_summary(ix, c, "adaption_after_derivatives_hydraulic")
    f = ix.lookup_method(c, "adaption_after_derivatives_hydraulic")
    cols = pit_cols(ki)
    for colname, val in (("JAC_DERIV_DP", 1), ("JAC_DERIV_DP1", -1)):
        check_equal(run, "circ_pump_pressure|%s" % colname, cols.get(colname, g(Poly.sym("missing"))), g(Poly.const(val)),
                    "%s = %d: the row is p_from - p_to + PL - ... (a pure lift)" % (colname, val), run.where(f, f.node))
    # ---- compressor
    c = component(ix, "Compressor")
    ki, k = hook_summary(ix, c, "adaption_before_derivatives_hydraulic")
    f = ix.lookup_method(c, "adaption_before_derivatives_hydraulic")
    run.analysed(f)
    fr = bcol("FROM_NODE")
    p_from = ncol("PAMB", fr) + ncol("PINIT", fr)
    ratio = Poly.sym("col", "compressor.array", "i", "array", "PRESSURE_RATIO")
    want = select(b_le0(bcol("MDOTINIT")), g(Poly()), g(p_from * ratio - p_from))
    check_equal(run, "compressor|PL", pit_cols(ki).get("PL", g(Poly.sym("missing"))), want,
                "PL = p_abs(from) * ratio - p_abs(from) for forward flow and 0 for reverse flow", run.where(f, f.node))
    ca = c.methods["create_component_array"]
    ok = _component_array_columns(ix, ca).get("PRESSURE_RATIO") == "pressure_ratio"
    run.ob("compressor|ratio-column", ok, "PRESSURE_RATIO of the component array is the user's pressure_ratio", run.where(ca, ca.node))
    # ---- pump: curve argument vs reported volume flow
    c = component(ix, "Pump")
    f = ix.lookup_method(c, "adaption_before_derivatives_hydraulic")
    run.analysed(f)
    T_N = ix.const("pandapipes.constants", "NORMAL_TEMPERATURE")
    for gas in (False, True):
        ki, k = hook_summary(ix, c, "adaption_before_derivatives_hydraulic", {"fluid.is_gas": gas}, partial=True)
        mp = _pump_map_call(f)
        vol = None
        if mp:
            # the volume-flow argument, evaluated in the state the (partial) summary reached: a local name or any expression
            try:
                st_ = {"fi": f, "env": k.env, "G": BExpr.true(), "loopvars": set(), "kernel": k, "mask": None, "returned": False}
                vol = ki.eval(mp[2], st_)
            except Exception as ex:     # noqa
                vol = None
        fl = "gas" if gas else "liquid"
        if vol is None:
            run.ob("pump|%s|curve-argument-found" % fl, False, "the volume flow handed to get_pressure is computed", run.where(f, f.node),
                   detail=k.error)
            continue
        if not gas:
            rho_real = phys.run_kernel(ix, phys.PT + ".get_branch_real_density", consts={"fluid.is_gas": False},
                                       args={"fluid": g(Poly.sym("fluid"))})[0].outputs[0]
            reported = g(bcol("MDOTINIT")) / rho_real
            check_equal(run, "pump|liquid|curve-at-reported-volume-flow", vol, reported,
                        "the pump curve is evaluated at the volume flow reported as vdot_m3_per_s (m / mean real density)",
                        run.where(f, f.node))
        else:
            rho_n = apply_fn("fluid.get_density", [Poly.const(T_N)])
            p_from = ncol("PAMB", fr) + ncol("PINIT", fr)
            t_from = ncol("TINIT", fr)
            nf = phys.run_spec(ix, "norm_factor", {"p": g(p_from), "t": g(t_from),
                                                   "comp": g(apply_fn("fluid.get_compressibility", [p_from, t_from]))})[0]
            reported = g(bcol("MDOTINIT")) / g(rho_n) * nf
            check_equal(run, "pump|gas|curve-at-inlet-volume-flow", vol, reported,
                        "the pump curve is evaluated at the inlet volume flow v_N * normfactor_from * A", run.where(f, f.node))
    # the pressure lift really is the curve value of the row's own std type, and is reported as deltap_bar
    from ..arrnf import ANF, FULL, contains
    mp = _pump_map_call(f)
    ra = ANF(ix, f).run()
    pl_store = [s_ for s_ in ra.stores() if len(s_.index) == 2 and s_.index[0] == FULL and s_.index[1] == ("k", "idx_branch.PL")]
    ok = mp is not None and len(pl_store) == 1 and _is_curve_values(pl_store[0].value)
    run.ob("pump|PL<-get_pressure", ok,
           "PL is the array of get_pressure(volume flow) values, one per row, of the std type functions listed for the rows", run.where(f, f.node))
    ex = ix.lookup_method(c, "extract_results")
    ok = any(isinstance(n, ast.Tuple) and [const_str(e) for e in n.elts] == ["deltap_bar", "pl"] for n in ast.walk(ex.node))
    run.ob("pump|deltap_bar<-pl", ok, "res_pump.deltap_bar reports the PL column", run.where(ex, ex.node))
    run.floor(9)


def r3_4(run):
    ix = run.index
    SIGN = {"Sink": 1, "Source": -1, "MassStorage": 1}
    for cname, sgn in SIGN.items():
        c = component(ix, cname)
        tbl = ix.method_const(c, "table_name")
        f = ix.lookup_method(c, "create_pit_node_entries")
        run.analysed(f)
        w = run.where(f, f.node)
        sv = ix.method_const(c, "sign")
        run.ob("%s|sign" % cname, sv == sgn, "%s.sign() == %+d (consumption positive)" % (cname, sgn), w, detail=str(sv))
        ki, k = hook_summary(ix, c, "create_pit_node_entries", {"option:use_numba": False})
        wr = [(key, v) for key, v in ki.pit.items() if key[0] == "node_pit" and key[3] == "LOAD"]
        ok = len(wr) == 1
        run.ob("%s|single-LOAD-write" % cname, ok, "%s writes the LOAD column once" % cname, w)
        if not ok:
            continue
        key, v = wr[0]
        T = lambda col: Poly.sym("tbl", tbl, col)
        val = apply_fn("nan_to_num", [T("mdot_kg_per_s")]) * T("in_service") * T("scaling") * sgn
        want = g(apply_fn("groupsum", [val, T("junction")])) + g(Poly.sym("col", "node_pit", key[1], "idx_node", "LOAD"))
        check_equal(run, "%s|LOAD+=groupsum" % cname, v, want,
                    "LOAD[junction] accumulates (+=) the per-junction sum of in_service*scaling*sign*nan_to_num(mdot)", w)
        ra = list(poly_from_key(key[1]).atoms())
        ok = len(ra) == 1 and ra[0][1] == "pos" and ra[0][2] == "node_index" and ra[0][3] == "junction"
        run.ob("%s|LOAD-row-through-index-lookup" % cname, ok,
               "the load is written at node_index[junction][<junction labels>]", w)
        # report
        f2 = ix.lookup_method(c, "extract_results")
        run.analysed(f2)
        ki, k = hook_summary(ix, c, "extract_results", {"fluid.is_gas": False}, {"mode": PyVal("hydraulics"), "options": PyVal({})})
        wr = [x for x in ki.res_writes if x["column"] == "mdot_kg_per_s"]
        ok = len(wr) == 1
        run.ob("%s|reports-mdot" % cname, ok, "%s reports mdot_kg_per_s" % cname, run.where(f2, f2.node))
        if ok:
            check_equal(run, "%s|report=mdot*scaling" % cname, wr[0]["value"], g(T("mdot_kg_per_s") * T("scaling")),
                        "reported mass flow = mdot_kg_per_s * scaling", run.where(f2, f2.node))
            sel = wr[0]["selector"]
            ins = b_ne0(T("in_service"))
            implies = (sel & ~ins).is_false()
            run.ob("%s|report-only-in-service-at-active-junction" % cname, implies and len(sel.atoms()) >= 2,
                   "the report is written only for in-service rows whose junction is hydraulically active (selector: %s)" % sel,
                   run.where(f2, f2.node))
    # the only writers of LOAD (package-wide scan of whole-function terms: a column may be addressed alone or in a column list)
    from ..arrnf import ANF, C, FULL, Unsupported as AUnsupported, norm_cond
    LOADK = ("k", "idx_node.LOAD")

    def cols_of(t):
        if t[0] in ("list", "tuple"):
            return set(t[1])
        return {t}
    writers = set()
    for fi in ix.all_functions():
        if ".test." in fi.qualname or "LOAD" not in ast.dump(fi.node):
            continue
        try:
            rr = ANF(ix, fi).run()
        except AUnsupported:
            continue
        if any(len(s_.index) == 2 and LOADK in cols_of(s_.index[1]) for s_ in rr.stores()):
            writers.add(fi.short)
    # the accumulating columns are cleared on every path before the accumulating writers run
    jf = ix.func("pandapipes.component_models.junction_component.Junction.create_pit_node_entries")
    rj = ANF(ix, jf).run()
    acc = {"LOAD": LOADK, "EXT_GRID_OCCURENCE": ("k", "idx_node.EXT_GRID_OCCURENCE"), "EXT_GRID_OCCURENCE_T": ("k", "idx_node.EXT_GRID_OCCURENCE_T")}
    conds = sorted({repr(norm_cond(c_, True)[0]) for s_ in rj.stores() for c_, p_ in s_.cond})
    arms = [()] if not conds else None
    zeroed = {}
    for s_ in rj.stores():
        if len(s_.index) != 2 or s_.index[0] != FULL:
            continue
        arm = tuple(sorted((repr(norm_cond(c_, p_)[0]), norm_cond(c_, p_)[1]) for c_, p_ in s_.cond))
        if s_.index[1] == FULL:
            zeroed.setdefault(arm, set()).update(acc)         # the whole table is initialised
        elif s_.value == C(0):
            for nm, k_ in acc.items():
                if k_ in cols_of(s_.index[1]):
                    zeroed.setdefault(arm, set()).add(nm)
    for arm, got in sorted(zeroed.items()):
        run.ob("accumulators-cleared|%s" % ("&".join("%s=%s" % (a_[:40], p_) for a_, p_ in arm) or "always"), got == set(acc),
               "Junction.create_pit_node_entries clears LOAD and both fixed-value counters on this path (also when the pit of the "
               "previous transient step is reused)", run.where(jf, jf.node), detail="cleared: %s" % sorted(got))
    run.ob("accumulators-cleared|both-paths", len(zeroed) >= 2, "both the fresh and the reused-pit path clear the accumulators", run.where(jf, jf.node))
    run.ob("LOAD-writers", writers == {"ConstFlow.create_pit_node_entries", "Junction.create_pit_node_entries"},
           "the only writers of the node LOAD column are ConstFlow (accumulating) and the transient reset of Junction: %s"
           % sorted(writers), "src/pandapipes")
    run.floor(19)


def r3_5(run):
    """a pump is solved with the curve of its own std type only if the std-type index found by np.where over the outer
    comparison is scattered to the pump's own row (shared with C06 R6.5: index domains of np.where outputs)"""
    from .c06 import r6_5
    r6_5(run)


GROUPING = ("._sum_by_group", "._sum_by_group_np", "._sum_by_group_numba", "._sum_by_group_sorted")


def _is_grouping(t):
    """a call whose first output lists every key once, in increasing order (the package's group sums, np.unique)"""
    return t[0] == "call" and ((t[1][0] == "f" and t[1][1].endswith(GROUPING)) or t[1] == ("x", "numpy.unique"))


def _group_keys_arg(t):
    """the array of keys a grouping call groups by"""
    if t[1] == ("x", "numpy.unique"):
        return t[2][0] if t[2] else None
    a = t[2]
    if t[1][1].endswith("._sum_by_group"):
        return a[1] if len(a) > 1 else None        # _sum_by_group(use_numba, indices, *values)
    return a[0] if a else None


def _node_accumulators(ix):
    """the functions that put values of several user rows into one node row (fixed pressures / temperatures, loads)"""
    out = [ix.func("pandapipes.component_models.component_toolbox.set_fixed_node_entries")]
    cf = ix.cls("pandapipes.component_models.abstract_models.const_flow_models.ConstFlow")
    if "create_pit_node_entries" in cf.methods:
        out.append(cf.methods["create_pit_node_entries"])
    return out


def accumulation_sites(ix):
    """[(function, store event, rows term, key-unique?, read-modify-write?, grouping call or None)] for the stores into pit rows
    that are selected by an index array"""
    from ..arrnf import ANF, FULL, C, base_of, key as tkey, walk
    sites = []
    for f in _node_accumulators(ix):
        r = ANF(ix, f, strip=False).run()
        for e in r.stores():
            if len(e.index) != 2 or e.index[0] == FULL or e.index[0][0] in ("slice", "c", "loop"):
                continue
            rows = e.index[0]
            if rows[0] in ("cmp",) or (rows[0] == "call" and rows[1] == ("x", "numpy.isin")) or (rows[0] == "u" and rows[1] == "~"):
                continue            # a boolean mask selects every row at most once
            # rows = <index lookup>[<labels>]: the lookup is injective, so the rows repeat iff the labels do
            labels = rows[2][0] if rows[0] == "idx" and len(rows[2]) == 1 else rows
            grp = None
            if labels[0] == "proj" and _is_grouping(labels[1]) and labels[2] == 0:
                grp = labels[1]
            elif _is_grouping(labels) and labels[1] == ("x", "numpy.unique") and not labels[3]:
                grp = labels
            unique = grp is not None or (labels[0] == "call" and labels[1] == ("x", "numpy.arange"))
            base = base_of(e.base)
            rmw = bool(e.aug) or any(x[0] == "idx" and len(x[2]) == 2 and tkey(x[2][0]) == tkey(rows) and tkey(x[2][1]) == tkey(e.index[1])
                                     and tkey(base_of(x[1])) == tkey(base) for x in walk(e.value))
            sites.append((f, e, rows, unique, rmw, grp))
    return sites


def r3_6(run):
    """several elements may prescribe a value at one junction (two external grids, an external grid and a circulation pump): what
    ends up in the junction's row must account for all of them.  A numpy store `pit[rows, c] = g(pit[rows, c], v)` or `pit[rows, c] += v`
    evaluates the right-hand side once and writes each row once, so with a repeated row only the last entry survives: every such
    read-modify-write uses rows that are unique by construction (the keys of a group sum / np.unique, passed through an index lookup)"""
    ix = run.index
    n = 0
    for f, e, rows, unique, rmw, grp in accumulation_sites(ix):
        if not rmw:
            continue
        n += 1
        run.analysed(f)
        from ..arrnf import show as tshow
        run.ob("%s|%s|accumulates-on-unique-rows" % (f.short, tshow(e.index[1])[:24]), unique,
               "the rows of the read-modify-write store are the keys of a group sum (each junction once)", run.where(f, e.node),
               detail=None if unique else "rows: %s" % tshow(rows)[:160])
    run.stat("read_modify_write_stores_through_index_arrays", n)
    run.floor(3)


RULES = [("R3.1", r3_1), ("R3.2", r3_2), ("R3.3", r3_3), ("R3.4", r3_4), ("R3.5", r3_5), ("R3.6", r3_6)]


HOOK_NAMES = ("adaption_before_derivatives_hydraulic", "adaption_after_derivatives_hydraulic",
              "adaption_before_derivatives_thermal", "adaption_after_derivatives_thermal", "rerun_hydraulics", "rerun_thermal")


def _frame(t, params):
    """coordinate system of a pit array or of a from/to window table: ("full"|"active", "node"|"branch") or None"""
    while isinstance(t, tuple) and t and t[0] == "upd":      # an array after in-place stores is still that array
        t = t[1]
    if not isinstance(t, tuple) or not t:
        return None
    if t[0] == "n":
        return params.get(t[1])
    if t[0] == "idx" and len(t[2]) == 1 and t[2][0][0] == "c" and t[1][0] == "idx" and len(t[1][2]) == 1 and t[1][2][0][0] == "c":
        store, which = t[1][2][0][1], t[2][0][1]
        if store in ("_pit", "_active_pit", "_active_old_pit", "_old_pit") and which in ("node", "branch"):
            return ("active" if "active" in store else "full", which)
        if store == "_lookups" and isinstance(which, str):
            for kind in ("node", "branch"):
                if which == kind + "_from_to":
                    return ("full", kind)
                if which.startswith(kind + "_from_to_active"):
                    return ("active", kind)
    if t[0] == "call" and t[1][0] == "f" and t[1][1].endswith(".get_lookup") and len(t[2]) == 3 and t[2][1][0] == "c" and t[2][2][0] == "c":
        kind, what = t[2][1][1], t[2][2][1]
        if what == "from_to":
            return ("full", kind)
        if isinstance(what, str) and what.startswith("from_to_active"):
            return ("active", kind)
    return None


def window_sites(ix):
    """[(function, node, array term, array frame, window table term, window frame)] for every row window `A[W[k][0]:W[k][1]]`
    whose array and window table both have a known coordinate system; the hook parameters take theirs from the call sites"""
    from ..arrnf import ANF, key as tkey, walk
    mods = [m for m in ix.all_modules() if m == "pandapipes.pipeflow" or m.startswith(("pandapipes.pf.", "pandapipes.component_models."))]
    funcs = [f for f in ix.all_functions() if f.module in mods]
    runs = {}
    for f in funcs:
        try:
            runs[f] = ANF(ix, f, strip=False).run()
        except AnalysisError:
            continue

    def terms(r):
        for e in r.events:
            for t in (getattr(e, "term", None), getattr(e, "value", None), getattr(e, "base", None)):
                if isinstance(t, tuple):
                    yield e, t
            for t in (getattr(e, "index", None) or ()):
                if isinstance(t, tuple):
                    yield e, t
            for c, _p in e.cond:
                if isinstance(c, tuple):
                    yield e, c
    hookp, ncalls = {}, 0
    hook_names = set(HOOK_NAMES) | {m for c in ix.all_classes() if c.name == "Component" for m in c.methods}
    for f, r in runs.items():
        for e in r.events:
            t = getattr(e, "term", None)
            if e.kind == "call" and t[1][0] == "attr" and t[1][2] in hook_names and t[1][1][0] != "n":
                fr = tuple(_frame(a, {}) for a in t[2])
                if not any(fr):
                    continue        # a hook that passes its own parameters on (super(), a sibling hook)
                ncalls += 1
                old = hookp.setdefault(t[1][2], fr)
                if len(old) != len(fr) or any(a and b and a != b for a, b in zip(old, fr)):
                    raise AnalysisError("the call sites of %s disagree on the coordinate systems of their arguments" % t[1][2])
                hookp[t[1][2]] = tuple(a or b for a, b in zip(old, fr))     # None: not known at this site
    sites = []
    for f, r in runs.items():
        params = {}
        if f.cls is not None and f.name in hookp:
            names = [a.arg for a in f.node.args.args][1:]
            params = {n_: fr for n_, fr in zip(names, hookp[f.name]) if fr}
        seen = set()
        for e, t in terms(r):
            for x in walk(t):
                if not (isinstance(x, tuple) and x and x[0] == "idx" and x[2] and x[2][0][0] == "slice"):
                    continue
                lo, hi = x[2][0][1], x[2][0][2]
                if not (lo[0] == "idx" and hi[0] == "idx" and lo[2] == (("c", 0),) and hi[2] == (("c", 1),) and tkey(lo[1]) == tkey(hi[1])
                        and lo[1][0] == "idx" and len(lo[1][2]) == 1):
                    continue
                w = lo[1][1]
                fa, fw = _frame(x[1], params), _frame(w, params)
                k = (tkey(x[1]), tkey(w))
                if fa is None or fw is None or k in seen:
                    continue
                seen.add(k)
                sites.append((f, e.node, x[1], fa, w, fw))
    return sites, ncalls, hookp


def r3_7(run):
    """a component finds its rows in a pit through a from/to window, and the window table must be the one of the array it is applied
    to: the full pit goes with the "from_to" lookup, the reduced (active) pit with "from_to_active_<mode>", and the pit handed to the
    adaption / rerun hooks with the lookup handed to the same call (pipeflow passes the active pit and the active lookup).  With a
    window of the other table the rows belong to a different element as soon as anything ahead in the pit is out of service, and the
    set-point is imposed on the wrong rows."""
    from ..arrnf import show as tshow
    ix = run.index
    sites, ncalls, hookp = window_sites(ix)
    for name, fr in sorted(hookp.items()):
        arrs = [x for x in fr if x and x[1] == "branch"]
        run.ob("%s|call-site-frames-agree" % name, len({x[0] for x in arrs}) == 1 and len(arrs) >= 2,
               "every caller of %s passes branch pit and branch window table of one coordinate system" % name, "pandapipes/pipeflow.py",
               detail=str(fr))
    for f, node, a, fa, w, fw in sites:
        run.analysed(f)
        run.ob("%s|%s<-%s|window-of-its-array" % (f.short, tshow(a)[:40], tshow(w)[:48]), fa == fw,
               "the row window applied to %s (%s %s rows) is read from the %s %s window table" % (tshow(a)[:40], fa[0], fa[1], fw[0], fw[1]),
               run.where(f, node))
    run.stat("hook_call_sites", ncalls)
    run.stat("row_windows_with_known_frames", len(sites))
    run.floor(12)


RULES.append(("R3.7", r3_7))


def r3_8(run):
    """"every connected in-service sink, source and mass storage reports its mass flow" and every active controller its set-point:
    what counts as connected is decided by the connectivity search, whose inputs are part of the clause -- which branches establish
    connectivity, in which direction (DIRECTED is written by the pressure controller only), which nodes are slacks.  Shared with C04
    R4.5."""
    from .c04 import r4_5
    r4_5(run)


RULES.append(("R3.8", r3_8))


def transient_guarded_input_stores(ix):
    """[(function, store event, column term, guarded by the transient options?)] for the stores of the pit-filling hooks whose value
    is read from a column of the component's element table"""
    from ..arrnf import ANF, walk
    out, n, seen = [], 0, set()

    def from_table(t):
        # net[<table>].<col> / net[<table>][<col>] / <cls method>(net) values
        for x in walk(t):
            if isinstance(x, tuple) and x and x[0] in ("attr", "idx") and isinstance(x[1], tuple) and x[1][:1] == ("idx",) \
                    and x[1][1] == ("n", "net") and not (x[1][2] and x[1][2][0][0] == "c" and str(x[1][2][0][1]).startswith("_")):
                return True
        return False

    def transient_test(c):
        for x in walk(c):
            if isinstance(x, tuple) and x and x[0] == "call" and x[1][0] == "f" and x[1][1].endswith(".get_net_option") and len(x[2]) == 2 \
                    and x[2][1] in (("c", "transient"), ("c", "simulation_time_step")):
                return True
        return False
    for c in ix.components():
        for h in ("create_pit_branch_entries", "create_pit_node_entries"):
            f = ix.lookup_method(c, h)
            if f is None or f.cls.name == "Component" or f.qualname in seen:
                continue
            seen.add(f.qualname)
            try:
                r = ANF(ix, f, strip=False).run()
            except AnalysisError:
                continue
            for e in r.stores():
                if not e.index or len(e.index) != 2 or e.index[1][0] != "k":
                    continue
                if not from_table(e.value):
                    continue
                n += 1
                out.append((f, e, e.index[1], any(transient_test(c_) for c_, _p in e.cond)))
    return out, n


# pit columns that describe the structure of the net and may be filled in the first step of a transient run only (the pit is
# reused afterwards); confirmed by reading the hooks of Junction, Pipe and Valve
ONCE_ONLY_COLUMNS = {"ELEMENT_IDX": "row label", "HEIGHT": "geometry", "PAMB": "follows HEIGHT", "ACTIVE": "in_service of nodes, re-read by the connectivity check",
                     "FROM_NODE": "topology", "TO_NODE": "topology", "D": "geometry", "DO": "geometry", "AREA": "geometry", "LENGTH": "geometry",
                     "TABLE_IDX": "row label", "NODE_TYPE": "structure", "K": "geometry"}


def r3_9(run):
    """a prescribed value may change between the steps of a transient run (a lift or flow profile through ConstControl): every
    pit entry that a hook reads from a user column is written in every step.  Stores guarded by the transient options
    (`if not transient or simulation_time_step == 0`) are confined to the structural columns (labels, topology, geometry); a
    set-point column filled in step 0 only keeps the value of the first step for the whole series."""
    from ..arrnf import show as tshow
    ix = run.index
    sites, n = transient_guarded_input_stores(ix)
    for f, e, col, guarded in sites:
        if not guarded:
            continue
        run.analysed(f)
        name = col[1].rsplit(".", 1)[-1]
        run.ob("%s|%s|filled-in-every-step" % (f.short, name), name in ONCE_ONLY_COLUMNS,
               "%s is a structural column (%s) and may be filled in the first transient step only" % (name, ONCE_ONLY_COLUMNS.get(name, "not in the table")),
               run.where(f, e.node), detail=tshow(e.value)[:100])
    run.stat("pit_stores_read_from_user_columns", n)
    if n < 10:
        raise AnalysisError("only %d stores of the pit-filling hooks read a user column" % n)
    run.ob("input-stores-scanned", True, "stores of the pit-filling hooks that read a user column: %d" % n, "component_models")
    run.floor(5)


RULES.append(("R3.9", r3_9))
