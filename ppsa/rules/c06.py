"""C06 -- results do not depend on labels, row order or creation order (three narrow clauses).

 R6.1 lookup mediation: user labels index internal arrays only through an index lookup; the lookup builders
 R6.2 order kinds: arrays in sorted-index order never index pit-order arrays; placement of averaged section results
 R6.3 _sum_by_group twins: same fallback bound and result shape
 R6.4 offset domains: internal section lookups are indexed by the position within the table (index lookup minus table start)
"""
import ast

from .. import phys
from ..algebra import GExpr, Poly, poly_from_key
from ..astutil import U, assignments, calls, callee_name, const_str, own_walk
from ..kernelir import PyVal, Unsupported
from ..phys import component, hook_summary, tonum
from ..source import AnalysisError

RE_ = "pandapipes.pf.result_extraction"
IT = "pandapipes.pf.internals_toolbox"

EXPLANATION = (
    '(R6.1) every hook that builds or reads the internal tables (create_pit_node_entries, create_pit_branch_entries, '
    'adaption_*, extract_results of all components) is summarised per concrete class by forward substitution; a user '
    'label (a column of a user table, a table index, a label stored in a component array) may appear as a row index of a '
    'pit array only inside an index-lookup application node_index[table][labels] / branch_index[table][labels]; the two '
    'lookup builders fill -1 and then position+start at the labels. (R6.2) an order-kind inference over '
    'extract_branch_results_with_internals assigns each array the order it is in (pit order of all branches, pit order of'
    ' the component, one-per-element table order, sorted-index order of _sum_by_group outputs, table rows obtained '
    'through argsort of the index); indexing a pit-order array with sorted-order positions, indexing the un-sliced branch'
    ' array with component-relative positions, or storing sorted-order values at table-order rows is a violation. (R6.3) '
    '_sum_by_group_numba falls back to the numpy implementation under its index bound and both return (unique sorted '
    "indices, sums...). (R6.4) every read of net._lookups['internal_nodes'/'internal_branches'][t] uses rows of the form "
    'branch_index[t][labels] - start(t). (R6.5) the outputs of np.where over a condition are parallel arrays in pair '
    'order: one output is never indexed by another output of the same call, and an output of an outer comparison is '
    'scattered by the positions of the other output, never stored over all rows. (R6.8, shared with C04 R4.8) the hooks '
    'that run on the reduced pit pair its rows only with arrays reduced by the same active lookup, never with element-'
    'table rows. (R6.7, shared with C04 R4.9) internal valve nodes are keyed by the pair of both reference columns '
    'compared row-wise. (R6.6) user labels (reference columns of element tables, table indices) never enter arithmetic '
    'anywhere in the package; they are compared, sorted, made unique or used as index of an index lookup. (R6.9, shared '
    'with C05 R5.8) init_results_element rebinds the result table on every path to a fresh frame indexed by the element '
    "table's index; a table kept from an earlier run is addressed by position afterwards and would attach results to the "
    'labels of the previous row order. (R6.10) what is stored at the rows of the keys of a group sum / np.unique '
    '(increasing label order, whatever the row order of the table) are outputs of a grouping over the same keys, never an'
    ' input of the grouping or another array selected by the same mask (still in table-row order). Decided: these three '
    'mechanisms; not decided: permutation invariance of results as such.')
ASSUMPTIONS = ["numpy fancy indexing semantics", "the sections of one element occupy adjacent pit rows in table order "
               "(established by create_pit_branch_entries via np.repeat)"]
TECHNIQUE = "label-taint on normal forms of per-class hook summaries; order-kind abstract interpretation; offset-domain check on lookup reads"
EXPLANATION += (' ' + "(R6.11) numpy set operations are order independent unless assume_unique is passed; every call with assume_unique (anything but the literal False) has both arguments unique by construction. No such call exists in the package; the rule analyses a built-in positive example with the same code on every run. (R6.12) a pit-filling hook that takes the row window of ANOTHER component's table (today: Valve.create_pit_branch_entries on the pipe rows) is entered by initialize_pit after all other components (stable sort key on its table name), so the result does not depend on the order of net.component_list, which follows the creation order for sector=Sector.NONE.")
EXPLANATION += (' ' + '(R6.13) a reference to another element parked in a component array (PressureControlComponent.JUNCTS) is stored as what its readers take it for: a label if they translate it through an index lookup, a pit position if they index the pit with it.')

HOOKS = ("create_pit_node_entries", "create_pit_branch_entries", "adaption_before_derivatives_hydraulic",
         "adaption_after_derivatives_hydraulic", "adaption_before_derivatives_thermal",
         "adaption_after_derivatives_thermal", "extract_results")
LABEL_ARRAY_COLS = {("press_control.array", "JUNCTS")}


def _labels_outside_lookup(p, acc, inside=False):
    for a in p.atoms():
        _walk(a, acc)


def _walk(a, acc):
    if a[0] == "sym":
        if len(a) >= 4 and a[1] == "tbl":
            acc.append(a)
        elif len(a) == 6 and a[1] == "col" and (a[2], a[5]) in LABEL_ARRAY_COLS:
            acc.append(a)
        elif len(a) == 5 and a[1] == "pos":
            return        # label consumed by an index lookup
        elif len(a) == 6 and a[1] == "col" and a[3] != "i":
            # a gather: its row key must itself be label-free
            try:
                _labels_outside_lookup(poly_from_key(a[3]), acc)
            except Exception:
                pass
    elif a[0] == "app":
        for k in a[2:]:
            try:
                _labels_outside_lookup(poly_from_key(k), acc)
            except Exception:
                pass
    elif a[0] == "par":
        _labels_outside_lookup(poly_from_key(a[1]), acc)


def r6_1(run):
    ix = run.index
    n_rows = 0
    for c in ix.components():
        for h in HOOKS:
            f = ix.lookup_method(c, h)
            if f is None or f.cls.name == "Component":
                continue
            args = {"mode": PyVal("sequential"), "options": PyVal({"calc_compression_power": PyVal(True)})} if h == "extract_results" else None
            try:
                ki, k = hook_summary(ix, c, h, {"option:transient": False, "option:use_numba": False, "fluid.is_gas": False, "any:*": False},
                                     args, partial=True, soft=True)
            except Unsupported as e:
                run.note("%s.%s not summarised: %s" % (c.name, h, e))
                continue
            run.analysed(f)
            rowkeys = set()
            for key, v in ki.pit.items():
                if key[1] != "i":
                    rowkeys.add((key[0], key[1], key[3], "write"))
                for gd, p in tonum(v).cases:
                    for a in p.symbols():
                        if len(a) == 6 and a[1] == "col" and a[3] != "i" and not a[2].endswith(".array"):
                            rowkeys.add((a[2], a[3], a[5], "read"))
            for wv in ki.res_writes:
                for gd, p in tonum(wv["value"]).cases:
                    for a in p.symbols():
                        if len(a) == 6 and a[1] == "col" and a[3] != "i" and not a[2].endswith(".array"):
                            rowkeys.add((a[2], a[3], a[5], "read"))
            # the end-node columns of the branch pit hold node-pit positions: what is stored there is later used as a row
            # index of the node pit by every kernel, so it must be label-free outside an index lookup as well
            for key, v in ki.pit.items():
                if key[3] in ("FROM_NODE", "TO_NODE") and key[0] != "node_pit":
                    acc = []
                    for gd, p in tonum(v).cases:
                        _labels_outside_lookup(p, acc)
                    from ..algebra import fmt_atom as _fa
                    n_pos = getattr(run, "_n_pos", 0) + 1
                    run._n_pos = n_pos
                    run.ob("%s.%s|%s-holds-positions" % (c.name, h, key[3]), not acc,
                           "the value stored in column %s is a node-pit position (index lookup of the reference column, or an "
                           "internal node position), never a user label" % key[3], run.where(f, f.node),
                           detail="labels stored as positions: %s" % [_fa(a) for a in acc] if acc else None)
            for pit, rk, colname, how in sorted(rowkeys, key=repr):
                n_rows += 1
                acc = []
                try:
                    _labels_outside_lookup(poly_from_key(rk), acc)
                except Exception:
                    continue
                from ..algebra import fmt_idx, fmt_atom
                run.ob("%s.%s|%s[%s,%s]" % (c.name, h, pit, fmt_idx(rk)[:80], colname), not acc,
                       "the row index of this %s of %s[., %s] contains no user label outside an index lookup" % (how, pit, colname),
                       run.where(f, f.node), detail="labels used as positions: %s" % [fmt_atom(a) for a in acc] if acc else None)
    run.stat("row_index_expressions_checked", n_rows)
    run.stat("end_node_column_stores_checked", getattr(run, "_n_pos", 0))
    if getattr(run, "_n_pos", 0) < 10:
        raise AnalysisError("R6.1: only %d stores into FROM_NODE/TO_NODE were summarised (expected at least 10)" % getattr(run, "_n_pos", 0))
    # lookup builders
    for q in ("pandapipes.component_models.junction_component.Junction.create_node_lookups",
              "pandapipes.component_models.abstract_models.branch_w_internals_models.BranchWInternalsComponent.create_branch_lookups"):
        f = ix.func(q)
        run.analysed(f)
        from ..arrnf import ANF, C, base_of, expect, key as tkey
        ps = f.params()
        alias = dict(zip(ps, ("cls", "net", "ft_lookups", "table_lookup", "idx_lookups", "current_start")))
        rb = ANF(ix, f, param_alias=alias).run()
        L = expect(ix, f, "net[cls.table_name()].index")
        tbl = expect(ix, f, "cls.table_name()")
        from ..arrnf import ite_leaves
        want_alloc = expect(ix, f, "-np.ones(L.max() + 1, dtype=np.int32)", env={"L": L})
        want_set = expect(ix, f, "np.arange(len(L)) + current_start", env={"L": L})

        def peel(t):
            chain = []
            while t[0] == "upd":
                chain.append((t[2], t[3]))
                t = t[1]
            return t, chain

        def alloc_ok(b):
            # -1 everywhere where the table is not empty; an empty array otherwise (scattering nothing into it is a no-op)
            def lifted(t):
                """leaves of an allocation whose *size* is a conditional value: full(n if c else 0, -1) -> full(n, -1) | full(0, -1)"""
                out = []
                for _, leaf in ite_leaves(t):
                    if leaf[0] == "call" and leaf[2] and leaf[2][0][0] == "ite":
                        for _, a0 in ite_leaves(leaf[2][0]):
                            out.extend(lifted((leaf[0], leaf[1], (a0,) + tuple(leaf[2][1:]), leaf[3])))
                    else:
                        out.append(leaf)
                return out
            lv = lifted(b)
            def empty(t):
                if t[0] == "call" and t[1] == ("x", "numpy.full") and t[2] and t[2][0] == C(0):
                    return True
                return t[0] == "call" and t[1] == ("x", "numpy.array") and t[2] and (t[2][0][0] == "new" or t[2][0] == ("list", ()))
            return any(tkey(x) == tkey(want_alloc) for x in lv) and all(tkey(x) == tkey(want_alloc) or empty(x) for x in lv)
        ok = False
        stores_ = rb.stores()
        for s_ in stores_:
            if not (s_.base == ("n", "idx_lookups") and s_.index == (tbl,)):
                continue
            b, chain = peel(s_.value)
            if not alloc_ok(b):
                continue
            # the scatter of position + start: already part of the stored array, or applied to it afterwards on every path
            if any(i_ == (L,) and tkey(v_) == tkey(want_set) for i_, v_ in chain):
                ok = True
            c0 = {(tkey(c), p_) for c, p_ in s_.cond}
            for s2 in stores_:
                if s2.seq > s_.seq and s2.index == (L,) and tkey(s2.value) == tkey(want_set) \
                        and {(tkey(c), p_) for c, p_ in s2.cond} <= c0:
                    b2, _ = peel(s2.base)
                    if alloc_ok(b2) or tkey(b2) == tkey(b):
                        ok = True
        run.ob("builder|%s" % f.short, ok,
               "the index lookup is -1 everywhere and position+start at the table's labels", run.where(f, f.node))
    run.floor(25)


# ---------------------------------------------------------------------------------------------------------------
SORTED, SORT2TABLE, TABLEROWS, PITALL, PITCOMP, PITCOMPPOS, ELEM, SCALAR, TOP = (
    "sorted-index order", "argsort(index)", "table rows (via argsort)", "pit order (all branches)",
    "pit order (component rows)", "positions within the component", "one per element (table order)", "scalar", "?")


class OrderKinds:
    """order-kind inference on whole-function terms (arrnf): which row order an array is in follows from how it was computed,
    not from what a local is called or how the statements are grouped"""

    def __init__(self, ix, fi):
        from ..arrnf import ANF
        self.ix, self.fi = ix, fi
        ps = fi.params()
        self.r = ANF(ix, fi, param_alias={ps[0]: "net", ps[1]: "branch_results", ps[2]: "table_name"}).run()
        self.memo = {}
        self.findings = []
        self.stores = []
        self.resolved = {}

    # -- helpers
    def _is_range(self, sl):
        """slice lo:hi with (lo, hi) the two components of get_lookup(net, 'branch', 'from_to')[table]"""
        if sl[0] != "slice" or sl[3] != ("c", None):
            return False
        def comp(t, k):
            if t[0] == "proj" and t[2] == k:
                t = t[1]
            elif t[0] == "idx" and t[2] == (("c", k),):
                t = t[1]
            else:
                return None
            if t[0] == "idx" and t[1][0] == "call" and t[1][1][0] == "f" and t[1][1][1].endswith(".get_lookup") \
                    and ("c", "from_to") in t[1][2]:
                return t
            return None
        a, b = comp(sl[1], 0), comp(sl[2], 1)
        return a is not None and b is not None and a == b

    def _combine(self, node, kinds):
        ks = set(kinds) - {SCALAR}
        if len(ks) == 1:
            return ks.pop()
        if not ks:
            return SCALAR
        if SORTED in ks and (PITCOMP in ks or PITALL in ks or ELEM in ks):
            self.findings.append((node, "arithmetic mixes %s" % " and ".join(sorted(ks))))
        return TOP

    def kind(self, t):
        from ..arrnf import key as tkey
        if not isinstance(t, tuple) or not t:
            return TOP
        k_ = id(t)
        if k_ in self.memo and self.memo[k_][0] is t:
            return self.memo[k_][1]
        v = self._kind(t)
        self.memo[k_] = (t, v)
        if v not in (TOP, SCALAR):
            self.resolved[tkey(t)] = v
        return v

    def _kind(self, t):
        h = t[0]
        if h == "c":
            return SCALAR
        if h in ("n", "loop", "carried", "phi", "k", "b", "f", "x"):
            return TOP
        if h == "call":
            fn = t[1]
            if fn[0] == "f" and fn[1].endswith("._sum_by_group"):
                for a in t[2]:
                    self.kind(a)
                return SORTED
            name = fn[1].rsplit(".", 1)[-1] if fn[0] in ("x", "f") else (fn[2] if fn[0] == "attr" else "")
            args = list(t[2]) + ([fn[1]] if fn[0] == "attr" else [])
            if name == "argsort":
                from ..arrnf import walk
                if args and any(x[0] == "attr" and x[2] == "index" for x in walk(args[0])):
                    return SORT2TABLE
                return TOP
            if name in ("cumsum", "abs", "absolute", "ones_like", "zeros_like", "round", "array", "asarray", "nan_to_num"):
                return self.kind(args[0]) if args else TOP
            if name in ("where", "nonzero", "flatnonzero"):
                k = self.kind(args[0]) if args else TOP
                return PITCOMPPOS if k == PITCOMP else (SORTED if k == SORTED else TOP)
            if name in ("append", "concatenate"):
                return self._combine(t, [self.kind(a) for a in args])
            if fn[0] == "f" and fn[1].endswith(".get_lookup"):
                act = any((a[0] == "c" and isinstance(a[1], str) and "active" in a[1]) or
                          (a[0] == "cat" and any(x[0] == "c" and "active" in str(x[1]) for x in a[1])) for a in t[2])
                return PITALL if act else TOP
            for a in args:
                self.kind(a)
            return TOP
        if h == "proj":
            k = self.kind(t[1])
            if k == SORTED:
                return SORTED
            if t[1][0] == "call" and t[1][1] in (("x", "numpy.where"), ("x", "numpy.nonzero")):
                return k
            return TOP
        if h in ("opn", "op", "cmp", "bool"):
            parts = t[2] if h in ("opn", "bool") else t[2:4]
            return self._combine(t, [self.kind(p) for p in parts])
        if h == "u":
            return self.kind(t[2])
        if h == "attr":
            return self.kind(t[1]) if t[2] in ("values", "T") else TOP
        if h == "ite":
            self.kind(t[1])
            return self._combine(t, [self.kind(t[2]), self.kind(t[3])])
        if h == "upd":
            return self.kind(t[1])
        if h == "idx":
            return self._index_term(t)
        if h in ("list", "tuple", "set"):
            for x in t[1]:
                self.kind(x)
            return TOP
        if h == "comp":
            self.kind(t[2])
            return TOP
        return TOP

    def _base_kind(self, b):
        if b[0] == "idx" and b[1] == ("n", "branch_results"):
            return PITALL
        if b == ("idx", ("idx", ("n", "net"), (("c", "_pit"),)), (("c", "branch"),)) or b == ("idx", ("idx", ("n", "net"), (("c", "_pit"),)), (("c", "node"),)):
            return PITALL
        return self.kind(b)

    def _index_term(self, t):
        base, idx = t[1], t[2]
        bk = self._base_kind(base)
        first = idx[0]
        if first[0] == "slice":
            if bk == PITALL and self._is_range(first):
                return PITCOMP
            if bk == SORTED and (base[0] == "call" or base[0] == "proj"):
                return SORTED       # a tail of the tuple of grouped outputs
            return bk
        if len(idx) == 2:
            ki = self.kind(first)
            return self._index(t, bk, ki)
        ki = self.kind(first)
        if bk == SORTED and (base[0] == "call" or (base[0] == "idx" and base[2][0][0] == "slice")) and ki in (SCALAR, TOP):
            return SORTED           # res[k]: the k-th output array of _sum_by_group
        return self._index(t, bk, ki)

    def _index(self, node, base, ki):
        if ki == SCALAR:
            return SORTED if base == SORTED else TOP
        if ki == TOP:
            return TOP
        if base in (PITALL, PITCOMP) and ki == SORTED:
            self.findings.append((node, "%s indexed with positions / a mask in %s" % (base, ki)))
            return TOP
        if base == PITALL and ki in (PITCOMPPOS, ELEM):
            self.findings.append((node, "the un-sliced %s indexed with %s" % (base, ki)))
            return TOP
        if base == SORT2TABLE and ki == SORTED:
            return TABLEROWS
        if base == PITCOMP and ki == PITCOMPPOS:
            return ELEM
        if base == PITCOMP and ki == PITCOMP:
            return PITCOMP
        if base == ELEM and ki == ELEM:
            return ELEM
        if base == SORTED and ki == SORTED:
            return SORTED
        if base == PITALL and ki == PITALL:
            return PITALL
        if base in (SORTED, ELEM, PITCOMP) and ki in (SORTED, ELEM, PITCOMP) and base != ki:
            self.findings.append((node, "%s indexed with %s" % (base, ki)))
        return TOP

    def run(self):
        from ..arrnf import base_of
        for e in self.r.events:
            if e.kind == "store":
                b = e.base
                # res_table[name].values[I] = V   (also .values[:][I])
                inner = b
                if inner[0] == "idx" and inner[2] and inner[2][0][0] == "slice":
                    inner = inner[1]
                if inner[0] == "attr" and inner[2] == "values" and len(e.index) == 1:
                    ki = self.kind(e.index[0])
                    kv = self.kind(e.value)
                    self.stores.append((e, ki, kv))
                    ok = (ki == TABLEROWS and kv == SORTED) or (ki == ELEM and kv == ELEM) or (ki == PITCOMP and kv == PITCOMP) \
                        or (ki == ELEM and kv in (TOP, SCALAR)) or ki == TOP or kv == TOP and ki in (PITCOMP,)
                    if not ok:
                        self.findings.append((("idx", b, e.index), "result rows selected in %s receive values in %s" % (ki, kv)))
                else:
                    for x in e.index:
                        self.kind(x)
                    self.kind(e.value)
            elif e.kind == "call":
                self.kind(e.term)
        return self


def r6_2(run):
    from ..arrnf import expect, key as tkey, show as tshow, walk
    ix = run.index
    f = ix.func(RE_ + ".extract_branch_results_with_internals")
    run.analysed(f)
    ok_ = OrderKinds(ix, f).run()
    w = run.where(f, f.node)
    run.stat("order_kind_stores", len(ok_.stores))
    kinds_seen = set(ok_.resolved.values())
    run.ob("with-internals|kinds-resolved", len(ok_.resolved) >= 6 and SORTED in kinds_seen and PITCOMP in kinds_seen,
           "order kinds inferred for %d array terms: %s" % (len(ok_.resolved), sorted(kinds_seen)), w)
    seen = set()
    for node, msg in ok_.findings:
        key = tshow(node).replace(" ", "")[:80]
        if key in seen:
            continue
        seen.add(key)
        run.ob("with-internals|order-mix|%s" % key, False, "arrays of different row orders are combined: %s" % msg, w)
    run.ob("with-internals|no-order-mix", not ok_.findings,
           "no pit-order array is indexed with sorted-order positions and no values are stored in rows of another order", w)
    for e, ki, kv in ok_.stores:
        run.ob("with-internals|store|%s" % tshow(("idx", e.base, e.index)).replace(" ", "")[:70], not (ki == TOP and kv in (SORTED, ELEM)),
               "result rows (%s) and stored values (%s) are in the same order" % (ki, kv), run.where(f, e.node))
    # the placement table really converts sorted order into table rows
    want = expect(ix, f, "np.argsort(net[table_name].index.values)", env={"net": ("n", "net"), "table_name": ("n", "table_name")})
    placement = {k for k, v in ok_.resolved.items() if v == SORT2TABLE}
    used = any(ok_.kind(e.index[0]) == TABLEROWS and any(tkey(y) == tkey(want) for y in walk(e.index[0])) for e, ki, kv in ok_.stores)
    run.ob("with-internals|placement-table", placement == {tkey(want)} and used,
           "the rows of sorted-order results are selected through argsort of the table index (sorted position -> table row)", w,
           detail=str(len(placement)))
    run.floor(5)


def r6_3(run):
    """contract of the grouping helper the order kinds rely on: (unique group keys in increasing order, one sum per value array).
    Decided on whole-function terms (arrnf), independent of local names; the numba dense kernel itself is a loop over data-
    dependent indices and is not decided (its agreement with the numpy path is an assumption)"""
    from ..arrnf import ANF, C, FULL, base_of, contains, expect, key as tkey, match, norm_cond, show as tshow, walk
    ix = run.index
    sel = ix.func(IT + "._sum_by_group")
    f_np, f_nb, f_sorted = ix.func(IT + "._sum_by_group_np"), ix.func(IT + "._sum_by_group_numba"), ix.func(IT + "._sum_by_group_sorted")
    for g_ in (sel, f_np, f_nb, f_sorted):
        run.analysed(g_)
    ps = sel.params()
    r = ANF(ix, sel, param_alias={ps[0]: "use_numba", ps[1]: "indices"}).run()
    va = sel.node.args.vararg.arg if sel.node.args.vararg else None
    rets = r.returns()
    targets = set()
    same_args = True
    for e in rets:
        v = e.value
        if v[0] == "call" and v[1][0] == "f":
            targets.add(v[1][1])
            same_args = same_args and v[2] == (("n", "indices"), ("star", ("n", va)))
    no_numba = [e for e in rets if any(norm_cond(c, p) == (("n", "use_numba"), False) for c, p in e.cond)]
    run.ob("dispatch", targets == {f_np.qualname, f_nb.qualname} and same_args and bool(no_numba)
           and all(e.value[1][1] == f_np.qualname for e in no_numba),
           "_sum_by_group dispatches to the two implementations with identical arguments and to the numpy one without numba", run.where(sel, sel.node))
    # numba wrapper: dense kernel under a bound on the largest index, numpy implementation otherwise
    ps = f_nb.params()
    r = ANF(ix, f_nb, param_alias={ps[0]: "indices"}).run()
    va = f_nb.node.args.vararg.arg
    rets = sorted(r.returns(), key=lambda e: e.seq)
    w = run.where(f_nb, f_nb.node)
    fb_call = ("call", ("f", f_np.qualname), (("n", "indices"), ("star", ("n", va))), ())
    dense = [e for e in rets if any(x[0] == "call" and x[1][0] == "f" and x[1][1].endswith("._sum_values_by_index") for x in walk(e.value))]
    fallback = [e for e in rets if e.value == fb_call]
    other = [e for e in rets if e not in dense and e not in fallback]
    # every remaining return is the trivial one for empty input: (indices, *values) unchanged
    def trivial(e):
        v = e.value
        if v[0] == "call" and v[1] == ("x", "builtins.tuple") and len(v[2]) == 1:
            v = v[2][0]
        flat = []
        def items(t):
            if t[0] in ("list", "tuple"):
                for x in t[1]:
                    items(x) if x[0] in ("list", "tuple") else flat.append(x)
            elif t[0] == "op" and t[1] == "++":
                items(t[2]); items(t[3])
            elif t[0] == "call" and t[1] == ("x", "builtins.list") and len(t[2]) == 1:
                flat.append(("star", t[2][0]))
            else:
                flat.append(t)
        items(v)
        return flat == [("n", "indices"), ("star", ("n", va))]
    mx = ("call", ("f", IT + ".max_nb"), (("n", "indices"),), ())
    bound = bool(dense) and all(any(contains(c, mx) for c, p in e.cond) for e in dense)
    fb = bool(fallback) and all(trivial(e) for e in other) and all(any(contains(c, mx) for c, p in e.cond) for e in fallback)
    run.ob("numba|falls-back-outside-bound", fb and bound,
           "_sum_by_group_numba uses the dense kernel only under its index bound and otherwise the numpy implementation", w,
           detail="%d dense, %d fallback, %d other returns" % (len(dense), len(fallback), len(other)))
    ok = False
    for e in dense:
        v = e.value
        if v[0] == "call" and v[1] == ("x", "builtins.tuple") and len(v[2]) == 1:
            v = v[2][0]
        # (keys, *sums) in whatever spelling: tuple([k] + [..]), (k, *[..]), [k] + [..]
        first, rest = None, None
        if v[0] == "op" and v[1] == "++" and v[2][0] == "list" and len(v[2][1]) == 1:
            first, rest = v[2][1][0], v[3]
        elif v[0] in ("tuple", "list") and len(v[1]) >= 2:
            first, rest = v[1][0], ("tuple", tuple(v[1][1:]))
        if first is not None:
            K = [x for x in walk(first) if x[0] == "proj" and x[2] == 0]
            S = [x for x in walk(rest) if x[0] == "proj" and x[2] == 1]
            ok = bool(K) and bool(S) and tkey(K[0][1]) == tkey(S[0][1])
    run.ob("numba|returns-indices-then-sums", ok,
           "the dense path returns (group keys, then one summed array per value array) of one kernel call", w)
    # numpy path: one permutation for keys and values, then unique keys of the sorted keys
    ps = f_np.params()
    r = ANF(ix, f_np, param_alias={ps[0]: "indices"}).run()
    order = expect(ix, f_np, "np.argsort(indices)")
    rets = r.returns()
    ok = len(rets) == 1 and rets[0].value[0] == "call" and rets[0].value[1] == ("f", f_sorted.qualname) \
        and tkey(rets[0].value[2][0]) == tkey(("idx", ("n", "indices"), (order,)))
    st = [s_ for s_ in r.stores() if s_.loops]
    # the value arrays: permuted one by one in a loop over the list, or by a comprehension over the value arrays
    in_loop = len(st) == 1 and st[0].value[0] == "idx" and st[0].value[2] == (order,) and st[0].index == (("loop", st[0].loops[-1], 0),) \
        and st[0].value[1] == ("idx", base_of(st[0].base), st[0].index)
    rest = rets[0].value[2][1:] if ok else ()
    by_comp = len(rest) == 1 and rest[0][0] == "star" and rest[0][1][0] == "comp" and rest[0][1][1] == "ListComp" \
        and rest[0][1][2] == ("idx", ("b", 0), (order,)) and len(rest[0][1][3]) == 1 and rest[0][1][3][0][1] == ("n", f_np.node.args.vararg.arg) \
        and not rest[0][1][3][0][2]
    ok = ok and (in_loop or by_comp)
    run.ob("numpy|sorts-indices-and-values-together", ok, "indices and every value array are permuted by the same argsort",
           run.where(f_np, f_np.node))
    ps = f_sorted.params()
    r = ANF(ix, f_sorted, param_alias={ps[0]: "indices"}).run()
    rets = r.returns()
    mask = ("upd", expect(ix, f_sorted, "np.ones(len(indices), 'bool')"), (("slice", C(None), C(-1), C(None)),),
            expect(ix, f_sorted, "indices[1:] != indices[:-1]"))
    keys = ("idx", ("n", "indices"), (mask,))

    def first_of(v, depth=0):
        """first element of a list value: a display, [k] + rest, or a list that starts as [k] and is appended to in a loop"""
        if depth > 6 or not isinstance(v, tuple) or not v:
            return None
        if v[0] in ("list", "tuple"):
            return v[1][0] if v[1] else None
        if v[0] == "op" and v[1] == "++":
            return first_of(v[2], depth + 1)
        if v[0] == "carried":
            return first_of(v[2], depth + 1)
        if v[0] == "phi":
            L_ = r.loops.get(v[1])
            return first_of(L_["env"].get(v[2]), depth + 1) if L_ else None
        if v[0] == "merge":
            a_, b_ = first_of(v[2], depth + 1), first_of(v[3], depth + 1)
            return a_ if a_ is not None and b_ is not None and tkey(a_) == tkey(b_) else None
        return None
    got = first_of(rets[0].value) if len(rets) == 1 else None
    ok = got is not None and tkey(got) == tkey(keys)
    run.ob("numpy|unique-sorted", ok, "the numpy path returns first the last-of-run selection of the sorted keys (the unique keys), then the sums",
           run.where(f_sorted, f_sorted.node), detail=tshow(rets[0].value)[:200] if rets else None)
    run.floor(5)


def r6_4(run):
    ix = run.index
    n = 0
    for cname, meth in (("Valve", "create_pit_branch_entries"), ("Pipe", "get_internal_results")):
        c = component(ix, cname)
        f = ix.lookup_method(c, meth)
        run.analysed(f)
        ki, k = hook_summary(ix, c, meth, {"option:transient": False, "any:*": True, "fluid.is_gas": True}, partial=True, soft=True, free=True)
        for r in ki.internal_lookup_reads:
            n += 1
            rows = tonum(r["rows"]).plain() if not isinstance(r["rows"], (list, tuple)) else None
            ok, why = False, "row expression not resolved"
            if rows is not None:
                pos = [a for a in rows.atoms() if a[0] == "sym" and len(a) == 5 and a[1] == "pos" and a[2] == "branch_index"]
                start = Poly.sym("lookup", "branch_from_to[%s]" % r["table"], "f")
                if not pos:
                    ok, why = True, "rows do not come from the branch index lookup"
                    labels = []
                    _labels_outside_lookup(rows, labels)
                    if labels:
                        ok, why = False, "rows are raw labels"
                else:
                    rest = rows - Poly.atom(pos[0])
                    ok = pos[0][3] == r["table"] and rest == -start
                    why = "rows = %s" % rows
            from ..algebra import fmt_poly
            run.ob("%s.%s|%s[%s]|%s" % (cname, meth, r["kind"], r["table"], U(r["node"]).replace(" ", "")[:50]), ok,
                   "net._lookups[%r][%r] (one row per element) is indexed with branch_index[%s][labels] - start of the table"
                   % (r["kind"], r["table"], r["table"]), run.where(r["fi"], r["node"]), detail=why)
    # the structure really has one row per element and offset-free rows for branches
    from ..arrnf import ANF, FULL, C, base_of, expect, key as tkey
    g_ = ix.func("pandapipes.component_models.component_toolbox.get_internal_lookup_structure")
    ps = g_.params()
    rg = ANF(ix, g_, param_alias=dict(zip(ps, ("internals", "table_name", "n", "start")))).run()
    st = rg.stores()
    alloc = [s_ for s_ in st if s_.base == ("n", "internals") and s_.index == (("n", "table_name"),)]
    # the columns of the stored array: filled before it is stored (local array) or through internals[table_name] afterwards
    colvals = {}
    ok = len(alloc) == 1
    if ok:
        V = alloc[0].value
        V0 = base_of(V)
        t_ = V
        chain = []
        while t_[0] == "upd":
            chain.append((t_[2], t_[3]))
            t_ = t_[1]
        for idx_, val_ in reversed(chain):
            colvals.setdefault(idx_, []).append(val_)
        for s_ in st:
            if s_.seq > alloc[0].seq and tkey(base_of(s_.base)) == tkey(V0):
                colvals.setdefault(s_.index, []).append(s_.value)
        first, last = colvals.get((FULL, C(0)), []), colvals.get((FULL, C(1)), [])
        ok = tkey(V0) == tkey(expect(ix, g_, "np.empty((len(n), 2), dtype=np.int32)")) \
            and len(first) == 1 and len(last) == 1 and set(colvals) == {(FULL, C(0)), (FULL, C(1))} \
            and tkey(last[0]) == tkey(expect(ix, g_, "np.cumsum(n) - 1 + start")) \
            and tkey(first[0]) == tkey(expect(ix, g_, "(np.cumsum(n) - 1 + start) - (n - 1)"))
    run.ob("get_internal_lookup_structure|one-row-per-element", ok,
           "the internal lookup has one (first, last) row per element: last = cumsum(n) - 1 + start, first = last - (n - 1)",
           run.where(g_, g_.node))
    bl = ix.func("pandapipes.component_models.abstract_models.branch_w_internals_models.BranchWInternalsComponent.create_branch_lookups")
    cs = [c_ for c_ in calls(bl.node, "get_internal_lookup_structure")]
    run.ob("branch-internal-lookup|offset-free", len(cs) == 1 and len(cs[0].args) == 3,
           "internal branch rows are relative to the component's own pit rows (no start offset)", run.where(bl, bl.node))
    run.floor(5)


def _anf_of(run, f):
    """ANF summary of a function, shared between the package-wide rules of one run"""
    from ..arrnf import ANF, Unsupported as AUnsupported
    cache = run.__dict__.setdefault("_anf_cache", {})
    if f.qualname not in cache:
        try:
            cache[f.qualname] = ANF(run.index, f).run()
        except AUnsupported:
            cache[f.qualname] = None
    return cache[f.qualname]


def _is_pair_call(x):
    return x[0] == "call" and x[1] in (("x", "numpy.where"), ("x", "numpy.nonzero")) and len(x[2]) == 1


def _pair_calls(t):
    """np.where / np.nonzero calls with one (condition) argument: their outputs are parallel arrays in pair order"""
    from ..arrnf import walk
    return [x for x in walk(t) if x[0] == "call" and x[1] in (("x", "numpy.where"), ("x", "numpy.nonzero")) and len(x[2]) == 1]


def r6_5(run):
    """index domains of np.where outputs: the k outputs of np.where(cond) are parallel arrays in *pair order* whose values are
    positions along axis k of cond.  Indexing one output with another (or with anything that is not a selection of pairs),
    and storing an output over *all* rows of an array, confuses the pair order with a row order: the result then depends
    on how table order and lookup order relate (it is right only for involutive permutations)."""
    from ..arrnf import ANF, FULL, key as tkey, show as tshow, walk, Unsupported as AUnsupported
    ix = run.index
    n_fn, n_calls = 0, 0
    for f in ix.all_functions():
        if ".test." in f.qualname:
            continue
        r = _anf_of(run, f)
        if r is None:
            continue
        n_fn += 1
        seen = set()
        for e in r.events:
            terms = []
            if e.kind == "store":
                terms = [("idx", e.base, e.index), e.value]
            elif e.kind == "call":
                terms = [e.term]
            elif e.kind in ("return", "raise"):
                terms = [e.value]
            for t in terms:
                for x in walk(t):
                    if x[0] == "idx" and x[1][0] == "proj" and _is_pair_call(x[1][1]):
                        W = x[1][1]
                        for sel in x[2]:
                            if any(y[0] == "proj" and tkey(y[1]) == tkey(W) and y[2] != x[1][2] for y in walk(sel)):
                                k = "%s|where-output-indexed-by-where-output|%s" % (f.short, tshow(x)[:60])
                                if k not in seen:
                                    seen.add(k)
                                    run.ob(k, False, "an output of np.where (pair order) is not indexed with positions taken from "
                                           "another output of the same call", run.where(f, e.node), detail=tshow(x)[:200])
            if e.kind == "store" and len(e.index) >= 1 and e.index[0] == FULL and e.value[0] == "proj" and _is_pair_call(e.value[1]) \
                    and _is_outer_compare(e.value[1][2][0]):
                k = "%s|where-output-stored-over-all-rows|%s" % (f.short, tshow(e.base)[:40])
                if k not in seen:
                    seen.add(k)
                    run.ob(k, False, "an output of np.where over an outer comparison (pair order) is scattered by the positions of the "
                           "other output, not stored over all rows", run.where(f, e.node), detail=tshow(e.value)[:200])
        # the scatter that is right: arr[proj(W, j), c] = proj(W, i)  (reported as discharged obligation for non-vacuity)
        for e in r.events:
            if e.kind == "store" and e.value[0] == "proj" and _is_pair_call(e.value[1]) and len(e.index) >= 1 \
                    and e.index[0][0] == "proj" and tkey(e.index[0][1]) == tkey(e.value[1]) and e.index[0][2] != e.value[2]:
                run.ob("%s|pair-scatter|%s" % (f.short, tshow(e.base)[:40]), True,
                       "values from one np.where output are scattered to the positions given by the other output", run.where(f, e.node))
    run.stat("functions_scanned_for_where_pairs", n_fn)
    run.ob("where-pairs|functions-scanned", n_fn >= 500, "functions of the package scanned: %d" % n_fn, "src/pandapipes")
    run.floor(2)


def _is_outer_compare(c):
    """A == B[:, None] (or the mirrored form): a 2-d comparison of two 1-d arrays"""
    from ..arrnf import FULL, C
    if c[0] != "cmp" or c[1] != "==":
        return False
    def col(t):
        return t[0] == "idx" and len(t[2]) == 2 and ((t[2][0] == FULL and t[2][1] == C(None)) or (t[2][1] == FULL and t[2][0] == C(None)))
    return col(c[2]) != col(c[3])


def r6_6(run):
    """labels are names, not numbers: a user label (a reference column of an element table, a table index) never enters
    arithmetic (+ - * / // % **) in the package; it may be compared, sorted, made unique, and used as index of an index lookup.
    An arithmetic combination of labels (a scalar key built from two labels, label + offset) is injective or in range only for
    particular labellings."""
    from ..arrnf import ANF, C, FULL, key as tkey, show as tshow, walk, Unsupported as AUnsupported
    from .c16 import reference_columns
    ix = run.index
    refs = reference_columns(ix)
    refcols = {c for d in refs.values() for c, k in d.items() if k != "std_type"}

    def is_label(t, depth=0):
        """term denotes user labels (possibly selected / viewed)"""
        if depth > 8:
            return False
        if t[0] == "attr" and t[2] in ("values", "index", "array"):
            if t[2] == "index":
                return _is_net_table(t[1])
            return is_label(t[1], depth + 1)
        if t[0] == "call" and t[1][0] == "attr" and t[1][2] in ("to_numpy", "astype", "copy", "tolist") :
            return is_label(t[1][1], depth + 1)
        if t[0] == "idx":
            b, i = t[1], t[2]
            if _is_net_table(b) and len(i) == 1:
                k = i[0]
                if k[0] == "c" and k[1] in refcols:
                    return True
                # table[list(cls.from_to_node_cols())] / table[fn_col]
                if any(y[0] == "call" and y[1][0] == "attr" and y[1][2] == "from_to_node_cols" for y in walk(k)):
                    return True
                return False
            # selection of labels by mask / slice / constant position keeps labels
            if all(j[0] in ("slice", "c") or j[0] in ("n", "cmp", "opn", "u", "call") for j in i) and is_label(b, depth + 1) \
                    and not any(is_label(j, depth + 1) for j in i):
                return True
        return False

    def _is_net_table(t):
        if t[0] == "idx" and t[1] == ("n", "net") and len(t[2]) == 1:
            k = t[2][0]
            return not (k[0] == "c" and (k[1].startswith("_") or k[1].startswith("res_")))
        if t[0] == "idx" and len(t[2]) == 1 and _is_net_table(t[1]) and t[2][0][0] not in ("c",) and t[2][0][0] in ("cmp", "opn", "u", "attr"):
            return True        # table filtered by a row mask
        return False

    n_fn, n_lab = 0, 0
    for f in ix.all_functions():
        if ".test." in f.qualname or f.module.startswith(("pandapipes.plotting", "pandapipes.converter", "pandapipes.networks")):
            continue
        r = _anf_of(run, f)
        if r is None:
            continue
        n_fn += 1
        seen = set()
        for e in r.events:
            terms = []
            if e.kind == "store":
                terms = [e.value] + list(e.index)
            elif e.kind == "call":
                terms = [e.term]
            elif e.kind in ("return", "raise"):
                terms = [e.value]
            for t in terms:
                for x in walk(t):
                    ops = ()
                    if x[0] == "opn" and x[1] in ("+", "*"):
                        ops = x[2]
                    elif x[0] == "op" and x[1] in ("-", "/", "//", "%", "**"):
                        ops = (x[2], x[3])
                        if x[1] == "%" and x[2][0] == "c" and isinstance(x[2][1], str):
                            ops = ()        # string formatting of a message
                    for o in ops:
                        if is_label(o):
                            k = "%s|label-in-arithmetic|%s" % (f.short, tshow(o)[:60])
                            if k not in seen:
                                seen.add(k)
                                run.ob(k, False, "user labels do not enter arithmetic", run.where(f, e.node), detail=tshow(x)[:240])
                    if x[0] == "idx" and len(x[2]) == 1 and x[2][0][0] == "c" and x[2][0][1] in refcols and _is_net_table(x[1]):
                        n_lab += 1
    run.stat("label_terms_seen", n_lab)
    run.ob("label-arithmetic|functions-scanned", n_fn >= 400 and n_lab >= 8,
           "functions scanned: %d, label-valued terms seen: %d" % (n_fn, n_lab), "src/pandapipes")
    run.floor(1)


def r6_7(run):
    """the internal valve nodes are keyed by label pairs compared for equality, not by a function of the labels (shared with C04 R4.9)"""
    from .c04 import r4_9
    r4_9(run)


def r6_8(run):
    """row order: inside the Newton loop row k of the reduced pit is the k-th *calculated* element; pairing it with the k-th
    table row (an element table read directly, or the component array of all rows) makes the result depend on where the
    non-calculated elements stand in the table (shared with C04 R4.8)"""
    from .c04 import r4_8
    r4_8(run)


def r6_9(run):
    """results are written by position into the result table, so the table must carry the element table's *current* labels:
    on every path init_results_element rebinds net['res_<element>'] to a frame indexed by net[<element>].index (a result table
    kept from an earlier run keeps the earlier labels; shared with C05 R5.8)"""
    from .c05 import r5_8
    r5_8(run)


def r6_10(run):
    """the keys a group sum (or np.unique) returns are in increasing label order, whatever the row order of the element table; what is
    stored at the rows of those keys must be in the same order: outputs of a grouping call over the *same* keys, never an array that
    is still in table-row order (an input of the grouping call, or another array selected by the same mask)"""
    from ..arrnf import key as tkey, walk, show as tshow, ite_leaves
    from .c03 import accumulation_sites, _is_grouping, _group_keys_arg
    ix = run.index
    n = 0
    for f, e, rows, unique, rmw, grp in accumulation_sites(ix):
        if grp is None:
            continue
        n += 1
        run.analysed(f)
        keys = _group_keys_arg(grp)
        sel = keys[2] if keys is not None and keys[0] == "idx" else None          # labels[<selection>]
        bad = None
        for _c, leaf in ite_leaves(e.value):
            inside = set()
            for x in walk(leaf):
                if _is_grouping(x):
                    k2 = _group_keys_arg(x)
                    if k2 is None or tkey(k2) != tkey(keys):
                        bad = bad or "output of a grouping over other keys: %s" % tshow(x)[:80]
                    for y in walk(x):
                        if y is not x:
                            inside.add(id(y))
            if sel is not None:
                for x in walk(leaf):
                    if x[0] == "idx" and tkey(x[2]) == tkey(sel) and id(x) not in inside and not any(
                            _is_grouping(g_) and any(z is x for z in walk(g_)) for g_ in walk(leaf)):
                        bad = bad or "array in table-row order: %s" % tshow(x)[:80]
        run.ob("%s|%s|grouped-rows-get-grouped-values" % (f.short, tshow(e.index[1])[:24]), bad is None,
               "values stored at the rows of the group keys are outputs of a grouping over the same keys", run.where(f, e.node), detail=bad)
    run.stat("stores_at_group_key_rows", n)
    run.floor(3)


RULES = [("R6.1", r6_1), ("R6.2", r6_2), ("R6.3", r6_3), ("R6.4", r6_4), ("R6.5", r6_5), ("R6.6", r6_6), ("R6.7", r6_7), ("R6.8", r6_8),
         ("R6.9", r6_9), ("R6.10", r6_10)]


SET_FUNCS = ("numpy.isin", "numpy.in1d", "numpy.intersect1d", "numpy.setdiff1d", "numpy.setxor1d", "numpy.union1d")


def _unique_by_construction(t):
    from ..arrnf import base_of
    t = base_of(t)
    if not isinstance(t, tuple) or not t:
        return False
    if t[0] == "proj" and t[2] == 0:
        t = t[1]
    if t[0] == "call" and t[1] == ("x", "numpy.where") and len(t[2]) == 1:
        return True             # positions of a mask (np.flatnonzero / np.nonzero / one-argument np.where in normal form)
    if t[0] == "call" and t[1] in (("x", "numpy.unique"), ("x", "numpy.arange"), ("x", "numpy.argsort")):
        return True
    if t[0] == "call" and t[1] in (("x", "numpy.intersect1d"), ("x", "numpy.setdiff1d"), ("x", "numpy.union1d"), ("x", "numpy.setxor1d")):
        return True
    return False


def assume_unique_sites(ix, functions=None):
    """[(function, node, term, ok)]: numpy set operations called with assume_unique (anything but the literal False)"""
    from ..arrnf import ANF, C
    out = []
    for f in (functions if functions is not None else ix.all_functions()):
        if functions is None and (".test." in f.module or not any(isinstance(k, ast.keyword) and k.arg == "assume_unique" for k in ast.walk(f.raw_node))):
            continue
        r = ANF(ix, f, strip=False).run()
        seen = set()
        for e in r.events:
            for t in (getattr(e, "term", None), getattr(e, "value", None)):
                if not isinstance(t, tuple):
                    continue
                from ..arrnf import walk
                for x in walk(t):
                    if isinstance(x, tuple) and x and x[0] == "call" and x[1][0] == "x" and x[1][1] in SET_FUNCS and id(x) not in seen:
                        au = dict(x[3]).get("assume_unique")
                        if au is None and len(x[2]) > 2:
                            au = x[2][2]
                        if au is None or au == C(False):
                            continue
                        seen.add(id(x))
                        out.append((f, e.node, x, all(_unique_by_construction(a) for a in x[2][:2])))
    return out


def r6_11(run):
    """which rows count as "connected", "in the table", "to be dropped" must not depend on the row order: np.isin and the numpy set
    operations are order independent -- unless `assume_unique=True` is passed, which skips the de-duplication and silently gives wrong
    members (which ones depends on the order of the rows) as soon as an argument repeats a value, e.g. two sinks at one junction.
    Every such call has both arguments unique by construction (np.unique output, positions of a mask, np.arange).  No such call exists
    in the package today; the rule keeps it that way and proves on every run that it recognises the form."""
    from ..arrnf import show as tshow
    ix = run.index
    sites = assume_unique_sites(ix)
    for f, node, t, ok in sites:
        run.analysed(f)
        run.ob("%s|%s|assume-unique-arguments-are-unique" % (f.short, tshow(t)[:40]), ok,
               "both arguments of a set operation called with assume_unique are unique by construction", run.where(f, node), detail=tshow(t)[:160])
    # the form is recognised (positive example, analysed by the same code on every run)
    from ..index import Index
    from ..source import SourceProvider
    probe_src = ("import numpy as np\n"
                 "def probe_bad(a, b):\n    return np.isin(a, b, assume_unique=True)\n"
                 "def probe_good(a, b):\n    return np.isin(np.unique(a), np.flatnonzero(b), assume_unique=True)\n")
    sp = SourceProvider(overrides={"pandapipes.idx_node": run.index.sp.text("pandapipes.idx_node") + "\n" + probe_src}) \
        if hasattr(run.index, "sp") else None
    if sp is None:
        raise AnalysisError("source provider of the index not reachable for the positive example of R6.11")
    pix = Index(sp)
    probes = assume_unique_sites(pix, [pix.func("pandapipes.idx_node.probe_bad"), pix.func("pandapipes.idx_node.probe_good")])
    got = sorted((f.name, ok) for f, _n, _t, ok in probes)
    run.ob("assume-unique|form-recognised", got == [("probe_bad", False), ("probe_good", True)],
           "the positive example is recognised: np.isin(a, b, assume_unique=True) is reported, the np.unique / np.flatnonzero variant is accepted",
           "ppsa/rules/c06.py", detail=str(got))
    run.stat("set_operations_with_assume_unique", len(sites))
    run.floor(1)


RULES.append(("R6.11", r6_11))


PIT_FILL_HOOKS = ("create_pit_node_entries", "create_pit_branch_entries", "create_component_array")


def foreign_row_sites(ix):
    """[(component class, hook, defining function, table name, "branch"|"node", node)]: a pit-filling hook of one component that
    takes the row window of ANOTHER component's table (get_lookup(net, kind, "from_to")["<table>"] with a constant table name that
    is not the component's own)"""
    from ..arrnf import ANF, walk
    out, seen = [], set()
    for c in ix.components():
        own = ix.method_const(c, "table_name")
        for h in PIT_FILL_HOOKS:
            f = ix.lookup_method(c, h)
            if f is None or f.cls.name == "Component":
                continue
            try:
                r = ANF(ix, f, strip=False).run()
            except AnalysisError:
                continue
            for e in r.events:
                for t in (getattr(e, "term", None), getattr(e, "value", None), getattr(e, "base", None)) + tuple(getattr(e, "index", None) or ()):
                    if not isinstance(t, tuple):
                        continue
                    for x in walk(t):
                        if isinstance(x, tuple) and x and x[0] == "idx" and len(x[2]) == 1 and x[2][0][0] == "c" and isinstance(x[2][0][1], str) \
                                and x[1][0] == "call" and x[1][1][0] == "f" and x[1][1][1].endswith(".get_lookup") and len(x[1][2]) == 3 \
                                and x[1][2][2] == ("c", "from_to") and x[1][2][1][0] == "c":
                            tbl, kind = x[2][0][1], x[1][2][1][1]
                            if tbl != own and not tbl.endswith("_nodes") and (c.name, h, tbl) not in seen:
                                seen.add((c.name, h, tbl))
                                out.append((c, h, f, tbl, kind, e.node))
    return out


def _fill_order_last(ix):
    """the table names initialize_pit enters last: its component loop runs over sorted(net['component_list'], key=lambda c: <test>)
    with <test> = c.table_name() == "T" / in ("T", ...) (False sorts before True, the sort is stable); else the empty set.  Also
    returns the loop node."""
    f = ix.func("pandapipes.pf.pipeflow_setup.initialize_pit")
    loops = [n for n in ast.walk(f.raw_node) if isinstance(n, ast.For)
             and any(isinstance(c, ast.Call) and isinstance(c.func, ast.Attribute) and c.func.attr in PIT_FILL_HOOKS for c in ast.walk(n))]
    if len(loops) != 1:
        raise AnalysisError("initialize_pit: expected exactly one loop that calls the pit-filling hooks, found %d" % len(loops))
    loop = loops[0]
    it = loop.iter
    if isinstance(it, ast.Name):
        asg = [a for a in ast.walk(f.raw_node) if isinstance(a, ast.Assign) and len(a.targets) == 1 and isinstance(a.targets[0], ast.Name)
               and a.targets[0].id == it.id]
        if len(asg) == 1:
            it = asg[0].value
    last = set()
    if isinstance(it, ast.Call) and isinstance(it.func, ast.Name) and it.func.id == "sorted" and it.args and "component_list" in U(it.args[0]):
        key = [k.value for k in it.keywords if k.arg == "key"]
        if len(key) == 1 and isinstance(key[0], ast.Lambda) and len(key[0].args.args) == 1:
            v, body = key[0].args.args[0].arg, key[0].body
            if isinstance(body, ast.Compare) and len(body.ops) == 1 and U(body.left) == "%s.table_name()" % v:
                rhs = body.comparators[0]
                if isinstance(body.ops[0], ast.Eq) and const_str(rhs):
                    last = {const_str(rhs)}
                elif isinstance(body.ops[0], ast.In) and isinstance(rhs, (ast.Tuple, ast.List, ast.Set)) and all(const_str(x) for x in rhs.elts):
                    last = {const_str(x) for x in rhs.elts}
    elif not ("component_list" in U(it)):
        raise AnalysisError("initialize_pit: the hook loop does not run over the component list (%s)" % U(it)[:60])
    return last, loop, f


def r6_12(run):
    """the order in which elements are created decides the order of net.component_list whenever the components are added on demand
    (sector=Sector.NONE).  Each pit-filling hook writes its own rows, so the order does not matter -- except where a hook takes the
    rows of ANOTHER component's table (Valve.create_pit_branch_entries re-wires the pipe rows a pipe valve sits on): such a hook needs
    the other rows to be filled already, and must not be followed by the hook that fills them.  For every such (component, foreign
    table) pair initialize_pit enters the component after all others (stable sort key on its table name) and the foreign table's
    component is not deferred itself."""
    ix = run.index
    sites = foreign_row_sites(ix)
    last, loop, f = _fill_order_last(ix)
    run.analysed(f)
    for c, h, g_, tbl, kind, node in sites:
        own = ix.method_const(c, "table_name")
        run.analysed(g_)
        run.ob("%s.%s|rows-of-%s|filled-before" % (c.name, h, tbl), own in last and tbl not in last,
               "%s.%s works on the %s rows of the %s pit: initialize_pit enters %r after all other components, whatever the order of "
               "net.component_list" % (c.name, h, tbl, kind, own), run.where(g_, node),
               detail="entered last: %s" % (sorted(last) or "nothing (component_list order as created)"))
    run.stat("hooks_working_on_foreign_rows", len(sites))
    if len(ix.components()) < 8:
        raise AnalysisError("only %d component classes found" % len(ix.components()))
    run.ob("pit-filling-hooks-scanned", True, "pit-filling hooks of %d components scanned for foreign row windows" % len(ix.components()),
           "component_models")
    run.floor(2)


RULES.append(("R6.12", r6_12))


def _is_index_lookup(t):
    """get_lookup(net, <kind>, "index" / "index_active_*")[<table>]"""
    return isinstance(t, tuple) and t and t[0] == "idx" and t[1][0] == "call" and t[1][1][0] == "f" and t[1][1][1].endswith(".get_lookup") \
        and len(t[1][2]) == 3 and t[1][2][2][0] == "c" and str(t[1][2][2][1]).startswith("index")


def component_array_index_kinds(ix):
    """[(class, column constant, what the writer stores: "label" | "position" | None, [(what a reader needs, function, node)])] for
    the columns of the component arrays that hold references to other elements"""
    from ..arrnf import ANF, walk, key as tkey
    rows = []
    for c in ix.components():
        w = ix.lookup_method(c, "create_component_array")
        if w is None or w.cls.name == "Component":
            continue
        try:
            rw = ANF(ix, w, strip=False).run()
        except AnalysisError:
            continue
        written = {}
        for e in rw.stores():
            if len(e.index) == 2 and e.index[1][0] == "attr" and e.index[1][1] in (("n", "cls"), ("n", "self")):
                col = e.index[1][2]
                v = e.value
                through_lookup = any(isinstance(x, tuple) and x and x[0] == "idx" and _is_index_lookup(x[1]) for x in walk(v))
                from_ref_col = any(isinstance(x, tuple) and x and x[0] in ("attr", "idx") and (
                    (x[0] == "attr" and "junction" in str(x[2])) or (x[0] == "idx" and x[2] and x[2][0][0] == "c" and "junction" in str(x[2][0][1])))
                    for x in walk(v))
                if through_lookup:
                    written[col] = "position"
                elif from_ref_col:
                    written[col] = "label"
        if not written:
            continue
        readers = {col: [] for col in written}
        for m in ix.mro(c):
            for f in m.methods.values():
                if f.name == "create_component_array" or not any(isinstance(n, ast.Attribute) and n.attr in written for n in ast.walk(f.raw_node)):
                    continue
                try:
                    r = ANF(ix, f, strip=False).run()
                except AnalysisError:
                    continue
                for e in r.events:
                    for t in (getattr(e, "term", None), getattr(e, "value", None), getattr(e, "base", None)) + tuple(getattr(e, "index", None) or ()):
                        if not isinstance(t, tuple):
                            continue
                        for x in walk(t):
                            if not (isinstance(x, tuple) and x and x[0] == "idx" and x[2]):
                                continue
                            for col in written:
                                uses = [y for i_ in x[2][:1] for y in walk(i_) if isinstance(y, tuple) and y and y[0] == "idx" and len(y[2]) == 2
                                        and y[2][1] == ("attr", ("n", "cls"), col)]
                                if not uses:
                                    continue
                                if _is_index_lookup(x[1]):
                                    need = "label"
                                elif x[1] in (("n", "node_pit"), ("n", "branch_pit")):
                                    need = "position"
                                else:
                                    continue
                                if (need, f.qualname) not in [(a, b.qualname) for a, b, _ in readers[col]]:
                                    readers[col].append((need, f, e.node))
        for col, kind in written.items():
            rows.append((c.name, col, kind, readers[col]))
    return rows


def r6_13(run):
    """a reference to another element that is parked in a component array is parked as what its readers take it for: a junction
    LABEL if the hooks translate it through an index lookup, a pit POSITION if they index the pit with it directly.  A position put
    through the label lookup (or a label used as a position) names the right row only while labels and positions coincide, i.e. for a
    net whose junction index is 0..n-1 in creation order."""
    ix = run.index
    rows = component_array_index_kinds(ix)
    n = 0
    for cname, col, kind, readers in rows:
        for need, f, node in readers:
            n += 1
            run.analysed(f)
            run.ob("%s.%s|%s|stored-as-read" % (cname, col, f.name), need == kind,
                   "%s.%s is stored as a %s and read by %s as a %s" % (cname, col, kind, f.name, need), run.where(f, node))
    run.stat("reference_columns_in_component_arrays", len(rows))
    run.floor(1)


RULES.append(("R6.13", r6_13))
