"""C01 -- mass is conserved at every supplied junction and over the whole network (structural part).

 R1.1 triplet segment agreement of the sparse-matrix assembler (tiling, lengths, selectors) -- hydraulic and thermal arm
 R1.2 sign coherence between Jacobian entries and load vector, statement order of the row overrides
 R1.3 linearity of the nodal terms in all four hydraulic kernels; slack-mass derivative
 R1.4 unknown-vector layout: assembler column ranges = slices of the solution subtracted by the solver
 R1.5 LOAD column discipline and reported mass flows
 R1.6 pit-column typing (namespace of every constant column subscript)
"""
import ast

from .. import phys
from ..algebra import GExpr, Poly
from ..astutil import U, assignments, calls, callee_name, own_walk
from ..kernelir import KInterp, PyVal
from ..phys import bcol, check_equal, component, g, hook_summary, run_kernel
from ..segments import Arm, tiling
from ..source import AnalysisError
from ..segments import canonical_bsm
from ..arrnf import mk_opn

BSM = "pandapipes.pf.build_system_matrix"
P = "pandapipes.pipeflow"

EXPLANATION = (
    "The nodal mass balance is linear in the unknowns, so it holds to linear-solve round-off at the accepted iterate "
    "exactly when the assembler is coherent; that coherence is decided from the source: (R1.1) build_system_matrix is "
    "specialised for heat_mode False/True by constant propagation, every `system_data/cols/rows[a:b] = rhs` store is "
    "reduced to an affine interval over base length symbols; data, column and row segments each tile [0, full_len) "
    "without gap or overlap, have the length of their right-hand side, use the same row selector in all three arrays, "
    "and pair each Jacobian slot with the row vector of its equation and the column vector of its unknown; (R1.2) the "
    "sign with which a branch's mass flow enters the load vector of its from/to node and of the slack-mass row equals "
    "the sign of the Jacobian entry, and slack / pressure-controlled rows are overridden after the group sums; (R1.3) "
    "in all four hydraulic kernels the nodal terms are exactly MDOTINIT with derivative 1, and pressure-fixing "
    "components set the slack-mass derivative to -1 on the rows they fix; (R1.4) the column ranges used by the "
    "assembler equal the slices of the solution vector the solver subtracts from PINIT, MDOTINIT, MDOTSLACKINIT and "
    "both use the same slack-node definition; (R1.5) the only accumulating writer of LOAD is ConstFlow, reported "
    "mf_from/mf_to are +-MDOTINIT of one column, the ext-grid report divides the slack mass flow by the number of "
    "grids at the node; (R1.6) every constant column subscript uses a constant of the pit namespace it indexes. "
    "(R1.7, shared with C04 R4.7/R4.3) the connectivity search keeps a branch only if its from node was reached and reduce_pit remaps both ends of the kept branches through the same renumbering, so no active branch is attached to a dropped node. Not decided: the size of the round-off, anything about the nonlinear branch rows.")
ASSUMPTIONS = ["each pressure-controlled node is controlled by exactly one PC branch (count of PC nodes = count of PC branches)",
               "the number of infeed nodes equals the number of fixed-temperature nodes when the thermal matrix is built "
               "(guarded by check_infeed_number in solve_temperature)",
               "scipy.sparse csr_matrix sums duplicate triplets"]
TECHNIQUE = "affine slice-bound analysis with constant-propagated specialisation, role tables for Jacobian slots, kernel value numbering, namespace typing of pit subscripts"

# meaning of the Jacobian slots: (unknown the derivative is taken for)
VAR_OF = {"JAC_DERIV_DM": "m", "JAC_DERIV_DP": "p_from", "JAC_DERIV_DP1": "p_to", "JAC_DERIV_DM_NODE": "m",
          "JAC_DERIV_MSL": "mslack", "JAC_DERIV_DT": "T_from", "JAC_DERIV_DTOUT": "T_out",
          "JAC_DERIV_DT_NODE": "T_tonode", "JAC_DERIV_DTOUT_NODE": "T_out", "JAC_DERIV_DT_N": "T_node"}
COLS_OF_VAR = {"m": "branch_matrix_indices", "p_from": "fn", "p_to": "tn", "mslack": "slack_mass_matrix_indices",
               "T_from": "fn", "T_out": "branch_matrix_indices", "T_tonode": "tn", "T_node": "np.arange(len_n)"}
INVARIANT_PAIRS = [("pc_branch_mask", "pcn_type"), ("INFEED", "slack_type")]


def _sel_group(arm, sel):
    if sel is None:
        return None
    return arm.where_groups.get(sel, sel)


def _bounds(segs):
    b = []
    for s in segs:
        b.append(s.lo)
        b.append(s.hi)
    return b


def r1_1(run):
    ix = run.index
    f = canonical_bsm(ix)
    run.analysed(f)
    for heat in (False, True):
        arm = Arm(f, heat)
        tag = "heat" if heat else "hyd"
        data, full = arm.segments("system_data")
        cols, _ = arm.segments("system_cols")
        rows, _ = arm.segments("system_rows")
        w = run.where(f, f.node)
        run.stat("segments_%s" % tag, len(data) + len(cols) + len(rows))
        for name, segs in (("data", data), ("cols", cols), ("rows", rows)):
            ok, msg = tiling(segs, full)
            run.ob("%s|%s|tiles-[0,full_len)" % (tag, name), ok and len(segs) >= (6 if heat else 9),
                   "the %d system_%s segments tile [0, full_len) without gap or overlap" % (len(segs), name), w, detail=msg)
        # lengths
        for name, segs in (("data", data), ("cols", cols), ("rows", rows)):
            for s in segs:
                if s.const is not None:
                    continue
                ln = s.hi - s.lo
                ok = ln == s.value_len
                note = ""
                if not ok:
                    txt = str(ln) + " / " + str(s.value_len)
                    if any(a in txt and b in txt for a, b in INVARIANT_PAIRS):
                        ok, note = True, " (equal by the documented component invariant)"
                        run.stat("segment_lengths_by_invariant")
                run.ob("%s|%s|length|%s" % (tag, name, U(s.stmt.targets[0]).replace(" ", "")), ok,
                       "segment length %s equals the length of its right-hand side %s%s" % (ln, s.value_len, note),
                       run.where(f, s.stmt))
        # pairing of data / cols / rows over the same interval
        cb, rb = _bounds(cols), _bounds(rows)
        for d in data:
            cs = [c for c in cols if _within(c, d)]
            rs = [r for r in rows if _within(r, d)]
            key = "%s|pair|%s" % (tag, U(d.stmt.targets[0]).replace(" ", ""))
            okc, msgc = _covers(cs, d)
            okr, msgr = _covers(rs, d)
            if not (okc and okr):
                run.ob(key + "|covered", False, "column and row segments cover the data segment exactly", run.where(f, d.stmt),
                       detail=msgc if not okc else msgr)
                continue
            if (len(cs) > 1 or len(rs) > 1) and d.const is None:
                run.ob(key + "|split-only-constant", False, "only constant-valued data segments are split", run.where(f, d.stmt))
                continue
            for c, r in zip(cs, rs):
                if d.const is None:
                    gs = {_sel_group(arm, x.selector) for x in (d, c, r)}
                    if d.column == "JAC_DERIV_MSL":
                        # slack-mass unknown k belongs to slack_nodes[k]: node data selected by slack_nodes, indices unselected
                        gs = {0} if (d.selector == "slack_nodes" and c.selector is None and r.selector is None
                                     and c.base == r.base == "slack_mass_matrix_indices") else {0, 1}
                    run.ob(key + "|same-selector", len(gs) == 1,
                           "data, column and row entries are selected by the same mask / index group: %s"
                           % sorted(map(str, (d.selector, c.selector, r.selector))), run.where(f, d.stmt))
                    var = VAR_OF.get(d.column)
                    want_col = COLS_OF_VAR.get(var)
                    run.ob(key + "|column-of-unknown", want_col is not None and c.base == want_col,
                           "entries of %s (derivative wrt. %s) sit in the matrix column of that unknown (%s)"
                           % (d.column, var, want_col), run.where(f, c.stmt), detail="cols from %s" % c.base)
                    # equation (row) role and sign
                    if d.column in ("JAC_DERIV_DM_NODE",):
                        side = None
                        if r.base in ("fn", "tn"):
                            side = "from" if r.base == "fn" else "to"
                            seldef = U(arm.arr.get(d.selector, ast.Constant(value=None))) if d.selector in arm.arr else ""
                            uses = ("fn" in seldef) if side == "from" else ("tn" in seldef)
                        elif r.base == "slack_mass_matrix_indices":
                            wdef = U(arm.arr.get(d.selector, ast.Constant(value=None)))
                            side = "from" if "FROM_NODE" in wdef else ("to" if "TO_NODE" in wdef else None)
                            uses = side is not None
                            # rows use the slack-axis output of np.where, data/cols the branch-axis output
                            tg = [st for st in arm.stmts if isinstance(st, ast.Assign) and isinstance(st.targets[0], ast.Tuple)
                                  and d.selector in [U(e) for e in st.targets[0].elts]]
                            pos_ok = False
                            if tg:
                                names = [U(e) for e in tg[0].targets[0].elts]
                                cmp_ = tg[0].value.args[0]
                                slack_axis0 = isinstance(cmp_, ast.Compare) and "[:, None]" in U(cmp_.comparators[0]) \
                                    and "slack_nodes" in U(cmp_.comparators[0])
                                pos_ok = slack_axis0 and names.index(d.selector) == 1 and r.selector == names[0] \
                                    and c.selector == names[1]
                            run.ob(key + "|where-axes", pos_ok,
                                   "rows use the slack-axis output and data/cols the branch-axis output of the same np.where",
                                   run.where(f, r.stmt))
                        else:
                            uses = False
                        run.ob(key + "|node-equation-side", side is not None and uses,
                               "node-equation rows (%s) belong to the %s node the selector is defined on" % (r.base, side),
                               run.where(f, r.stmt))
                        run.ob(key + "|sign", side is not None and d.sign == (-1 if side == "from" else 1),
                               "mass flow leaves the from node (-) and enters the to node (+): sign %+d on the %s side"
                               % (d.sign, side), run.where(f, d.stmt))
                    elif d.column in ("JAC_DERIV_DT_NODE", "JAC_DERIV_DTOUT_NODE"):
                        run.ob(key + "|row-of-equation", r.base == "tn" and d.sign == 1,
                               "thermal node terms sit in the row of the (flow-corrected) to node", run.where(f, r.stmt))
                    elif d.column == "JAC_DERIV_DT_N":
                        run.ob(key + "|row-of-equation", r.base == "np.arange(len_n)" and r.selector == d.selector,
                               "the node's own derivative sits on the diagonal of its row", run.where(f, r.stmt))
                    elif d.column == "JAC_DERIV_MSL":
                        run.ob(key + "|row-of-equation", r.base == "slack_mass_matrix_indices" and d.sign == 1,
                               "the slack-mass derivative sits on the diagonal of the slack-mass row", run.where(f, r.stmt))
                    else:
                        run.ob(key + "|row-of-equation", r.base == "branch_matrix_indices" and d.sign == 1,
                               "branch derivatives sit in the row of the branch equation", run.where(f, r.stmt))
                else:
                    # fixed-value identity rows
                    ok = d.const == 1
                    if not heat:
                        ok = ok and (c.base, r.base) in (("pc_nodes", "pc_matrix_indices"), ("slack_nodes", "slack_nodes"))
                        txt = "fixed-pressure rows: 1 on (slack, slack) and on (PC branch row, PC node column)"
                    else:
                        ok = ok and (c.base, r.base) == ("slack_nodes", "infeed_node")
                        txt = "fixed-temperature rows: 1 at (infeed node row, fixed-temperature node column)"
                    run.ob(key + "|identity|%s,%s" % (r.base, c.base), ok, txt, run.where(f, c.stmt))
    run.floor(90)


def _within(s, d):
    return _le(d.lo, s.lo) and _le(s.hi, d.hi)


def _le(a, b):
    """a <= b for affine length forms with non-negative symbols: all coefficients of b - a are >= 0"""
    diff = b - a
    return all(c >= 0 for c in diff.terms.values())


def _covers(parts, d):
    if not parts:
        return False, "no partner segment"
    cur = d.lo
    for p in parts:
        if p.lo != cur:
            return False, "gap at %s" % cur
        cur = p.hi
    return cur == d.hi, "partner segments end at %s instead of %s" % (cur, d.hi)


def r1_2(run):
    ix = run.index
    f = canonical_bsm(ix)
    arm = Arm(f, False)
    w = run.where(f, f.node)
    groups = {}
    for st in arm.stmts:
        if isinstance(st, ast.Assign) and isinstance(st.targets[0], ast.Tuple) and isinstance(st.value, ast.Call) \
                and callee_name(st.value) == "_sum_by_group":
            names = [U(e) for e in st.targets[0].elts]
            args = st.value.args
            groups[names[1]] = {"keys": names[0], "index": U(args[1]), "value": U(args[2]).replace(" ", ""), "stmt": st}
    updates = []
    order = []
    for st in arm.stmts:
        if isinstance(st, ast.AugAssign) and isinstance(st.target, ast.Subscript) and U(st.target.value) == "load_vector":
            updates.append((U(st.target.slice).replace(" ", ""), "-" if isinstance(st.op, ast.Sub) else "+", U(st.value).replace(" ", ""), st))
            order.append(("aug", st))
        elif isinstance(st, ast.Assign) and isinstance(st.targets[0], ast.Subscript) and U(st.targets[0].value) == "load_vector":
            order.append(("set", st))
    want = [("fn", "LOAD_VEC_NODES_FROM", "-", "fn_unique"), ("tn", "LOAD_VEC_NODES_TO", "+", "tn_unique"),
            ("slack_masses_from", "LOAD_VEC_NODES_FROM", "-", None), ("slack_masses_to", "LOAD_VEC_NODES_TO", "+", None)]
    for index, col, sign, _ in want:
        cand = [(k, v) for k, v in groups.items() if v["index"] == index and col in v["value"]]
        ok = len(cand) == 1
        up = None
        if ok:
            sums, info = cand[0]
            up = [u for u in updates if u[2] == sums]
            ok = len(up) == 1 and up[0][1] == sign and info["keys"] in up[0][0]
            if index.startswith("slack_masses"):
                ok = ok and "slack_mass_matrix_indices[" in up[0][0] and \
                    ("slack_branches_from" if "from" in index else "slack_branches_to") in info["value"]
        run.ob("load-sign|%s" % index, ok,
               "the group sum of %s over %s enters the load vector with sign %s (the sign of its Jacobian entry)" % (col, index, sign),
               run.where(f, cand[0][1]["stmt"]) if cand else w)
    ms = [u for u in updates if "MDOTSLACKINIT" in u[2]]
    run.ob("load-sign|mdotslack", len(ms) == 1 and ms[0][1] == "-" and ms[0][0] == "slack_mass_matrix_indices"
           and ms[0][2] == "node_pit[slack_nodes,MDOTSLACKINIT]",
           "the slack mass flow enters its row with sign - (JAC_DERIV_MSL = -1)", w)
    sets = {U(st.targets[0].slice).replace(" ", ""): (U(st.value).replace(" ", ""), st) for k, st in order if k == "set"}
    run.ob("load|nodes-start-from-minus-LOAD", sets.get(":len_n", ("",))[0] in ("node_pit[:,LOAD]*-1", "node_pit[:,LOAD]*(-1)", "-node_pit[:,LOAD]"),
           "node rows start from -LOAD", w, detail=str(sets.get(":len_n")))
    run.ob("load|slack-rows-start-from-minus-LOAD", sets.get("slack_mass_matrix_indices", ("",))[0] in
           ("node_pit[slack_nodes,LOAD]*-1", "node_pit[slack_nodes,LOAD]*(-1)", "-node_pit[slack_nodes,LOAD]"),
           "slack-mass rows start from -LOAD of the slack node", w)
    run.ob("load|branch-rows", sets.get("len_n:len_b+len_n", ("",))[0] == "branch_pit[:,LOAD_VEC_BRANCHES]",
           "branch rows are LOAD_VEC_BRANCHES", w)
    # overrides after the sums
    pos = {id(st): i for i, (k, st) in enumerate(order)}
    for target in ("slack_nodes", "pc_matrix_indices"):
        z = [st for k, st in order if k == "set" and U(st.targets[0].slice) == target and U(st.value) == "0"]
        node_sums = [u[3] for u in updates if u[0] in ("fn_unique", "tn_unique")]
        ok = len(z) == 1 and node_sums and all(pos[id(z[0])] > pos[id(s)] for s in node_sums)
        run.ob("load|override-after-sums|%s" % target, ok,
               "load_vector[%s] = 0 is executed after the nodal group sums" % target, w)
    # thermal arm
    arm = Arm(f, True)
    tsum = [st for st in arm.stmts if isinstance(st, ast.Assign) and isinstance(st.value, ast.Call) and callee_name(st.value) == "_sum_by_group"]
    ok = len(tsum) == 1 and U(tsum[0].value.args[1]) == "tn" and "LOAD_VEC_NODES_TO_T" in U(tsum[0].value.args[2])
    aug = [st for st in arm.stmts if isinstance(st, ast.AugAssign) and U(st.target.value) == "load_vector"]
    ok = ok and len(aug) == 1 and isinstance(aug[0].op, ast.Add)
    z = [st for st in arm.stmts if isinstance(st, ast.Assign) and U(st.targets[0]).replace(" ", "") == "load_vector[infeed_node]"
         and U(st.value) == "0"]
    ok = ok and len(z) == 1 and z[0].lineno > aug[0].lineno
    run.ob("thermal|load-vector", ok,
           "thermal node rows: -LOAD_T + group sum of LOAD_VEC_NODES_TO_T over the to nodes, infeed rows zeroed afterwards", w)
    run.floor(11)


def r1_3(run):
    ix = run.index
    for mod, names in ((phys.DT, ("derivatives_hydraulic_incomp_np", "derivatives_hydraulic_comp_np")),
                       (phys.DTN, ("derivatives_hydraulic_incomp_numba", "derivatives_hydraulic_comp_numba"))):
        for nm in names:
            f = ix.func(mod + "." + nm)
            run.analysed(f)
            k, _ = run_kernel(ix, None, fi=f)
            out = dict(zip(k.output_names, k.outputs))
            w = run.where(f, f.node)
            for o in ("load_vec_nodes_from", "load_vec_nodes_to"):
                check_equal(run, "%s|%s==mdot" % (nm, o), out.get(o, g(Poly.sym("missing"))), g(bcol("MDOTINIT")),
                            "the nodal term is exactly the branch mass flow (linear)", w)
            check_equal(run, "%s|df_dm_nodes==1" % nm, out.get("df_dm_nodes", g(Poly.sym("missing"))), g(Poly.const(1)),
                        "its derivative is exactly 1", w)
    # the caller stores them in the slots the assembler reads
    ki, code = phys.hydraulic_summary(ix, False)
    f = ix.func(phys.DC + ".calculate_derivatives_hydraulic")
    for colname, want in (("LOAD_VEC_NODES_FROM", bcol("MDOTINIT")), ("LOAD_VEC_NODES_TO", bcol("MDOTINIT")), ("JAC_DERIV_DM_NODE", Poly.const(1))):
        check_equal(run, "slots|%s" % colname, code.get(colname, g(Poly.sym("missing"))), g(want),
                    "slot %s holds the nodal term / its derivative" % colname, run.where(f, f.node))
    run.floor(15)


def r1_4(run):
    ix = run.index
    f = canonical_bsm(ix)
    arm = Arm(f, False)
    w = run.where(f, f.node)
    len_n, len_b = Poly.sym("len", "node_pit"), Poly.sym("len", "branch_pit")

    def offset(name):
        e = arm.arr.get(name)
        if isinstance(e, ast.BinOp) and isinstance(e.op, ast.Add):
            # np.arange(k) + off ...
            terms = []

            def flat(x):
                if isinstance(x, ast.BinOp) and isinstance(x.op, ast.Add):
                    flat(x.left)
                    flat(x.right)
                else:
                    terms.append(x)
            flat(e)
            ar = [t for t in terms if isinstance(t, ast.Call) and U(t.func) == "np.arange"]
            rest = [t for t in terms if t not in ar]
            if len(ar) == 1:
                off = Poly()
                for t in rest:
                    off = off + arm.scalar(t)
                return arm.scalar(ar[0].args[0]), off
        return None, None
    n_b, off_b = offset("branch_matrix_indices")
    n_s, off_s = offset("slack_mass_matrix_indices")
    run.ob("assembler|branch-unknowns-at-[len_n,len_n+len_b)", n_b == len_b and off_b == len_n,
           "branch unknown i has matrix index len_n + i", w, detail="%s + arange(%s)" % (off_b, n_b))
    n_sl = Poly.sym("count", arm.canon(arm.arr["slack_nodes"].value.args[0])) if isinstance(arm.arr.get("slack_nodes"), ast.Subscript) else None
    run.ob("assembler|slack-unknowns-at-[len_n+len_b,...)", off_s == len_n + len_b and n_s is not None,
           "slack-mass unknown k has matrix index len_n + len_b + k", w, detail="%s + arange(%s)" % (off_s, n_s))
    # shape of matrix and load vector
    shapes = [kw.value for c in calls(f.node, "csr_matrix") for kw in c.keywords if kw.arg == "shape"]
    ok = len(shapes) == 2
    for sh in shapes:
        dims = [arm.scalar(e) for e in sh.elts]
        ok = ok and dims[0] == dims[1] == len_n + len_b + (n_s if n_s is not None else Poly())
    run.ob("assembler|matrix-shape", ok, "the matrix is square of size len_n + len_b + number of slack nodes", w)
    lv = [st for st in arm.stmts if isinstance(st, ast.Assign) and U(st.targets[0]) == "load_vector"]
    ok = len(lv) == 1 and isinstance(lv[0].value, ast.Call) and arm.scalar(lv[0].value.args[0]) == len_n + len_b + (n_s or Poly())
    run.ob("assembler|load-vector-size", ok, "the load vector has the size of the matrix", w)
    # solver side: which slice of the solution vector updates which unknown (whole-function terms, arrnf)
    from ..arrnf import ANF, C, FULL, base_of, key as tkey, match, show as tshow, walk

    def updates(fi):
        """{(pit kind, column): (row selector, lo, hi, pit term)} of the `pit[rows, COL] -= ... x[lo:hi] ...` stores"""
        r = ANF(ix, fi).run()
        out = {}
        for s_ in r.stores():
            if not (s_.aug and len(s_.index) == 2 and s_.index[1][0] == "k"):
                continue
            sol = [x for x in walk(s_.value) if x[0] == "idx" and len(x[2]) == 1 and x[2][0][0] == "slice" and x[1][0] == "call"
                   and x[1][1][0] == "x" and x[1][1][1].endswith("spsolve")]
            if len(sol) != 1:
                continue
            pit = base_of(s_.base)
            old = ("idx", pit, s_.index)
            minus = s_.value[0] == "op" and s_.value[1] == "-" and tkey(base_of(s_.value[2][1]) if s_.value[2][0] == "idx" else None) == tkey(pit) \
                and s_.value[2][2] == s_.index
            out[s_.index[1][1]] = (s_.index[0], sol[0][2][0][1], sol[0][2][0][2], pit, minus, s_)
        return out

    s = ix.func(P + ".solve_hydraulics")
    run.analysed(s)
    ws = run.where(s, s.node)
    upd = updates(s)
    L = lambda t: ("call", ("x", "builtins.len"), (t,), ())
    npit = upd.get("idx_node.PINIT", (None,) * 4)[3]
    bpit = upd.get("idx_branch.MDOTINIT", (None,) * 4)[3]
    exp = {"idx_node.PINIT": ("node_pit[:,PINIT]", lambda: (C(None), L(npit))),
           "idx_branch.MDOTINIT": ("branch_pit[:,MDOTINIT]", lambda: (L(npit), mk_opn("+", [L(bpit), L(npit)]))),
           "idx_node.MDOTSLACKINIT": ("node_pit[slack_nodes,MDOTSLACKINIT]", lambda: (mk_opn("+", [L(bpit), L(npit)]), C(None)))}
    for col, (label, bounds) in exp.items():
        if col not in upd or npit is None or bpit is None:
            run.ob("solver|update|%s" % label, False, "the solver updates %s from the solution vector" % label, ws)
            continue
        rows, lo, hi, pit, minus, ev = upd[col]
        wlo, whi = bounds()
        run.ob("solver|update|%s" % label, tkey(lo) == tkey(wlo) and tkey(hi) == tkey(whi) and minus,
               "%s is decreased by x[%s:%s], the matrix columns of that unknown" % (label, tshow(wlo) if wlo != C(None) else "", tshow(whi) if whi != C(None) else ""),
               run.where(s, ev.node), detail="got x[%s:%s]" % (tshow(lo)[:80], tshow(hi)[:80]))
    # same slack definition on both sides (after constant propagation of the hydraulic arm)
    ok = False
    if "idx_node.MDOTSLACKINIT" in upd and npit is not None:
        rows = upd["idx_node.MDOTSLACKINIT"][0]
        want_rows = ("proj", ("call", ("x", "numpy.where"), (("cmp", "==", ("idx", npit, (FULL, ("k", "idx_node.NODE_TYPE"))), ("k", "idx_node.P")),), ()), 0)
        alt = ("proj", ("call", ("x", "numpy.where"), (("cmp", "==", ("k", "idx_node.P"), ("idx", npit, (FULL, ("k", "idx_node.NODE_TYPE")))),), ()), 0)
        ok = tkey(rows) in (tkey(want_rows), tkey(alt))
    adef = U(arm.arr.get("slack_nodes")).replace(" ", "")
    for k, v in (("ntyp_col", "NODE_TYPE"), ("slack_type", "P")):
        adef = adef.replace(k, v)
    run.ob("slack-node-definition-agrees", ok and adef == "np.where(node_pit[:,NODE_TYPE]==P)[0]",
           "assembler and solver use the same slack-node set: %s" % adef, ws)
    tup = arm.arr.get("ntyp_col"), arm.arr.get("slack_type")
    run.ob("hydraulic-type-columns", U(tup[0]) == "NODE_TYPE" and U(tup[1]) == "P",
           "in the hydraulic arm the type column/constant are NODE_TYPE / P", w)
    # thermal solver side
    st_ = ix.func(P + ".solve_temperature")
    run.analysed(st_)
    upd = updates(st_)
    npit = upd.get("idx_node.TINIT", (None,) * 4)[3]
    for col, label, bounds in (("idx_node.TINIT", "node_pit[:,TINIT]", lambda: (C(None), L(npit))),
                               ("idx_branch.TOUTINIT", "branch_pit[:,TOUTINIT]", lambda: (L(npit), C(None)))):
        ok = col in upd and npit is not None
        if ok:
            rows, lo, hi, pit, minus, ev = upd[col]
            wlo, whi = bounds()
            ok = tkey(lo) == tkey(wlo) and tkey(hi) == tkey(whi) and minus and rows == FULL
        run.ob("thermal-solver|update|%s" % label, ok, "%s is updated from its range of the thermal solution vector" % label,
               run.where(st_, st_.node))
    run.floor(11)


def r1_5(run):
    ix = run.index
    from .c03 import r3_4
    r3_4(run)
    # reported branch mass flows are +-MDOTINIT (covered per key under C02 R2.4; repeated here for the two mass-flow keys)
    gb = ix.func("pandapipes.pf.result_extraction.get_basic_branch_results")
    ki = KInterp(ix, {"fluid.is_gas": False, "transient": False}, phys.handlers())
    d = ki.run(gb).outputs[0].v
    w = run.where(gb, gb.node)
    check_equal(run, "report|mf_from", d.get("mf_from", g(Poly.sym("missing"))), g(bcol("MDOTINIT")), "mf_from = MDOTINIT", w)
    check_equal(run, "report|mf_to", d.get("mf_to", g(Poly.sym("missing"))), g(-bcol("MDOTINIT")), "mf_to = -MDOTINIT", w)
    # ext grid: reported = sign * slack mass of the node / number of p-grids at the node
    eg = component(ix, "ExtGrid")
    f = ix.lookup_method(eg, "extract_results")
    run.analysed(f)
    ki, k = hook_summary(ix, eg, "extract_results", {"fluid.is_gas": False}, {"mode": PyVal("hydraulics"), "options": PyVal({})})
    wr = [x for x in ki.res_writes if x["column"] == "mdot_kg_per_s"]
    w = run.where(f, f.node)
    run.ob("ext_grid|report|single-write", len(wr) == 1, "one store into res_ext_grid.mdot_kg_per_s", w)
    if len(wr) == 1:
        from ..algebra import apply_fn, poly_from_key
        from ..phys import ncol
        v = phys.tonum(wr[0]["value"]).plain()
        sel = wr[0]["selector"]
        run.ob("ext_grid|report|selector", "in_service" in str(sel) and "isin" in str(sel),
               "written for in-service pressure grids only", run.where(wr[0]["fi"], wr[0]["node"]), detail=str(sel)[:200])
        # the node index array X of the written rows: argument of the inverse permutation of np.unique
        xs = set()

        def find(k):
            if isinstance(k, tuple):
                if len(k) >= 3 and k[0] == "app" and isinstance(k[1], str) and k[1].startswith("unique"):
                    xs.add(k[2])
                for i in k:
                    find(i)
        if v is not None:
            find(v.key())
        ok = v is not None and len(xs) == 1
        if not ok:
            raise AnalysisError("ExtGrid.extract_results: the reported mass flow is not expressed through np.unique of one "
                                "index array (%s)" % str(wr[0]["value"])[:200])
        X = poly_from_key(list(xs)[0])
        run.ob("ext_grid|report|nodes-of-own-junctions",
               X == Poly.sym("pos", "node_index", "junction", Poly.sym("tbl", "ext_grid", "junction").key()),
               "the index array is the node index of the ext grids' junctions", w, detail=str(X)[:200])
        u0, u1, u2 = (apply_fn("unique%d" % i, [X]) for i in range(3))
        slack = ncol("MDOTSLACKINIT", u0)
        want = apply_fn("gather", [slack / u2, u1])
        sgn = ix.method_const(eg, "sign")
        want = want * Poly.const(sgn if isinstance(sgn, (int, float)) else 1)
        check_equal(run, "ext_grid|report|slack-divided-by-multiplicity", g(v), g(want),
                    "reported mass flow = sign * slack mass flow of the node / number of reporting ext grids at that node "
                    "(np.unique counts of the same index array), so that the reports of one node add up to its slack mass flow",
                    run.where(wr[0]["fi"], wr[0]["node"]))
    run.floor(20)


def r1_6(run):
    """K1: every constant column subscript uses a constant of the namespace of the array it indexes"""
    ix = run.index
    NODE, BRANCH = "pandapipes.idx_node", "pandapipes.idx_branch"
    node_consts = {k for k in ix.module(NODE).assigns}
    branch_consts = {k for k in ix.module(BRANCH).assigns}
    n_res, n_top, n_bad = 0, 0, 0
    for fi in ix.all_functions():
        mi = ix.module(fi.module)
        ns = _namespaces(ix, fi)
        for n in ast.walk(fi.node):
            if not isinstance(n, ast.Subscript):
                continue
            base, colnode = None, None
            if isinstance(n.slice, ast.Tuple) and len(n.slice.elts) == 2 and isinstance(n.slice.elts[1], ast.Name):
                base, colnode = n.value, n.slice.elts[1]
            elif isinstance(n.slice, ast.Name) and isinstance(n.value, ast.Subscript) and not isinstance(n.value.slice, ast.Tuple):
                base, colnode = n.value.value, n.slice
            if colnode is None:
                continue
            imp = ix.func_imports(fi).get(colnode.id) or mi.imports.get(colnode.id)
            if not (imp and imp[0] == "attr" and imp[1] in (NODE, BRANCH)):
                continue
            if imp[2] in ("node_cols", "branch_cols"):
                continue
            kind = _ns_of(base, ns)
            if kind is None:
                n_top += 1
                continue
            n_res += 1
            want = NODE if kind == "node" else BRANCH
            ok = imp[1] == want
            if not ok:
                # same integer under the like-named constant of the right namespace is harmless
                other = ix.try_const(want, imp[2])
                ok = other is not None and other == ix.try_const(imp[1], imp[2])
            if not ok:
                n_bad += 1
            if not ok or n_res <= 400:
                run.ob("%s|%s[%s]" % (fi.short, U(base)[:40], colnode.id), ok,
                       "column constant %s (from %s) indexes a %s pit array" % (colnode.id, imp[1].rsplit(".", 1)[1], kind),
                       run.where(fi, n))
    run.stat("pit_subscripts_resolved", n_res)
    run.stat("pit_subscripts_unresolved", n_top)
    run.floor(250)


def _namespaces(ix, fi):
    """local name -> 'node' | 'branch' by def-use inside the function (parameters by name, pit dict reads, slices)"""
    ns = {}
    for p in fi.params():
        if "node" in p and "pit" in p:
            ns[p] = "node"
        elif "branch" in p and "pit" in p:
            ns[p] = "branch"
    changed = True
    rounds = 0
    while changed and rounds < 5:
        changed = False
        rounds += 1
        for n in ast.walk(fi.node):
            if isinstance(n, ast.Assign) and len(n.targets) == 1:
                t, v = n.targets[0], n.value
                if isinstance(t, ast.Name) and t.id not in ns:
                    k = _ns_of(v, ns, strict=True)
                    if k:
                        ns[t.id] = k
                        changed = True
                elif isinstance(t, ast.Tuple) and isinstance(v, ast.Call) and callee_name(v) == "create_pit_branch_entries":
                    # (branch_component_pit, node_pit) = super().create_pit_branch_entries(...)
                    for i, e in enumerate(t.elts):
                        if isinstance(e, ast.Name) and e.id not in ns:
                            ns[e.id] = "branch" if i == 0 else "node"
                            changed = True
    return ns


def _ns_of(e, ns, strict=False):
    if isinstance(e, ast.Name):
        return ns.get(e.id)
    if isinstance(e, ast.Subscript):
        s = e.slice
        if isinstance(s, ast.Constant) and s.value in ("node", "branch") and "pit" in U(e.value):
            return s.value
        # row slices / masks of a pit keep the namespace; a column selection does not
        if isinstance(s, ast.Tuple) and len(s.elts) == 2:
            if isinstance(s.elts[1], ast.Slice):
                return _ns_of(e.value, ns, strict)
            return None
        if isinstance(s, ast.Slice) or not strict:
            return _ns_of(e.value, ns, strict)
        return None
    if isinstance(e, ast.Call) and callee_name(e) == "create_pit_branch_entries" and isinstance(e.func, ast.Attribute):
        return "branch" if strict else None
    return None


def r1_7(run):
    """the nodal balance is assembled over the reduced pit: a branch that stays active while one of its end nodes is dropped is
    renumbered onto another node by reduce_pit and draws an unreported flow there.  The connectivity search therefore keeps a
    branch only if its from node was reached (and by the edges of the search its to node too), and both ends are remapped by the
    same renumbering (shared with C04 R4.7 / R4.3)"""
    from .c04 import r4_3, r4_7
    r4_7(run)
    r4_3(run)


RULES = [("R1.1", r1_1), ("R1.2", r1_2), ("R1.3", r1_3), ("R1.4", r1_4), ("R1.5", r1_5), ("R1.6", r1_6), ("R1.7", r1_7)]
