"""C01 -- mass is conserved at every supplied junction and over the whole network (structural part).

 R1.1 triplet segment agreement of the sparse-matrix assembler (tiling, lengths, selectors) -- hydraulic and thermal arm
 R1.2 sign coherence between Jacobian entries and load vector, statement order of the row overrides
 R1.3 linearity of the nodal terms in all four hydraulic kernels; slack-mass derivative
 R1.4 unknown-vector layout: assembler column ranges = slices of the solution subtracted by the solver
 R1.5 LOAD column discipline and reported mass flows
 R1.6 pit-column typing (namespace of every constant column subscript)
"""
import ast

from .. import phys
from ..algebra import GExpr, Poly
from ..astutil import U, assignments, calls, callee_name, own_walk
from ..kernelir import KInterp, PyVal
from ..phys import bcol, check_equal, component, g, hook_summary, run_kernel
from ..source import AnalysisError
from ..arrnf import mk_opn

BSM = "pandapipes.pf.build_system_matrix"
P = "pandapipes.pipeflow"

EXPLANATION = (
    "The nodal mass balance is linear in the unknowns, so it holds to linear-solve round-off at the accepted iterate "
    "exactly when the assembler is coherent; that coherence is decided from the source: (R1.1) build_system_matrix is "
    "specialised for heat_mode False/True by constant propagation, every `system_data/cols/rows[a:b] = rhs` store is "
    "reduced to an affine interval over base length symbols; data, column and row segments each tile [0, full_len) "
    "without gap or overlap, have the length of their right-hand side, use the same row selector in all three arrays, "
    "and pair each Jacobian slot with the row vector of its equation and the column vector of its unknown; (R1.2) the "
    "sign with which a branch's mass flow enters the load vector of its from/to node and of the slack-mass row equals "
    "the sign of the Jacobian entry, and slack / pressure-controlled rows are overridden after the group sums; (R1.3) "
    "in all four hydraulic kernels the nodal terms are exactly MDOTINIT with derivative 1, and pressure-fixing "
    "components set the slack-mass derivative to -1 on the rows they fix; (R1.4) the column ranges used by the "
    "assembler equal the slices of the solution vector the solver subtracts from PINIT, MDOTINIT, MDOTSLACKINIT and "
    "both use the same slack-node definition; (R1.5) the only accumulating writer of LOAD is ConstFlow, reported "
    "mf_from/mf_to are +-MDOTINIT of one column, the ext-grid report divides the slack mass flow by the number of "
    "grids at the node; (R1.6) every constant column subscript uses a constant of the pit namespace it indexes. "
    "(R1.7, shared with C04 R4.7/R4.3) the connectivity search keeps a branch only if its from node was reached and reduce_pit remaps both ends of the kept branches through the same renumbering, so no active branch is attached to a dropped node. Not decided: the size of the round-off, anything about the nonlinear branch rows.")
ASSUMPTIONS = ["each pressure-controlled node is controlled by exactly one PC branch (count of PC nodes = count of PC branches)",
               "the number of infeed nodes equals the number of fixed-temperature nodes when the thermal matrix is built "
               "(guarded by check_infeed_number in solve_temperature)",
               "scipy.sparse csr_matrix sums duplicate triplets"]
TECHNIQUE = "affine slice-bound analysis with constant-propagated specialisation, role tables for Jacobian slots, kernel value numbering, namespace typing of pit subscripts"
EXPLANATION += (' ' + '(R1.9) numpy hands out a copy for `pit[rows]` with an index array or a mask: every subscript store whose target is such a copy of a pit (in pipeflow.py, pf/ and component_models/, all functions in normal form) must be read afterwards (stored back, passed on or returned) -- a correction written into the copy only is lost and the balance columns keep their old entries.')
EXPLANATION += (' ' + '(R1.10) _sum_by_group_sorted adds up adjacent equal keys; every call site hands it keys that are sorted by construction (K[argsort(K)], K[lexsort([.., K])] with K the primary key, np.sort / np.unique output) -- with unsorted keys a junction comes back once per run and the `pit[rows, LOAD] += sums` that follows keeps only the last run.')
EXPLANATION += (' ' + '(R1.11, shared with C05 R5.8) init_results_element rebinds every result table to a fresh all-NaN frame on every path, so an element that takes no part in the current run cannot report the mass flow of an earlier one.')

def _K(ns, n):
    return ("k", "%s.%s" % (ns, n))


def _model(run, heat):
    """term model of the assembler for one system (cached per run)"""
    from ..bsm import Model
    cache = run.__dict__.setdefault("_bsm", {})
    if heat not in cache:
        cache[heat] = Model(run.index, heat)
    return cache[heat]


def _outer_axes(c):
    """(axis-0 array, axis-1 array) of an outer comparison a == b[:, None]"""
    from ..arrnf import FULL, C
    def is_col(t):
        return t[0] == "idx" and len(t[2]) == 2 and t[2][0] == FULL and t[2][1] == C(None)
    a, b = c[2], c[3]
    if is_col(a):
        return a[1], b
    if is_col(b):
        return b[1], a
    return None, None


# meaning of the Jacobian slots: (unknown the derivative is taken for)
VAR_OF = {"JAC_DERIV_DM": "m", "JAC_DERIV_DP": "p_from", "JAC_DERIV_DP1": "p_to", "JAC_DERIV_DM_NODE": "m",
          "JAC_DERIV_MSL": "mslack", "JAC_DERIV_DT": "T_from", "JAC_DERIV_DTOUT": "T_out",
          "JAC_DERIV_DT_NODE": "T_tonode", "JAC_DERIV_DTOUT_NODE": "T_out", "JAC_DERIV_DT_N": "T_node"}
ROLE_OF_VAR = {"m": "BIDX", "p_from": "FN", "p_to": "TN", "mslack": "SIDX", "T_from": "FN", "T_out": "BIDX", "T_tonode": "TN"}
ROLE_TEXT = {"BIDX": "matrix index of the branch unknown (arange(len_b) + len_n)", "FN": "from node", "TN": "to node",
             "SIDX": "matrix index of the slack-mass unknown", "NIDX": "node number"}


def r1_1(run):
    from ..bsm import tiling, strip_int_casts, uncast
    from ..arrnf import FULL, key as tkey, show as tshow
    ix = run.index
    for heat in (False, True):
        m = _model(run, heat)
        f = m.f
        run.analysed(f)
        tag = "heat" if heat else "hyd"
        w = run.where(f, f.node)
        data, cols, rows, full = m.data, m.cols, m.rows, m.full
        run.stat("segments_%s" % tag, len(data) + len(cols) + len(rows))
        for name, segs in (("data", data), ("cols", cols), ("rows", rows)):
            ok, msg = tiling(segs, full)
            run.ob("%s|%s|tiles-[0,full_len)" % (tag, name), ok and len(segs) >= (6 if heat else 9),
                   "the %d system_%s segments tile [0, full_len) without gap or overlap" % (len(segs), name), w, detail=msg)
        # the masks with a documented component invariant: #PC nodes == #PC branches, #infeed nodes == #fixed-T nodes
        npit, bpit = ("n", "node_pit"), ("n", "branch_pit")
        def eqmask(pit, ns, col, typ):
            a, b = sorted([("idx", pit, (FULL, _K(ns, col))), _K(ns if ns == "idx_node" or typ != "PC" else ns, typ)], key=tkey)
            return ("cmp", "==", a, b)
        if not heat:
            inv = (m.count(eqmask(npit, "idx_node", "NODE_TYPE", "PC")), m.count(eqmask(bpit, "idx_branch", "BRANCH_TYPE", "PC")))
        else:
            infeed = ("call", ("attr", ("idx", npit, (FULL, _K("idx_node", "INFEED"))), "astype"), (("x", "builtins.bool"),), ())
            inv = (m.count(infeed), m.count(m.slack_cond()))
        counts = {}
        def seg_key(kind, s_):
            lab = s_.label()
            counts[(kind, lab)] = counts.get((kind, lab), 0) + 1
            return "%s#%d" % (lab, counts[(kind, lab)])
        # lengths
        for name, segs in (("data", data), ("cols", cols), ("rows", rows)):
            for s_ in segs:
                k_ = seg_key(name, s_)
                if s_.desc.const is not None:
                    continue
                ln = s_.hi - s_.lo
                ok = ln == s_.value_len
                note = ""
                if not ok and {str(ln), str(s_.value_len)} == {str(inv[0]), str(inv[1])}:
                    ok, note = True, " (equal by the documented component invariant)"
                    run.stat("segment_lengths_by_invariant")
                run.ob("%s|%s|length|%s" % (tag, name, k_), ok,
                       "segment length %s equals the length of its right-hand side %s%s" % (ln, s_.value_len, note), w)
        # pairing of data / cols / rows over the same interval
        counts.clear()
        slack_name = m.mask_name(m.slack_cond())
        for d in data:
            cs = [c for c in cols if _within(c, d)]
            rs = [r for r in rows if _within(r, d)]
            kk = "%s|pair|%s" % (tag, seg_key("pair", d))
            okc, msgc = _covers(cs, d)
            okr, msgr = _covers(rs, d)
            if not (okc and okr):
                run.ob(kk + "|covered", False, "column and row segments cover the data segment exactly", w, detail=msgc if not okc else msgr)
                continue
            dd = d.desc
            if (len(cs) > 1 or len(rs) > 1) and dd.const is None:
                run.ob(kk + "|split-only-constant", False, "only constant-valued data segments are split", w)
                continue
            for c, r in zip(cs, rs):
                cd, rd = c.desc, r.desc
                if dd.const is None:
                    col = (dd.column or "").split(".")[-1]
                    # --- the three arrays select the same entries
                    if col == "JAC_DERIV_MSL":
                        same = dd.sel == ("pos", slack_name) and cd.sel is None and rd.sel is None and cd.role == rd.role == "SIDX"
                    elif dd.sel is not None and dd.sel[0] == "where":
                        same = cd.sel is not None and rd.sel is not None and cd.sel[0] == rd.sel[0] == "where" and \
                            dd.sel[1] == cd.sel[1] == rd.sel[1]
                    elif col == "JAC_DERIV_DT_N":
                        same = dd.sel is not None and dd.sel[0] == "mask" and cd.sel is None and rd.sel is None \
                            and cd.role == rd.role == ("pos", dd.sel[1])
                    else:
                        same = dd.sel == cd.sel == rd.sel
                    run.ob(kk + "|same-selector", same,
                           "data, column and row entries are selected by the same mask / index group: %s"
                           % [x and x[:2] for x in (dd.sel, cd.sel, rd.sel)], w)
                    var = VAR_OF.get(col)
                    if var == "T_node":
                        okcol, want_txt = (dd.sel is not None and cd.role == ("pos", dd.sel[1])), "node number of the selected nodes"
                    else:
                        want = ROLE_OF_VAR.get(var)
                        okcol, want_txt = (want is not None and cd.role == want), ROLE_TEXT.get(want, "?")
                    run.ob(kk + "|column-of-unknown", okcol,
                           "entries of %s (derivative wrt. %s) sit in the matrix column of that unknown (%s)" % (col, var, want_txt), w,
                           detail="cols from %s" % (cd.role,))
                    # --- equation (row) role and sign
                    if col == "JAC_DERIV_DM_NODE":
                        side, uses = None, False
                        if rd.role in ("FN", "TN"):
                            side = "from" if rd.role == "FN" else "to"
                            endcol = _K("idx_branch", "FROM_NODE" if side == "from" else "TO_NODE")
                            a_, b_ = sorted([("idx", npit, (("idx", bpit, (FULL, endcol)), _K("idx_node", "NODE_TYPE"))), _K("idx_node", "P")], key=tkey)
                            want_mask = ("cmp", "!=", a_, b_)
                            uses = dd.sel is not None and dd.sel[0] == "mask" and tkey(m.mask_term(dd.sel[1])) == tkey(want_mask)
                        elif rd.role == "SIDX" and dd.sel is not None and dd.sel[0] == "where":
                            W = m.mask_term(dd.sel[1])
                            ax0, ax1 = _outer_axes(W[2][0])
                            pos_ok = False
                            if ax0 is not None:
                                for sd, cn in (("from", "FROM_NODE"), ("to", "TO_NODE")):
                                    if tkey(ax1) == tkey(("idx", bpit, (FULL, _K("idx_branch", cn)))):
                                        side = sd
                                uses = side is not None
                                slack_axis0 = m.role(ax0) == ("pos", slack_name)
                                pos_ok = slack_axis0 and dd.sel[2] == 1 and cd.sel[2] == 1 and rd.sel[2] == 0
                            run.ob(kk + "|where-axes", pos_ok,
                                   "rows use the slack-axis output and data/cols the branch-axis output of the same np.where", w)
                        run.ob(kk + "|node-equation-side", side is not None and uses,
                               "node-equation rows (%s) belong to the %s node the selector is defined on" % (rd.role, side), w)
                        run.ob(kk + "|sign", side is not None and dd.sign == (-1 if side == "from" else 1),
                               "mass flow leaves the from node (-) and enters the to node (+): sign %+d on the %s side" % (dd.sign, side), w)
                    elif col in ("JAC_DERIV_DT_NODE", "JAC_DERIV_DTOUT_NODE"):
                        run.ob(kk + "|row-of-equation", rd.role == "TN" and dd.sign == 1,
                               "thermal node terms sit in the row of the (flow-corrected) to node", w)
                    elif col == "JAC_DERIV_DT_N":
                        run.ob(kk + "|row-of-equation", dd.sel is not None and rd.role == ("pos", dd.sel[1]) and dd.sign == 1,
                               "the node's own derivative sits on the diagonal of its row", w)
                    elif col == "JAC_DERIV_MSL":
                        run.ob(kk + "|row-of-equation", rd.role == "SIDX" and dd.sign == 1,
                               "the slack-mass derivative sits on the diagonal of the slack-mass row", w)
                    else:
                        run.ob(kk + "|row-of-equation", rd.role == "BIDX" and rd.sel is None and dd.sign == 1,
                               "branch derivatives sit in the row of the branch equation", w)
                else:
                    # fixed-value identity rows
                    ok = dd.const == 1
                    if not heat:
                        pcn = ("pos", m.mask_name(eqmask(npit, "idx_node", "NODE_TYPE", "PC")))
                        pcb = ("mask", m.mask_name(eqmask(bpit, "idx_branch", "BRANCH_TYPE", "PC")))
                        sl = ("pos", slack_name)
                        ok = ok and ((cd.role == pcn and rd.role == "BIDX" and rd.sel == pcb) or (cd.role == sl and rd.role == sl and cd.sel is None and rd.sel is None))
                        txt = "fixed-pressure rows: 1 on (slack, slack) and on (PC branch row, PC node column)"
                    else:
                        ok = ok and cd.role == ("pos", slack_name) and rd.role == ("pos", m.mask_name(infeed))
                        txt = "fixed-temperature rows: 1 at (infeed node row, fixed-temperature node column)"
                    run.ob(kk + "|identity|%s" % ("pc" if (not heat and isinstance(rd.role, str)) else "fixed"), ok, txt, w,
                           detail="rows %s[%s], cols %s" % (rd.role, rd.sel and rd.sel[:2], cd.role))
    run.floor(90)


def _within(s, d):
    return _le(d.lo, s.lo) and _le(s.hi, d.hi)


def _le(a, b):
    """a <= b for affine length forms with non-negative symbols: all coefficients of b - a are >= 0"""
    diff = b - a
    return all(c >= 0 for c in diff.terms.values())


def _covers(parts, d):
    if not parts:
        return False, "no partner segment"
    cur = d.lo
    for p in parts:
        if p.lo != cur:
            return False, "gap at %s" % cur
        cur = p.hi
    return cur == d.hi, "partner segments end at %s instead of %s" % (cur, d.hi)


def _neg(t):
    """x when t is -x / x * -1"""
    if t[0] == "u" and t[1] == "-":
        return t[2]
    if t[0] == "opn" and t[1] == "*":
        cs = [x for x in t[2] if x[0] == "c" and x[1] in (-1, -1.0)]
        rest = [x for x in t[2] if x not in cs]
        if len(cs) == 1 and len(rest) == 1:
            return rest[0]
    return None


def r1_2(run):
    """signs and order of the load-vector entries, on the term model (names and temporaries do not matter)"""
    from ..bsm import strip_int_casts
    from ..arrnf import FULL, C, key as tkey, show as tshow
    m = _model(run, False)
    f = m.f
    w = run.where(f, f.node)
    npit, bpit = ("n", "node_pit"), ("n", "branch_pit")
    ent = m.load_entries()
    slack_name = m.mask_name(m.slack_cond())
    bcolm = lambda rows, c: ("idx", bpit, (rows, _K("idx_branch", c)))
    ncolm = lambda rows, c: ("idx", npit, (rows, _K("idx_node", c)))

    def rows_role(t):
        return m.describe(t)

    def find_group(index_role, col, where_side=None):
        """the augmented store that adds the group sum of column `col` over the index vector with the given role"""
        out = []
        for e in ent:
            if e["op"] not in ("-", "+"):
                continue
            g_ = m.group_sum(e["value"])
            if g_ is None or g_[1] != 1:
                continue
            call = g_[0]
            idxv, vals = strip_int_casts(call[2][1]), strip_int_casts(call[2][2])
            if where_side is None:
                if m.role(idxv) != index_role or tkey(vals) != tkey(bcolm(FULL, col)):
                    continue
                # scattered at the group keys of the same call
                rk = m.group_sum(e["rows"])
                if rk is None or rk[1] != 0 or tkey(strip_int_casts(rk[0])) != tkey(strip_int_casts(call)):
                    continue
            else:
                # slack rows: groups over the slack-axis output of the np.where that pairs slack nodes with branch ends,
                # values of the branches of the other output, scattered through the slack-mass matrix indices
                from ..bsm import where_of, is_outer_compare
                wi = where_of(idxv)
                if wi is None or wi[1] != 0 or not is_outer_compare(wi[0][2][0]):
                    continue
                ax0, ax1 = _outer_axes(wi[0][2][0])
                if ax0 is None or m.role(ax0) != ("pos", slack_name) or tkey(ax1) != tkey(bcolm(FULL, where_side)):
                    continue
                if tkey(vals) != tkey(bcolm(("proj", wi[0], 1), col)):
                    continue
                r_ = e["rows"]
                if not (r_[0] == "idx" and len(r_[2]) == 1 and m.role(r_[1]) == "SIDX"):
                    continue
                rk = m.group_sum(r_[2][0])
                if rk is None or rk[1] != 0 or tkey(strip_int_casts(rk[0])) != tkey(strip_int_casts(call)):
                    continue
            out.append(e)
        return out

    node_sums = []
    for label, role, col, sign, side in (("fn", "FN", "LOAD_VEC_NODES_FROM", "-", None), ("tn", "TN", "LOAD_VEC_NODES_TO", "+", None),
                                         ("slack_masses_from", None, "LOAD_VEC_NODES_FROM", "-", "FROM_NODE"),
                                         ("slack_masses_to", None, "LOAD_VEC_NODES_TO", "+", "TO_NODE")):
        cand = find_group(role, col, side)
        ok = len(cand) == 1 and cand[0]["op"] == sign
        if side is None:
            node_sums.extend(cand)
        run.ob("load-sign|%s" % label, ok,
               "the group sum of %s over %s enters the load vector with sign %s (the sign of its Jacobian entry)" % (col, label, sign),
               run.where(f, cand[0]["node"]) if cand else w, detail="%d candidate stores" % len(cand))
    sidx = [e for e in ent if m.role(e["rows"]) == "SIDX"]
    ms = [e for e in sidx if e["op"] is not None and tkey(e["value"]) == tkey(ncolm(("proj", ("call", ("x", "numpy.where"), (m.slack_cond(),), ()), 0), "MDOTSLACKINIT"))]
    run.ob("load-sign|mdotslack", len(ms) == 1 and ms[0]["op"] == "-",
           "the slack mass flow enters its row with sign - (JAC_DERIV_MSL = -1)", w)
    sets = [e for e in ent if e["op"] is None]
    def is_slice(t, lo, hi):
        if t[0] != "slice" or t[3] != C(None):
            return False
        try:
            a = m.aff(t[1]) if t[1] != C(None) else None
            b = m.aff(t[2]) if t[2] != C(None) else None
        except Exception:
            return False
        return (a is None and lo is None or (a is not None and lo is not None and a == lo) or (a is not None and lo is None and a.is_zero())) and \
            (b is None and hi is None or (b is not None and hi is not None and b == hi) or (b is None and hi is not None and hi == m.load_size))
    start = [e for e in sets if is_slice(e["rows"], None, m.len_n)]
    ok = len(start) == 1 and _neg(start[0]["value"]) is not None and tkey(_neg(start[0]["value"])) == tkey(ncolm(FULL, "LOAD"))
    run.ob("load|nodes-start-from-minus-LOAD", ok, "node rows start from -LOAD", w, detail=tshow(start[0]["value"])[:100] if start else None)
    slack_pos = ("proj", ("call", ("x", "numpy.where"), (m.slack_cond(),), ()), 0)
    s0 = [e for e in sidx if e["op"] is None]
    ok = len(s0) == 1 and _neg(s0[0]["value"]) is not None and tkey(_neg(s0[0]["value"])) == tkey(ncolm(slack_pos, "LOAD"))
    run.ob("load|slack-rows-start-from-minus-LOAD", ok, "slack-mass rows start from -LOAD of the slack node", w)
    if ok:
        later = [e for e in sidx if e["op"] is not None] + find_group(None, "LOAD_VEC_NODES_FROM", "FROM_NODE") + find_group(None, "LOAD_VEC_NODES_TO", "TO_NODE")
        run.ob("load|slack-rows-start-before-sums", all(e["seq"] > s0[0]["seq"] for e in later),
               "the slack-mass rows are initialised before the slack group sums are added", w)
    br = [e for e in sets if is_slice(e["rows"], m.len_n, m.len_n + m.len_b)]
    run.ob("load|branch-rows", len(br) == 1 and tkey(br[0]["value"]) == tkey(bcolm(FULL, "LOAD_VEC_BRANCHES")),
           "branch rows are LOAD_VEC_BRANCHES", w)
    # overrides after the sums
    a_, b_ = sorted([("idx", bpit, (FULL, _K("idx_branch", "BRANCH_TYPE"))), _K("idx_branch", "PC")], key=tkey)
    pcb = ("mask", m.mask_name(("cmp", "==", a_, b_)))
    for target, test in (("slack_nodes", lambda d: d.role == ("pos", slack_name) and d.sel is None),
                         ("pc_matrix_indices", lambda d: d.role == "BIDX" and d.sel == pcb)):
        z = []
        for e in sets:
            if e["value"] == C(0):
                try:
                    d = m.describe(e["rows"])
                except Exception:
                    continue
                if test(d):
                    z.append(e)
        ok = len(z) == 1 and len(node_sums) == 2 and all(z[0]["seq"] > s_["seq"] for s_ in node_sums)
        run.ob("load|override-after-sums|%s" % target, ok, "load_vector[%s] = 0 is executed after the nodal group sums" % target, w)
    # thermal arm
    mt = _model(run, True)
    ent = mt.load_entries()
    aug = [e for e in ent if e["op"] is not None]
    ok = len(aug) == 1 and aug[0]["op"] == "+"
    if ok:
        g_ = mt.group_sum(aug[0]["value"])
        ok = g_ is not None and g_[1] == 1 and mt.role(strip_int_casts(g_[0][2][1])) == "TN" \
            and tkey(strip_int_casts(g_[0][2][2])) == tkey(bcolm(FULL, "LOAD_VEC_NODES_TO_T"))
        rk = mt.group_sum(aug[0]["rows"])
        ok = ok and rk is not None and rk[1] == 0 and tkey(strip_int_casts(rk[0])) == tkey(strip_int_casts(g_[0]))
    infeed = ("call", ("attr", ("idx", npit, (FULL, _K("idx_node", "INFEED"))), "astype"), (("x", "builtins.bool"),), ())
    z = []
    for e in ent:
        if e["op"] is None and e["value"] == C(0):
            try:
                d = mt.describe(e["rows"])
            except Exception:
                continue
            if d.role == ("pos", mt.mask_name(infeed)):
                z.append(e)
    ok = ok and len(z) == 1 and z[0]["seq"] > aug[0]["seq"]
    start = [e for e in ent if e["op"] is None and e["rows"][0] == "slice" and e["rows"][1] == C(None) and _neg(e["value"]) is not None
             and tkey(_neg(e["value"])) == tkey(ncolm(FULL, "LOAD_T"))]
    ok = ok and len(start) == 1
    run.ob("thermal|load-vector", ok,
           "thermal node rows: -LOAD_T + group sum of LOAD_VEC_NODES_TO_T over the to nodes, infeed rows zeroed afterwards", run.where(mt.f, mt.f.node))
    run.floor(11)


def r1_3(run):
    ix = run.index
    for mod, names in ((phys.DT, ("derivatives_hydraulic_incomp_np", "derivatives_hydraulic_comp_np")),
                       (phys.DTN, ("derivatives_hydraulic_incomp_numba", "derivatives_hydraulic_comp_numba"))):
        for nm in names:
            f = ix.func(mod + "." + nm)
            run.analysed(f)
            k, _ = run_kernel(ix, None, fi=f)
            out = dict(zip(k.output_names, k.outputs))
            w = run.where(f, f.node)
            for o in ("load_vec_nodes_from", "load_vec_nodes_to"):
                check_equal(run, "%s|%s==mdot" % (nm, o), out.get(o, g(Poly.sym("missing"))), g(bcol("MDOTINIT")),
                            "the nodal term is exactly the branch mass flow (linear)", w)
            check_equal(run, "%s|df_dm_nodes==1" % nm, out.get("df_dm_nodes", g(Poly.sym("missing"))), g(Poly.const(1)),
                        "its derivative is exactly 1", w)
    # the caller stores them in the slots the assembler reads
    ki, code = phys.hydraulic_summary(ix, False)
    f = ix.func(phys.DC + ".calculate_derivatives_hydraulic")
    for colname, want in (("LOAD_VEC_NODES_FROM", bcol("MDOTINIT")), ("LOAD_VEC_NODES_TO", bcol("MDOTINIT")), ("JAC_DERIV_DM_NODE", Poly.const(1))):
        check_equal(run, "slots|%s" % colname, code.get(colname, g(Poly.sym("missing"))), g(want),
                    "slot %s holds the nodal term / its derivative" % colname, run.where(f, f.node))
    run.floor(15)


def r1_4(run):
    ix = run.index
    m = _model(run, False)
    f = m.f
    w = run.where(f, f.node)
    len_n, len_b = m.len_n, m.len_b
    roles = {(d_.desc.role if isinstance(d_.desc.role, str) else d_.desc.role[0]) for d_ in m.cols + m.rows if d_.desc.role is not None}
    run.ob("assembler|branch-unknowns-at-[len_n,len_n+len_b)", "BIDX" in roles,
           "branch unknown i has matrix index len_n + i (an index vector np.arange(len_b) + len_n is used for the branch columns)", w,
           detail=str(sorted(roles)))
    n_s = m.count(m.slack_cond())
    run.ob("assembler|slack-unknowns-at-[len_n+len_b,...)", "SIDX" in roles,
           "slack-mass unknown k has matrix index len_n + len_b + k, k running over the slack nodes", w, detail=str(sorted(roles)))
    # shape of matrix and load vector
    shapes = [dict(c.kw).get("shape") for c in m.r.calls() if c.fn[0] == "x" and c.fn[1].endswith("csr_matrix")]
    ok = len(shapes) == 2
    for sh in shapes:
        try:
            dims = [m.aff(e) for e in sh[1]] if sh is not None and sh[0] == "tuple" else []
        except AnalysisError:
            dims = []
        ok = ok and len(dims) == 2 and dims[0] == dims[1] == len_n + len_b + n_s
    run.ob("assembler|matrix-shape", ok, "the matrix is square of size len_n + len_b + number of slack nodes", w)
    m.load_entries()
    run.ob("assembler|load-vector-size", m.load_size == len_n + len_b + n_s, "the load vector has the size of the matrix", w,
           detail=str(m.load_size))
    # solver side: which slice of the solution vector updates which unknown (whole-function terms, arrnf)
    from ..arrnf import ANF, C, FULL, base_of, key as tkey, match, show as tshow, walk

    def updates(fi):
        """{(pit kind, column): (row selector, lo, hi, pit term)} of the `pit[rows, COL] -= ... x[lo:hi] ...` stores"""
        r = ANF(ix, fi).run()
        out = {}
        for s_ in r.stores():
            if not (s_.aug and len(s_.index) == 2 and s_.index[1][0] == "k"):
                continue
            sol = [x for x in walk(s_.value) if x[0] == "idx" and len(x[2]) == 1 and x[2][0][0] == "slice" and x[1][0] == "call"
                   and x[1][1][0] == "x" and x[1][1][1].endswith("spsolve")]
            if len(sol) != 1:
                continue
            pit = base_of(s_.base)
            old = ("idx", pit, s_.index)
            minus = s_.value[0] == "op" and s_.value[1] == "-" and tkey(base_of(s_.value[2][1]) if s_.value[2][0] == "idx" else None) == tkey(pit) \
                and s_.value[2][2] == s_.index
            out[s_.index[1][1]] = (s_.index[0], sol[0][2][0][1], sol[0][2][0][2], pit, minus, s_)
        return out

    s = ix.func(P + ".solve_hydraulics")
    run.analysed(s)
    ws = run.where(s, s.node)
    upd = updates(s)
    L = lambda t: ("call", ("x", "builtins.len"), (t,), ())
    npit = upd.get("idx_node.PINIT", (None,) * 4)[3]
    bpit = upd.get("idx_branch.MDOTINIT", (None,) * 4)[3]
    exp = {"idx_node.PINIT": ("node_pit[:,PINIT]", lambda: (C(None), L(npit))),
           "idx_branch.MDOTINIT": ("branch_pit[:,MDOTINIT]", lambda: (L(npit), mk_opn("+", [L(bpit), L(npit)]))),
           "idx_node.MDOTSLACKINIT": ("node_pit[slack_nodes,MDOTSLACKINIT]", lambda: (mk_opn("+", [L(bpit), L(npit)]), C(None)))}
    for col, (label, bounds) in exp.items():
        if col not in upd or npit is None or bpit is None:
            run.ob("solver|update|%s" % label, False, "the solver updates %s from the solution vector" % label, ws)
            continue
        rows, lo, hi, pit, minus, ev = upd[col]
        wlo, whi = bounds()
        run.ob("solver|update|%s" % label, tkey(lo) == tkey(wlo) and tkey(hi) == tkey(whi) and minus,
               "%s is decreased by x[%s:%s], the matrix columns of that unknown" % (label, tshow(wlo) if wlo != C(None) else "", tshow(whi) if whi != C(None) else ""),
               run.where(s, ev.node), detail="got x[%s:%s]" % (tshow(lo)[:80], tshow(hi)[:80]))
    # same slack definition on both sides (after constant propagation of the hydraulic arm)
    ok = False
    if "idx_node.MDOTSLACKINIT" in upd and npit is not None:
        rows = upd["idx_node.MDOTSLACKINIT"][0]
        want_rows = ("proj", ("call", ("x", "numpy.where"), (("cmp", "==", ("idx", npit, (FULL, ("k", "idx_node.NODE_TYPE"))), ("k", "idx_node.P")),), ()), 0)
        alt = ("proj", ("call", ("x", "numpy.where"), (("cmp", "==", ("k", "idx_node.P"), ("idx", npit, (FULL, ("k", "idx_node.NODE_TYPE")))),), ()), 0)
        ok = tkey(rows) in (tkey(want_rows), tkey(alt))
    slack_name = m.mask_name(m.slack_cond())
    uses = any(d_.desc.role == ("pos", slack_name) for d_ in m.cols) and any(d_.desc.sel == ("pos", slack_name) for d_ in m.data)
    run.ob("slack-node-definition-agrees", ok and uses,
           "assembler and solver use the same slack-node set: positions of node_pit[:, NODE_TYPE] == P", ws)
    mt = _model(run, True)
    run.ob("hydraulic-type-columns", any(d_.desc.role == ("pos", mt.mask_name(mt.slack_cond())) for d_ in mt.cols),
           "the thermal arm fixes the nodes with NODE_TYPE_T == T, the hydraulic arm those with NODE_TYPE == P", w)
    # thermal solver side
    st_ = ix.func(P + ".solve_temperature")
    run.analysed(st_)
    upd = updates(st_)
    npit = upd.get("idx_node.TINIT", (None,) * 4)[3]
    for col, label, bounds in (("idx_node.TINIT", "node_pit[:,TINIT]", lambda: (C(None), L(npit))),
                               ("idx_branch.TOUTINIT", "branch_pit[:,TOUTINIT]", lambda: (L(npit), C(None)))):
        ok = col in upd and npit is not None
        if ok:
            rows, lo, hi, pit, minus, ev = upd[col]
            wlo, whi = bounds()
            ok = tkey(lo) == tkey(wlo) and tkey(hi) == tkey(whi) and minus and rows == FULL
        run.ob("thermal-solver|update|%s" % label, ok, "%s is updated from its range of the thermal solution vector" % label,
               run.where(st_, st_.node))
    run.floor(11)


def r1_5(run):
    ix = run.index
    from .c03 import r3_4
    r3_4(run)
    # reported branch mass flows are +-MDOTINIT (covered per key under C02 R2.4; repeated here for the two mass-flow keys)
    gb = ix.func("pandapipes.pf.result_extraction.get_basic_branch_results")
    ki = KInterp(ix, {"fluid.is_gas": False, "transient": False}, phys.handlers())
    d = ki.run(gb).outputs[0].v
    w = run.where(gb, gb.node)
    check_equal(run, "report|mf_from", d.get("mf_from", g(Poly.sym("missing"))), g(bcol("MDOTINIT")), "mf_from = MDOTINIT", w)
    check_equal(run, "report|mf_to", d.get("mf_to", g(Poly.sym("missing"))), g(-bcol("MDOTINIT")), "mf_to = -MDOTINIT", w)
    # ext grid: reported = sign * slack mass of the node / number of p-grids at the node
    eg = component(ix, "ExtGrid")
    f = ix.lookup_method(eg, "extract_results")
    run.analysed(f)
    ki, k = hook_summary(ix, eg, "extract_results", {"fluid.is_gas": False}, {"mode": PyVal("hydraulics"), "options": PyVal({})})
    wr = [x for x in ki.res_writes if x["column"] == "mdot_kg_per_s"]
    w = run.where(f, f.node)
    run.ob("ext_grid|report|single-write", len(wr) == 1, "one store into res_ext_grid.mdot_kg_per_s", w)
    if len(wr) == 1:
        from ..algebra import apply_fn, poly_from_key
        from ..phys import ncol
        v = phys.tonum(wr[0]["value"]).plain()
        sel = wr[0]["selector"]
        run.ob("ext_grid|report|selector", "in_service" in str(sel) and "isin" in str(sel),
               "written for in-service pressure grids only", run.where(wr[0]["fi"], wr[0]["node"]), detail=str(sel)[:200])
        # the node index array X of the written rows: argument of the inverse permutation of np.unique
        xs = set()

        def find(k):
            if isinstance(k, tuple):
                if len(k) >= 3 and k[0] == "app" and isinstance(k[1], str) and k[1].startswith("unique"):
                    xs.add(k[2])
                for i in k:
                    find(i)
        if v is not None:
            find(v.key())
        ok = v is not None and len(xs) == 1
        if not ok:
            raise AnalysisError("ExtGrid.extract_results: the reported mass flow is not expressed through np.unique of one "
                                "index array (%s)" % str(wr[0]["value"])[:200])
        X = poly_from_key(list(xs)[0])
        run.ob("ext_grid|report|nodes-of-own-junctions",
               X == Poly.sym("pos", "node_index", "junction", Poly.sym("tbl", "ext_grid", "junction").key()),
               "the index array is the node index of the ext grids' junctions", w, detail=str(X)[:200])
        u0, u1, u2 = (apply_fn("unique%d" % i, [X]) for i in range(3))
        slack = ncol("MDOTSLACKINIT", u0)
        want = apply_fn("gather", [slack / u2, u1])
        sgn = ix.method_const(eg, "sign")
        want = want * Poly.const(sgn if isinstance(sgn, (int, float)) else 1)
        check_equal(run, "ext_grid|report|slack-divided-by-multiplicity", g(v), g(want),
                    "reported mass flow = sign * slack mass flow of the node / number of reporting ext grids at that node "
                    "(np.unique counts of the same index array), so that the reports of one node add up to its slack mass flow",
                    run.where(wr[0]["fi"], wr[0]["node"]))
    run.floor(20)


def r1_6(run):
    """K1: every constant column subscript uses a constant of the namespace of the array it indexes"""
    ix = run.index
    NODE, BRANCH = "pandapipes.idx_node", "pandapipes.idx_branch"
    node_consts = {k for k in ix.module(NODE).assigns}
    branch_consts = {k for k in ix.module(BRANCH).assigns}
    n_res, n_top, n_bad = 0, 0, 0
    for fi in ix.all_functions():
        mi = ix.module(fi.module)
        ns = _namespaces(ix, fi)
        for n in ast.walk(fi.node):
            if not isinstance(n, ast.Subscript):
                continue
            base, colnode = None, None
            if isinstance(n.slice, ast.Tuple) and len(n.slice.elts) == 2 and isinstance(n.slice.elts[1], ast.Name):
                base, colnode = n.value, n.slice.elts[1]
            elif isinstance(n.slice, ast.Name) and isinstance(n.value, ast.Subscript) and not isinstance(n.value.slice, ast.Tuple):
                base, colnode = n.value.value, n.slice
            if colnode is None:
                continue
            imp = ix.func_imports(fi).get(colnode.id) or mi.imports.get(colnode.id)
            if not (imp and imp[0] == "attr" and imp[1] in (NODE, BRANCH)):
                continue
            if imp[2] in ("node_cols", "branch_cols"):
                continue
            kind = _ns_of(base, ns)
            if kind is None:
                n_top += 1
                continue
            n_res += 1
            want = NODE if kind == "node" else BRANCH
            ok = imp[1] == want
            if not ok:
                # same integer under the like-named constant of the right namespace is harmless
                other = ix.try_const(want, imp[2])
                ok = other is not None and other == ix.try_const(imp[1], imp[2])
            if not ok:
                n_bad += 1
            if not ok or n_res <= 400:
                run.ob("%s|%s[%s]" % (fi.short, U(base)[:40], colnode.id), ok,
                       "column constant %s (from %s) indexes a %s pit array" % (colnode.id, imp[1].rsplit(".", 1)[1], kind),
                       run.where(fi, n))
    run.stat("pit_subscripts_resolved", n_res)
    run.stat("pit_subscripts_unresolved", n_top)
    run.floor(250)


def _namespaces(ix, fi):
    """local name -> 'node' | 'branch' by def-use inside the function (parameters by name, pit dict reads, slices)"""
    ns = {}
    for p in fi.params():
        if "node" in p and "pit" in p:
            ns[p] = "node"
        elif "branch" in p and "pit" in p:
            ns[p] = "branch"
    changed = True
    rounds = 0
    while changed and rounds < 5:
        changed = False
        rounds += 1
        for n in ast.walk(fi.node):
            if isinstance(n, ast.Assign) and len(n.targets) == 1:
                t, v = n.targets[0], n.value
                if isinstance(t, ast.Name) and t.id not in ns:
                    k = _ns_of(v, ns, strict=True)
                    if k:
                        ns[t.id] = k
                        changed = True
                elif isinstance(t, ast.Tuple) and isinstance(v, ast.Call) and callee_name(v) == "create_pit_branch_entries":
                    # (branch_component_pit, node_pit) = super().create_pit_branch_entries(...)
                    for i, e in enumerate(t.elts):
                        if isinstance(e, ast.Name) and e.id not in ns:
                            ns[e.id] = "branch" if i == 0 else "node"
                            changed = True
    return ns


def _ns_of(e, ns, strict=False):
    if isinstance(e, ast.Name):
        return ns.get(e.id)
    if isinstance(e, ast.Subscript):
        s = e.slice
        if isinstance(s, ast.Constant) and s.value in ("node", "branch") and "pit" in U(e.value):
            return s.value
        # row slices / masks of a pit keep the namespace; a column selection does not
        if isinstance(s, ast.Tuple) and len(s.elts) == 2:
            if isinstance(s.elts[1], ast.Slice):
                return _ns_of(e.value, ns, strict)
            return None
        if isinstance(s, ast.Slice) or not strict:
            return _ns_of(e.value, ns, strict)
        return None
    if isinstance(e, ast.Call) and callee_name(e) == "create_pit_branch_entries" and isinstance(e.func, ast.Attribute):
        return "branch" if strict else None
    return None


def r1_7(run):
    """the nodal balance is assembled over the reduced pit: a branch that stays active while one of its end nodes is dropped is
    renumbered onto another node by reduce_pit and draws an unreported flow there.  The connectivity search therefore keeps a
    branch only if its from node was reached (and by the edges of the search its to node too), and both ends are remapped by the
    same renumbering (shared with C04 R4.7 / R4.3)"""
    from .c04 import r4_3, r4_7
    r4_7(run)
    r4_3(run)


RULES = [("R1.1", r1_1), ("R1.2", r1_2), ("R1.3", r1_3), ("R1.4", r1_4), ("R1.5", r1_5), ("R1.6", r1_6), ("R1.7", r1_7)]


def _pit_rooted(t, pit_params):
    """is the array term (a window / column of) one of the pits?"""
    while isinstance(t, tuple) and t:
        if t[0] == "upd":
            t = t[1]
        elif t[0] == "n":
            return t[1] in pit_params
        elif t[0] == "idx":
            if len(t[2]) == 1 and t[2][0][0] == "c" and t[2][0][1] in ("node", "branch") and t[1][0] == "idx" \
                    and t[1][2] and t[1][2][0][0] == "c" and str(t[1][2][0][1]).endswith("_pit"):
                return True
            if not all(_basic_index(i) for i in t[2]):
                return False         # already a copy
            t = t[1]
        else:
            return False
    return False


def _basic_index(i):
    return i[0] in ("slice", "c", "k", "loop") or i == ("slice", ("c", None), ("c", None), ("c", None))


def lost_update_sites(ix):
    """[(function, store event, copied read, updated copy used afterwards?)]: subscript stores whose target array is the result of
    advanced indexing (index array / boolean mask -- numpy hands out a copy) of a pit"""
    from ..arrnf import ANF, base_of, key as tkey, walk
    mods = [m for m in ix.all_modules() if m == "pandapipes.pipeflow" or m.startswith(("pandapipes.pf.", "pandapipes.component_models."))]
    sites, nf = [], 0
    for f in ix.all_functions():
        if f.module not in mods:
            continue
        try:
            r = ANF(ix, f, strip=False).run()
        except AnalysisError:
            continue
        nf += 1
        pit_params = {a.arg for a in f.node.args.args if a.arg.endswith("_pit") or a.arg in ("pit", "node_pit_old", "branch_pit_old")}
        evs = list(r.events)
        for k, e in enumerate(evs):
            if e.kind != "store":
                continue
            b0 = base_of(e.base)
            if not (isinstance(b0, tuple) and b0 and b0[0] == "idx" and not all(_basic_index(i) for i in b0[2])
                    and _pit_rooted(b0[1], pit_params)):
                continue
            kb = tkey(b0)
            used = False
            for e2 in evs[k + 1:]:
                for t in (getattr(e2, "term", None), getattr(e2, "value", None), getattr(e2, "base", None)) + tuple(getattr(e2, "index", None) or ()):
                    if not isinstance(t, tuple):
                        continue
                    if e2.kind == "store" and t is getattr(e2, "base", None) and tkey(base_of(t)) == kb:
                        continue        # a further store into the same copy is not a use
                    if any(isinstance(x, tuple) and x and x[0] == "upd" and tkey(base_of(x)) == kb for x in walk(t)):
                        used = True
            sites.append((f, e, b0, used))
    return sites, nf


def r1_9(run):
    """the balance is kept in the pit columns (MDOTSLACKINIT, LOAD, MDOTINIT ...), which every stage updates in place.  `pit[rows]`
    with an index array or a mask is a *copy*: a store into it changes nothing in the pit, so a correction written that way (zeroing
    the slack flow of junctions that are no mass slack, say) is silently lost.  Every subscript store whose target is such a copy of
    a pit must feed a later read (stored back, returned or passed on)."""
    from ..arrnf import show as tshow
    ix = run.index
    sites, nf = lost_update_sites(ix)
    for f, e, b0, used in sites:
        run.analysed(f)
        run.ob("%s|%s|store-into-copy-is-used" % (f.short, tshow(b0)[:40]), used,
               "the store goes into a copy of pit rows (advanced indexing); the updated copy is read afterwards", run.where(f, e.node))
    run.stat("functions_scanned_for_stores_into_pit_copies", nf)
    run.stat("stores_into_pit_copies", len(sites))
    if nf < 150:
        raise AnalysisError("only %d functions of pipeflow.py, pf/ and component_models/ could be put into normal form" % nf)
    run.ob("functions-scanned", True, "functions of pipeflow.py, pf/ and component_models/ put into normal form: %d" % nf, "src/pandapipes")
    run.floor(1)


RULES.append(("R1.9", r1_9))


def _is_sorted_by_construction(t):
    """K[argsort(K)], np.sort(K), K[lexsort([.., K])] (the last lexsort key is the primary one), np.unique(K)"""
    from ..arrnf import base_of, key as tkey
    t = base_of(t)
    if not isinstance(t, tuple) or not t:
        return False
    if t[0] == "call" and t[1] in (("x", "numpy.sort"), ("x", "numpy.unique"), ("x", "numpy.arange")):
        return True
    if t[0] == "idx" and len(t[2]) == 1:
        k, o = base_of(t[1]), t[2][0]
        if o[0] == "call" and o[1] == ("x", "numpy.argsort") and o[2] and tkey(base_of(o[2][0])) == tkey(k):
            return True
        if o[0] == "call" and o[1] == ("x", "numpy.lexsort") and o[2] and o[2][0][0] in ("list", "tuple") and o[2][0][1] \
                and tkey(base_of(o[2][0][1][-1])) == tkey(k):
            return True
    return False


def r1_10(run):
    """the per-junction sums of loads and branch flows come from a run-length group sum (_sum_by_group_sorted adds up *adjacent* equal
    keys and returns one entry per run).  Called with keys that are not sorted it returns a junction once per run, and the stores that
    follow (`pit[rows, LOAD] += sums`) keep only the last run of a repeated junction: consumption silently disappears from the node
    equations.  Every call site hands it keys that are sorted by construction -- K[argsort(K)], K[lexsort([.., K])], np.sort / np.unique."""
    from ..arrnf import ANF, show as tshow
    ix = run.index
    n = 0
    target = "pandapipes.pf.internals_toolbox._sum_by_group_sorted"
    for f in ix.all_functions():
        if ".test." in f.module or not any(isinstance(x, ast.Name) and x.id == "_sum_by_group_sorted" or
                                           isinstance(x, ast.Attribute) and x.attr == "_sum_by_group_sorted" for x in ast.walk(f.raw_node)):
            continue
        if f.qualname == target:
            continue
        try:
            r = ANF(ix, f, strip=False).run()
        except AnalysisError as ex:
            raise AnalysisError("unrecognised shape: %s (calls _sum_by_group_sorted): %s" % (f.qualname, str(ex)[:120]))
        for e in r.events:
            if e.kind == "call" and e.term[1] == ("f", target):
                n += 1
                run.analysed(f)
                keys = e.term[2][0] if e.term[2] else None
                ok = keys is not None and _is_sorted_by_construction(keys)
                run.ob("%s|sorted-group-sum-gets-sorted-keys" % f.short, ok,
                       "the keys handed to the run-length group sum are sorted by construction", run.where(f, e.node),
                       detail=None if ok else tshow(keys)[:160] if keys else "no positional key argument")
    run.stat("calls_of_the_sorted_group_sum", n)
    run.floor(2)


RULES.append(("R1.10", r1_10))


def r1_11(run):
    """the reported flows balance only if every reported number belongs to THIS calculation: init_results_element rebinds every
    result table to a fresh all-NaN frame on every path, so an element that takes no part in the current run (switched off, cut off)
    cannot keep the mass flow of an earlier run -- shared with C05 R5.8."""
    from .c05 import r5_8
    r5_8(run)


RULES.append(("R1.11", r1_11))

EXPLANATION += (' ' + '(R1.12) extract_branch_results_with_internals writes the hydraulic result lists (the parameters named *_hydraulics: mass '
                'flows, velocities, pressures of branches with internal sections) at the rows selected by the lookup `active_hydraulics` and by '
                'no other connectivity lookup: a branch that carries flow but is not reached by a temperature feed is inactive for the heat '
                'transfer only, and filtering its mass flow by the thermal lookup leaves NaN next to junctions that do report a pressure.')


def r1_12(run):
    """which branch rows receive a reported mass flow: in the result extraction of branches with internals every store made for the
    hydraulic result lists (path condition mentions a parameter *_hydraulics) selects its rows with get_lookup(net, 'branch',
    'active_hydraulics'); the thermal lookup ('active_heat_transfer') may only select rows for the *_heat / res_branch_ht lists."""
    from ..arrnf import ANF, walk, show as tshow
    ix = run.index
    f = ix.func("pandapipes.pf.result_extraction.extract_branch_results_with_internals")
    run.analysed(f)
    rm = ANF(ix, f).run()
    hyd_params = {a.arg for a in f.node.args.args if a.arg.endswith("_hydraulics")}
    if len(hyd_params) < 3:
        raise AnalysisError("extract_branch_results_with_internals: the *_hydraulics result lists are not parameters any more (%s)" % sorted(hyd_params))
    n = 0
    for s in rm.stores():
        names = {x[1] for c_, _ in (s.cond or ()) for x in walk(c_) if x[0] == "n"}
        hp = sorted(names & hyd_params)
        if not hp:
            continue
        keys = []
        for part in list(s.index) + [s.value]:
            for x in walk(part):
                if x[0] == "call" and x[1][0] == "f" and x[1][1].endswith(".get_lookup") and len(x[2]) >= 3:
                    k = x[2][2]
                    if "active" in tshow(k):
                        keys.append(k)
        if not keys:
            continue  # rows placed by element index (mean values): no connectivity filter in this store
        n += 1
        bad = [k for k in keys if k != ("c", "active_hydraulics")]
        run.ob("extract_branch_results_with_internals|%s|rows-by-hydraulic-lookup" % hp[0], not bad,
               "the rows that receive the hydraulic results of %s are selected by get_lookup(net, 'branch', 'active_hydraulics')" % hp[0],
               run.where(f, f.node), detail=tshow(bad[0])[:160] if bad else None)
    run.stat("hydraulic_result_stores_with_connectivity_filter", n)
    if n < 2:
        raise AnalysisError("unrecognised shape: fewer than two filtered stores of hydraulic results in extract_branch_results_with_internals (%d)" % n)
    run.floor(2)


RULES.append(("R1.12", r1_12))
