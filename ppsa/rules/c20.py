"""C20 -- multi-energy coupling conserves energy and equals the decoupled calculation (structural part).

 R20.1 conversion factors are mutual inverses; each control_step computes read value * scaling * factor * efficiency
 R20.2 scalar (.at) and vector (.loc[...].values) arms of every read and write address the same table/column/index
 R20.3 the attribute stored by write_to_net is the one computed in the same arm of control_step
 R20.4 convergence aggregation is conjunctive; only affected nets are re-evaluated
 R20.5 error registration (shared with C13 R13.1)
"""
import ast

from .. import phys
from ..algebra import GExpr, Poly
from ..astutil import U, calls, callee_name, const_str, own_walk
from ..kernelir import KInterp, PyVal, Unsupported
from ..phys import check_equal, g
from ..source import AnalysisError

MC = "pandapipes.multinet.control.controller.multinet_control"
MRC = "pandapipes.multinet.control.run_control_multinet"

EXPLANATION = (
    '(R20.1) the conversion-factor methods of the three coupling controllers are evaluated to exact rational normal forms'
    ' over the heating value symbol: mw->kg/s times kg/s->mw equals 1, gas1->gas2 times gas2->gas1 equals 1; the value '
    'assigned in every arm of control_step is (product of the two columns read) * factor * efficiency, resp. divided by '
    '(factor * efficiency) for the power-led arm, so that P2G followed by G2P returns eta1*eta2*p. (R20.2) the try '
    '(.at[idx, col]) and except (.loc[idx, col].values) arms of every read and write reference the same net name '
    'attribute, table, index attribute and column, and reads multiply the value column with the scaling column of the '
    'same element. (R20.3) write_to_net stores the attribute that the same arm (el_power_led or not) of control_step '
    'assigned, into the column the opposite side reads. (R20.4) _evaluate_multinet aggregates the member verdicts with '
    'np.all, re-evaluates only nets selected by _relevant_nets and keeps the previous entry for the others. (R20.5) the '
    "top-level error tuple covers the pandapipes members' non-convergence class. (R20.7) the controller tables of the "
    'multinet and of its members are combined by column label before they are ordered. (R20.6) get_all_net_names of every'
    ' coupling controller returns exactly the member nets its control step reads or writes, so that _relevant_nets '
    'recalculates every net that was written. (R20.8) the controller table schema of the multinet (names and dtypes of '
    "'object', 'in_service', 'order', 'level', ...) equals the schema of the member nets' controller table, so combining "
    "and ordering the tables does not coerce the order key. (R20.9, shared with C13 R13.5) every member net's output "
    "writer gets the step's multinet-wide verdicts unchanged. Not decided: that member nets hold the results of a stand-"
    'alone calculation (runtime).')
ASSUMPTIONS = ["pandas .at / .loc address the same cell for a scalar index", "the higher heating value property is positive"]
TECHNIQUE = "normal forms of the conversion factors and control-step formulas; structural agreement of sibling arms"
EXPLANATION += (' ' + '(R20.10) prepare_run_ctrl of the multinet stores level, controller_order (both derived from the multinet) and errors on every call; no such store is guarded by a look into the ctrl_variables dictionary other than `is None`.')


def _cls(ix, name):
    return ix.cls(MC + "." + name)


def _method_value(ix, ci, mname):
    """normal form of a no-argument method returning an expression over self.<attr>"""
    f = ci.methods[mname]
    ki = KInterp(ix, {}, {}, free_syms=True)
    k = ki.run(f)
    return phys.tonum(k.outputs[0])


def _cell_refs(expr):
    """[(net-name attribute, table expr, index attr, column)] for every .at[...] / .loc[...] cell reference in expr"""
    out = []
    for n in ast.walk(expr):
        if isinstance(n, ast.Subscript) and isinstance(n.value, ast.Attribute) and n.value.attr in ("at", "loc") \
                and isinstance(n.slice, ast.Tuple) and len(n.slice.elts) == 2:
            tbl = n.value.value
            col = const_str(n.slice.elts[1])
            idx = U(n.slice.elts[0])
            tname, netattr = None, None
            if isinstance(tbl, ast.Attribute):
                tname = tbl.attr
                netexpr = tbl.value
            elif isinstance(tbl, ast.Subscript):
                tname = U(tbl.slice)
                netexpr = tbl.value
            else:
                continue
            if isinstance(netexpr, ast.Subscript):
                netattr = U(netexpr.slice)
            out.append((netattr, tname, idx, col, n.value.attr))
    return out


def _arms(fi):
    """[(path label, try-body assign value, except-body assign value, target)] for each try/except read or write"""
    out = []

    def rec(stmts, label):
        for s in stmts:
            if isinstance(s, ast.If):
                rec(s.body, label + [U(s.test)])
                rec(s.orelse, label + ["not " + U(s.test)])
            elif isinstance(s, ast.Try) and len(s.body) == 1 and len(s.handlers) == 1 and len(s.handlers[0].body) == 1:
                a, b = s.body[0], s.handlers[0].body[0]
                if isinstance(a, ast.Assign) and isinstance(b, ast.Assign):
                    out.append((tuple(label), a, b, s))
    rec(fi.node.body, [])
    return out


def _inline_self_temps(fnode, expr, depth=0):
    """the expression with every local name replaced by its value where the name is bound exactly once in the function and that
    value is built from attributes / methods of self alone (`factor = self.conversion_factor() * self.efficiency`): such a
    temporary is not something read from the net"""
    import copy
    if depth > 4:
        return expr
    binds = {}
    for n in ast.walk(fnode):
        tg = []
        if isinstance(n, ast.Assign):
            tg = [t for t in n.targets]
        elif isinstance(n, (ast.AugAssign, ast.AnnAssign, ast.For, ast.NamedExpr)):
            tg = [n.target]
        elif isinstance(n, (ast.With,)):
            tg = [i.optional_vars for i in n.items if i.optional_vars is not None]
        for t in tg:
            for x in ast.walk(t):
                if isinstance(x, ast.Name):
                    binds.setdefault(x.id, []).append(n)

    def self_only(v):
        return all(x.id == "self" for x in ast.walk(v) if isinstance(x, ast.Name)) and not any(isinstance(x, ast.Subscript) for x in ast.walk(v))

    class T(ast.NodeTransformer):
        def visit_Name(self, node):
            b = binds.get(node.id, [])
            if isinstance(node.ctx, ast.Load) and len(b) == 1 and isinstance(b[0], ast.Assign) and len(b[0].targets) == 1 \
                    and isinstance(b[0].targets[0], ast.Name):
                v = _inline_self_temps(fnode, copy.deepcopy(b[0].value), depth + 1)
                if self_only(v):
                    return ast.copy_location(v, node)
            return node
    return ast.fix_missing_locations(T().visit(copy.deepcopy(expr)))


def r20_1(run):
    ix = run.index
    p2g, g2p, g2g = _cls(ix, "P2GControlMultiEnergy"), _cls(ix, "G2PControlMultiEnergy"), _cls(ix, "GasToGasConversion")
    a = _method_value(ix, p2g, "conversion_factor_mw_to_kgps")
    b = _method_value(ix, g2p, "conversion_factor_kgps_to_mw")
    w = run.where(p2g, p2g.node)
    check_equal(run, "mw_to_kgps*kgps_to_mw==1", a * b, g(Poly.const(1)),
                "conversion_factor_mw_to_kgps * conversion_factor_kgps_to_mw == 1 (same heating value)", w)
    hhv = Poly.sym("self", "fluid_calorific_value")
    check_equal(run, "mw_to_kgps", a, g(Poly.const(1000) / (hhv * 3600)), "1 MW corresponds to 1000/(hhv*3600) kg/s (hhv in kWh/kg)", w)
    c = _method_value(ix, g2g, "conversion_factor_gas1_to_gas2")
    h1, h2 = Poly.sym("self", "gas1_calorific_value"), Poly.sym("self", "gas2_calorific_value")
    check_equal(run, "gas1_to_gas2", c, g(h1 / h2), "gas-to-gas factor = hhv1/hhv2 (energy preserved)", run.where(g2g, g2g.node))
    cc = c.cases[0][1].subst({("sym", "self", "gas1_calorific_value"): h2, ("sym", "self", "gas2_calorific_value"): h1})
    check_equal(run, "gas1_to_gas2*gas2_to_gas1==1", c * g(cc), g(Poly.const(1)), "forward and backward gas conversion are inverse", run.where(g2g, g2g.node))
    # control-step formulas
    for ci, attr_read, expect in (
            (p2g, "power_load", lambda r, f, e: r * f * e),
            (g2g, "gas_in", lambda r, f, e: r * f * e)):
        cs = ci.methods["control_step"]
        run.analysed(cs)
        final = [n for n in own_walk(cs.node) if isinstance(n, ast.Assign) and isinstance(n.targets[0], ast.Attribute)
                 and U(n.targets[0].value) == "self" and n.targets[0].attr.startswith("mdot")]
        ok = len(final) == 1
        run.ob("%s|single-result-assignment" % ci.name, ok, "control_step assigns the converted value once", run.where(cs, cs.node))
        if ok:
            ki = KInterp(ix, {}, {}, free_syms=True, dyn_cls=ci)
            st = {"fi": cs, "env": {"self": PyVal("<cls>")}, "G": phys.A.BExpr.true(), "loopvars": set(), "kernel": None, "mask": None, "returned": False}
            val = phys.tonum(ki.eval(_inline_self_temps(cs.node, final[0].value), st))
            fac = _method_value(ix, ci, [m for m in ci.methods if m.startswith("conversion_factor")][0])
            # the value read from the net is the one free symbol of the expression that is not an attribute of self
            free = sorted({a for gd, p_ in val.cases for a in p_.symbols() if not (len(a) >= 2 and a[1] == "self")}, key=repr)
            if len(free) != 1:
                raise AnalysisError("%s.control_step: expected one value read from the net in %s" % (ci.name, val))
            want = g(Poly.atom(free[0])) * fac * g(Poly.sym("self", "efficiency"))
            check_equal(run, "%s|value=read*factor*efficiency" % ci.name, val, want,
                        "written value = (value*scaling read) * conversion factor * efficiency", run.where(cs, final[0]))
    cs = g2p.methods["control_step"]
    run.analysed(cs)
    ki = KInterp(ix, {}, {}, free_syms=True, dyn_cls=g2p)
    st = {"fi": cs, "env": {"self": PyVal("<cls>")}, "G": phys.A.BExpr.true(), "loopvars": set(), "kernel": None, "mask": None, "returned": False}
    fac = _method_value(ix, g2p, "conversion_factor_kgps_to_mw")
    eff = g(Poly.sym("self", "efficiency"))
    for attr, src, want in (("gas_cons", "power_gen", lambda r: r / (fac * eff)), ("power_gen", "gas_sink", lambda r: r * fac * eff)):
        asg = [n for n in own_walk(cs.node) if isinstance(n, ast.Assign) and U(n.targets[0]) == "self." + attr]
        ok = len(asg) == 1
        run.ob("G2P|%s-assigned-once" % attr, ok, "self.%s is assigned once" % attr, run.where(cs, cs.node))
        if ok:
            val = phys.tonum(ki.eval(_inline_self_temps(cs.node, asg[0].value), st))
            free = sorted({a for gd, p_ in val.cases for a in p_.symbols() if not (len(a) >= 2 and a[1] == "self")}, key=repr)
            if len(free) != 1:
                raise AnalysisError("G2P.control_step: expected one value read from the net in %s" % val)
            check_equal(run, "G2P|%s" % attr, val, want(g(Poly.atom(free[0]))),
                        "G2P: %s = %s %s (factor * efficiency)" % (attr, src, "/" if attr == "gas_cons" else "*"), run.where(cs, asg[0]))
    # round trip: P2G then G2P returns eta1*eta2*p
    p = Poly.sym("p")
    e1, e2 = Poly.sym("eta_p2g"), Poly.sym("eta_g2p")
    mdot = g(p) * a * g(e1)
    back = mdot * b * g(e2)
    check_equal(run, "round-trip|p2g-then-g2p", back, g(p * e1 * e2), "power -> gas -> power returns the product of the efficiencies", w)
    run.floor(12)


def _cellnorm(t):
    """scalar (.at[i, c]) and vector (.loc[i, c].values[:]) spellings of the same cell access"""
    from ..arrnf import FULL
    if not isinstance(t, tuple) or not t:
        return t
    if t[0] == "attr" and t[2] in ("at", "loc", "iat", "iloc"):
        return ("attr", _cellnorm(t[1]), "loc")
    if t[0] == "attr" and t[2] in ("values", "array"):
        return _cellnorm(t[1])
    if t[0] == "call" and t[1][0] == "attr" and t[1][2] in ("to_numpy", "item") and not t[2]:
        return _cellnorm(t[1][1])
    if t[0] == "idx" and t[2] == (FULL,):
        return _cellnorm(t[1])
    return tuple(_cellnorm(x) for x in t)


def r20_2(run):
    ix = run.index
    from ..arrnf import ANF, key as tkey, show as tshow, match
    n_pairs = 0
    for cname in ("P2GControlMultiEnergy", "G2PControlMultiEnergy", "GasToGasConversion"):
        ci = _cls(ix, cname)
        for mname in ("control_step", "write_to_net"):
            f = ci.methods[mname]
            run.analysed(f)
            r = ANF(ix, f).run()
            for t in r.tries:
                label = "&".join(("" if p else "not ") + tshow(c) for c, p in t["cond"]) or "-"
                if len(t["handlers"]) != 1:
                    raise AnalysisError("%s.%s: try with %d handlers" % (cname, mname, len(t["handlers"])))
                h = t["handlers"][0]
                where = run.where(f, t["node"])
                bst = [e for e in r.events[t["body_events"][0]:t["body_events"][1]] if e.kind == "store"]
                hst = [e for e in r.events[h["events"][0]:h["events"][1]] if e.kind == "store"]
                names = sorted(set(t["body"]) | {k for k in h["env"] if k in t["body"]})
                pairs = [(nm, t["body"].get(nm), h["env"].get(nm)) for nm in names]
                # arms of a (substituted) helper that *return* the value instead of binding a name
                bret = [e for e in r.events[t["body_events"][0]:t["body_events"][1]] if e.kind in ("return", "inlined-return")]
                hret = [e for e in r.events[h["events"][0]:h["events"][1]] if e.kind in ("return", "inlined-return")]
                if len(bret) == 1 and len(hret) == 1:
                    pairs.append(("<returned value>", bret[0].value, hret[0].value))
                for nm, a, b in pairs:
                    n_pairs += 1
                    k0 = "%s.%s|%s|%s" % (cname, mname, label, nm)
                    run.ob(k0 + "|same-cells", b is not None and tkey(_cellnorm(a)) == tkey(_cellnorm(b)),
                           "the scalar (.at) and the fallback (.loc) arm read the same cells in the same order: %s" % nm, where,
                           detail="%s / %s" % (tshow(a)[:200], tshow(b)[:200] if b is not None else None))
                    v = _cellnorm(a)
                    ok = v[0] == "opn" and v[1] == "*" and len(v[2]) == 2
                    if ok:
                        m1 = match(("idx", ("attr", ("?", "tbl"), "loc"), (("?", "i"), ("?", "c1"))), v[2][0])
                        m2 = match(("idx", ("attr", ("?", "tbl"), "loc"), (("?", "i"), ("?", "c2"))), v[2][1])
                        ok = m1 is not None and m2 is not None and tkey(m1["tbl"]) == tkey(m2["tbl"]) and tkey(m1["i"]) == tkey(m2["i"]) \
                            and ("c", "scaling") in (m1["c1"], m2["c2"]) and m1["c1"] != m2["c2"]
                    run.ob(k0 + "|value*scaling", ok, "the read value is the element's column times its scaling column (same table, same rows)", where,
                           detail=tshow(v)[:200])
                if bst or hst:
                    n_pairs += 1
                    k0 = "%s.%s|%s|write" % (cname, mname, label)
                    same = len(bst) == len(hst) == 1 and tkey(_cellnorm(("idx", bst[0].base, bst[0].index))) == tkey(_cellnorm(("idx", hst[0].base, hst[0].index)))
                    run.ob(k0 + "|same-cells", same, "the scalar (.at) and the fallback (.loc) arm write the same cells", where)
                    run.ob(k0 + "|same-value", same and tkey(_cellnorm(bst[0].value)) == tkey(_cellnorm(hst[0].value)),
                           "both arms store the same value", where)
    # the fallback arm handles several elements at once: what it reads with .loc[rows, col] is a pandas Series labelled with the rows
    # of *that* table; before it is combined or written into another table (whose rows have other labels) it must be taken by
    # position (.values / .to_numpy()) -- a Series would be aligned by label and land in the wrong rows
    from ..arrnf import ANF as _A2, walk as _walk2
    for cname in ("P2GControlMultiEnergy", "G2PControlMultiEnergy", "GasToGasConversion"):
        ci = _cls(ix, cname)
        f = ci.methods["control_step"]
        r2 = _A2(ix, f, strip=False).run()
        loc_reads, positional = {}, set()
        terms = [((e.term if e.kind == "call" else getattr(e, "value", None)), e) for e in r2.events]
        for t_ in r2.tries:             # what the fallback arm binds to names (no event of its own)
            for h_ in t_["handlers"]:
                for v_ in h_["env"].values():
                    terms.append((v_, type("E", (), {"node": t_["node"]})()))
        for t, e in terms:
            if True:
                if t is None or not isinstance(t, tuple):
                    continue
                for x in _walk2(t):
                    if x[0] == "idx" and x[1][0] == "attr" and x[1][2] == "loc" and len(x[2]) == 2:
                        loc_reads.setdefault(tkey(x), (x, e))
                    if x[0] == "attr" and x[2] == "values" and x[1][0] == "idx" and x[1][1][0] == "attr" and x[1][1][2] == "loc":
                        positional.add(tkey(x[1]))
                    if x[0] == "call" and x[1][0] == "attr" and x[1][2] == "to_numpy" and x[1][1][0] == "idx":
                        positional.add(tkey(x[1][1]))
        bad = [v for k_, v in loc_reads.items() if k_ not in positional]
        run.ob("%s.control_step|vector-reads-by-position" % cname, bool(loc_reads) and not bad,
               "every .loc[rows, column] read of %s.control_step is taken by position (.values) before it is used" % cname,
               run.where(f, bad[0][1].node) if bad else run.where(f, f.node), detail=tshow(bad[0][0])[:160] if bad else None)
    run.ob("arm-pairs-found", n_pairs >= 8, "try/except arm pairs found (%d)" % n_pairs, MC)
    run.floor(17)


def r20_3(run):
    ix = run.index
    spec = {"P2GControlMultiEnergy": [((), "mdot_kg_per_s", ("self.name_net_gas", "source", "self.elm_idx_gas", "mdot_kg_per_s"))],
            "GasToGasConversion": [((), "mdot_kg_per_s_out", ("self.name_net_to", "source", "self.element_index_to", "mdot_kg_per_s"))],
            "G2PControlMultiEnergy": [(("self.el_power_led",), "gas_cons", ("self.name_net_gas", "sink", "self.elm_idx_gas", "mdot_kg_per_s")),
                                      (("not self.el_power_led",), "power_gen", ("self.name_net_power", "self.elm_type_power", "self.elm_idx_power", "p_mw"))]}
    from ..arrnf import ANF as _ANF, C as _C, norm_cond as _nc, key as _tk, show as _ts

    def selfattr(txt):
        # "self.x" -> term of the attribute; a plain string is a table name
        return ("attr", ("n", "self"), txt[5:]) if txt.startswith("self.") else None

    def led_polarity(cond):
        """True / False when the path condition fixes self.el_power_led, None otherwise"""
        pol = None
        for c_, p_ in cond:
            c2, p2 = _nc(c_, p_)
            if c2 == ("attr", ("n", "self"), "el_power_led"):
                pol = p2
        return pol

    for cname, rows in spec.items():
        ci = _cls(ix, cname)
        w = ci.methods["write_to_net"]
        cs = ci.methods["control_step"]
        rw = _ANF(ix, w, param_alias=dict(zip(w.params(), ("self", "multinet")))).run()
        rc = _ANF(ix, cs, param_alias=dict(zip(cs.params(), ("self", "multinet")))).run()
        for label, attr, cell in rows:
            want_led = None if not label else (not label[0].startswith("not "))
            netattr, tname, idxattr, col = cell
            # the scalar-arm store (not inside an except handler) of self.<attr> into a table cell
            cand = [e for e in rw.stores() if e.value == ("attr", ("n", "self"), attr) and e.base[0] == "attr" and e.base[2] in ("at", "loc")
                    and not any(isinstance(c_, tuple) and c_ and c_[0] == "exc" for c_, _p in e.cond)]
            ok = len(cand) == 1
            detail = "%d stores of self.%s" % (len(cand), attr)
            if ok:
                e = cand[0]
                tbl = e.base[1]
                net_t = ("idx", ("idx", ("n", "multinet"), (_C("nets"),)), (selfattr(netattr),))
                if selfattr(tname) is not None:
                    want_tbl = ("idx", net_t, (selfattr(tname),))
                    tbl_ok = _tk(tbl) == _tk(want_tbl)
                else:
                    tbl_ok = _tk(tbl) in (_tk(("attr", net_t, tname)), _tk(("idx", net_t, (_C(tname),))))
                ok = tbl_ok and len(e.index) == 2 and e.index[0] == selfattr(idxattr) and e.index[1] == _C(col) \
                    and (want_led is None or led_polarity(e.cond) == want_led)
                detail = "%s[%s] under %s" % (_ts(tbl)[:80], ", ".join(_ts(i) for i in e.index), led_polarity(e.cond))
                # the same arm of control_step assigns that attribute
                asg = [x for x in rc.stores() if x.base == ("n", "self") and x.index == (_C("." + attr),)]
                ok = ok and len(asg) == 1 and (want_led is None or led_polarity(asg[0].cond) == want_led)
            run.ob("%s|write=%s|%s" % (cname, attr, "&".join(label) or "-"), ok,
                   "write_to_net stores self.%s (computed in the same arm of control_step) into %s" % (attr, "/".join(cell)),
                   run.where(w, w.node), detail=detail)
        # control_step calls write_to_net after computing and marks itself applied
        wr = [c for c in rc.calls() if c.fn == ("attr", ("n", "self"), "write_to_net") and c.args == (("n", "multinet"),)]
        ap = [x for x in rc.stores() if x.base == ("n", "self") and x.index == (_C(".applied"),) and x.value == _C(True)]
        comp_ = [x for x in rc.stores() if x.base == ("n", "self") and any(x.index == (_C("." + a_),) for _l, a_, _c in rows)]
        run.ob("%s|writes-then-applied" % cname, len(wr) == 1 and len(ap) == 1 and not wr[0].cond and not ap[0].cond
               and wr[0].seq < ap[0].seq and all(x.seq < wr[0].seq for x in comp_),
               "control_step computes the value, writes it and then reports convergence", run.where(cs, cs.node))
    # opposite sides read what the other writes: P2G writes source.mdot of the gas net, read sides multiply value*scaling
    run.floor(7)


def r20_4(run):
    from ..arrnf import ANF, C, base_of, contains, expect, key as tkey, match, show as tshow, walk
    ix = run.index
    f = ix.func(MRC + "._evaluate_multinet")
    run.analysed(f)
    w = run.where(f, f.node)
    ps = f.params()
    r = ANF(ix, f, param_alias=dict(zip(ps, ("multinet", "levelorder", "ctrl_variables")))).run()
    agg = [s_ for s_ in r.stores() if s_.index == (C("converged"),) and tkey(base_of(s_.base)) == tkey(("n", "ctrl_variables"))]
    ok = len(agg) == 1 and agg[0].value[0] == "call" and agg[0].value[1] in (("x", "numpy.all"), ("x", "builtins.all"), ("x", "builtins.min"))
    lst = agg[0].value[2][0] if ok else None
    run.ob("evaluate|conjunctive", ok, "the multinet verdict is the conjunction of the member verdicts", w,
           detail=tshow(agg[0].value)[:120] if agg else None)
    ok2 = False
    if ok and lst[0] == "phi":
        lid = lst[1]
        loop = r.loops.get(lid)
        upd = loop["env"].get(lst[2]) if loop else None
        it_ok = loop is not None and tkey(loop["iter"]) == tkey(expect(ix, f, "multinet['nets'].keys()"))
        member = expect(ix, f, "ctrl_variables['nets'][K]['converged']", env={"K": ("loop", lid, 0)})
        parts = list(upd[2]) if upd is not None and upd[0] == "opn" and upd[1] == "+" else \
            ([upd[2], upd[3]] if upd is not None and upd[0] == "op" and upd[1] == "++" else [])
        ok2 = it_ok and any(x[0] == "carried" for x in parts) \
            and any(x[0] == "list" and len(x[1]) == 1 and x[1][0][0] == "idx" and x[1][0][2] == (C("converged"),) and contains(x[1][0], ("loop", lid, 0))
                    for x in parts)
    run.ob("evaluate|all-members-counted", ok2, "every member net of multinet['nets'] contributes its verdict", w)
    rn = ix.func(MRC + "._relevant_nets")
    st = [s_ for s_ in r.stores() if s_.loops and s_.base == expect(ix, f, "ctrl_variables['nets']")]
    ok = len(st) == 1
    if ok:
        K = st[0].index[0]
        old_entry = expect(ix, f, "ctrl_variables['nets'][K]", env={"K": K})
        if st[0].value[0] == "ite":
            # entry = <re-evaluation> if <relevant> else <old entry>
            c_, a_, b_ = st[0].value[1:]
        elif len(st[0].cond) >= 1:
            # if <relevant>: entry = <re-evaluation>       (the others keep their entry because nothing is stored)
            from ..arrnf import norm_cond as _nc
            c_, pol_ = _nc(*st[0].cond[-1])
            a_, b_ = st[0].value, old_entry
            ok = pol_
        else:
            ok = False
    if ok:
        rel = ("idx", ("call", ("f", rn.qualname), (("n", "multinet"), expect(ix, f, "np.array(levelorder)")), ()), (K,))
        ok = c_[0] == "call" and c_[1] in (("x", "numpy.any"), ("x", "builtins.any")) and tkey(c_[2][0]) == tkey(rel) \
            and a_[0] == "call" and a_[1][0] in ("x", "f") and a_[1][1].endswith("_evaluate_net") and tkey(b_) == tkey(expect(ix, f, "ctrl_variables['nets'][K]", env={"K": K})) \
            and tkey(a_[2][0]) == tkey(expect(ix, f, "multinet['nets'][K]", env={"K": K}))
    run.ob("evaluate|only-relevant-nets-rerun", ok, "exactly the nets selected by _relevant_nets are re-evaluated; the others keep their entry", w)
    run.analysed(rn)
    ps = rn.params()
    rr = ANF(ix, rn, param_alias=dict(zip(ps, ("multinet", "levelorder")))).run()
    st = [s_ for s_ in rr.stores() if s_.loops and base_of(s_.base)[0] == "new"]
    # the verdict per member net: stored into a new dict inside the loop over the members, or the value of a dict comprehension
    # over them that is returned
    entry = [(s_.index[0], s_.value) for s_ in st]
    if not entry:
        for e_ in rr.returns():
            v_ = e_.value
            if v_[0] == "comp" and v_[1] == "DictComp" and v_[2][0] == "kv" and len(v_[3]) == 1 and not v_[3][0][2]:
                entry.append((v_[2][1], v_[2][2]))
    ok = len(entry) == 1 and entry[0][1][0] == "bool" and entry[0][1][1] == "or" and len(entry[0][1][2]) == 2
    detail = tshow(entry[0][1])[:300] if entry else None

    class _E:
        pass
    st = []
    if entry:
        st = [_E()]
        st[0].index, st[0].value = (entry[0][0],), entry[0][1]
    if ok:
        K = st[0].index[0]
        lo = expect(ix, rn, "np.array(levelorder)")
        own = expect(ix, rn, "any(LO[:, 1].__eq__(multinet['nets'][K]))", env={"LO": lo, "K": K})
        own2 = expect(ix, rn, "any(LO[:, 1] == multinet['nets'][K])", env={"LO": lo, "K": K})
        parts = list(st[0].value[2])
        has_own = any(tkey(p_) in (tkey(own), tkey(own2)) for p_ in parts)
        coupled = [p_ for p_ in parts if tkey(p_) not in (tkey(own), tkey(own2))]
        ok_c = False
        if len(coupled) == 1:
            # K in <names of all nets named by the multinet-level controllers of this level>
            comps = [x for x in walk(coupled[0]) if x[0] == "comp"]
            mem = [x for x in walk(coupled[0]) if x[0] == "cmp" and x[1] == "in" and tkey(x[2]) == tkey(K)]
            ctrl = expect(ix, rn, "LO[LO[:, 1].__eq__(multinet), 0]", env={"LO": lo})
            ctrl2 = expect(ix, rn, "LO[LO[:, 1] == multinet, 0]", env={"LO": lo})
            ok_c = bool(mem) and bool(comps) and all(
                len(c[3]) == 1 and c[2] == ("call", ("attr", c[3][0][0], "get_all_net_names"), (), ()) and not c[3][0][2]
                and tkey(c[3][0][1]) in (tkey(ctrl), tkey(ctrl2)) for c in comps)
            if bool(mem) and not comps:
                # the same list grown in a loop: names = []; for ctrl in <multinet controllers of the level>: names.append(ctrl.get_all_net_names())
                phis = [x for x in walk(coupled[0]) if x[0] == "phi"]
                ok_c = bool(phis)
                for ph in phis:
                    L_ = rr.loops.get(ph[1])
                    upd_ = L_["env"].get(ph[2]) if L_ else None
                    good = L_ is not None and tkey(L_["iter"]) in (tkey(ctrl), tkey(ctrl2)) and upd_ is not None and upd_[0] == "op" and upd_[1] == "++" \
                        and upd_[2][0] == "carried" and upd_[3] == ("list", (("call", ("attr", ("loop", ph[1], 0), "get_all_net_names"), (), ()),))
                    ok_c = ok_c and good
        ok = has_own and ok_c
    run.ob("relevant_nets|own-or-coupled", ok,
           "a net is relevant iff one of its own controllers is in the level or a multinet-level controller of the level names it "
           "(all names returned by get_all_net_names)", run.where(rn, rn.node), detail=detail)
    run.note("net_initialization_multinet aggregates with max(); at that point every member has either converged or raised, recorded as a note")
    run.floor(4)


def r20_5(run):
    from .c13 import r13_1
    r13_1(run)


def r20_6(run):
    """the driver recalculates after a control step exactly the member nets a coupling controller names (get_all_net_names);
    the names it returns must therefore be exactly the member nets its control_step / write_to_net read from or write to --
    a net that is written but not named keeps the results of the previous calculation"""
    from ..arrnf import ANF, C, walk
    ix = run.index
    n = 0
    for ci in ix.module(MC).classes.values():
        if "get_all_net_names" not in ci.methods:
            continue
        n += 1
        g_ = ci.methods["get_all_net_names"]
        run.analysed(g_)
        r = ANF(ix, g_).run()
        rets = r.returns()
        named = None
        if len(rets) == 1 and rets[0].value[0] in ("list", "tuple"):
            named = {x[2] for x in rets[0].value[1] if x[0] == "attr" and x[1] == ("n", "self")}
            if len(named) != len(set(rets[0].value[1])) and len(rets[0].value[1]) != len(named):
                pass
        used = set()
        for mn in ("control_step", "write_to_net", "is_converged", "initialize_control", "finalize_control"):
            m = ci.methods.get(mn)
            if m is None:
                continue
            run.analysed(m)
            rm = ANF(ix, m).run()
            for e in rm.events:
                ts = [e.value] if e.kind in ("store", "return", "raise") else ([e.term] if e.kind == "call" else [])
                if e.kind == "store":
                    ts += [e.base] + list(e.index)
                for tr in rm.tries:
                    pass
                for t in ts:
                    for x in walk(t):
                        if x[0] == "idx" and len(x[2]) == 1 and x[2][0][0] == "attr" and x[2][0][1] == ("n", "self") \
                                and x[1][0] == "idx" and x[1][2] == (C("nets"),):
                            used.add(x[2][0][2])
            for tr in rm.tries:
                for h in tr["handlers"]:
                    for v in h["env"].values():
                        for x in walk(v):
                            if x[0] == "idx" and len(x[2]) == 1 and x[2][0][0] == "attr" and x[2][0][1] == ("n", "self") \
                                    and x[1][0] == "idx" and x[1][2] == (C("nets"),):
                                used.add(x[2][0][2])
        run.ob("%s|names-all-nets-it-touches" % ci.name, named is not None and bool(used) and used == named,
               "%s.get_all_net_names returns exactly the member nets its control step reads or writes (%s)" % (ci.name, sorted(used)),
               run.where(g_, g_.node), detail="named: %s" % (sorted(named) if named is not None else None))
    run.ob("coupling-controllers-found", n >= 3, "controllers with get_all_net_names: %d" % n, MC)
    run.floor(4)


def r20_7(run):
    """controller placement: the controllers of the multinet and of its member nets are ordered together; their tables are
    combined by column label.  Stacking the raw `.values` of several tables under the column labels of one of them assumes that
    all tables have the same columns -- a member table with an extra column (pandapower's controllers add one) then makes every
    multinet without a multinet-level controller fail"""
    from ..arrnf import ANF, contains, show as tshow, walk
    ix = run.index
    f = ix.func(MRC + ".get_controller_order_multinet")
    run.analysed(f)
    r = ANF(ix, f).run()
    rets = [e for e in r.returns() if e.value[0] == "call"]
    stacked = []
    for e in r.events:
        t = e.term if e.kind == "call" else getattr(e, "value", None)
        if t is None:
            continue
        for x in walk(t):
            if x[0] == "call" and x[1] == ("x", "pandas.DataFrame") and x[2] and any(
                    y[0] == "call" and y[1] in (("x", "numpy.concatenate"), ("x", "numpy.vstack")) for y in walk(x[2][0])) \
                    and dict(x[3]).get("columns") is not None:
                stacked.append(x)
    run.ob("controller-order|tables-combined-by-label", not stacked,
           "the controller tables of the multinet and its members are combined by column label (pd.concat of the tables), not by "
           "stacking their values under the columns of one table", run.where(f, f.node),
           detail=tshow(stacked[0])[:200] if stacked else None)
    used = any(c.fn[0] == "x" and c.fn[1].endswith("get_controller_order") for c in r.calls())
    run.ob("controller-order|delegates-to-pandapower", used, "the combined table is ordered by pandapower's get_controller_order", run.where(f, f.node))
    run.floor(2)


def r20_8(run):
    """the controller tables of the member nets are combined with the multinet's own table and cast to the multinet's column
    types (get_controller_order_multinet); the two table declarations must therefore agree column by column -- a narrower type on
    the multinet side (an integer `order`) silently changes the order and level in which coupled controllers run"""
    from ..arrnf import ANF, walk, show as tshow
    ix = run.index

    def schema(fi):
        r = ANF(ix, fi).run()
        best = None
        for e in r.events:
            for t in ([e.term] if e.kind == "call" else [getattr(e, "value", ())]):
                for x in walk(t):
                    if x[0] == "list" and x[1] and all(i_[0] == "tuple" and len(i_[1]) == 2 and i_[1][0][0] == "c" for i_ in x[1]) \
                            and any(i_[1][0] == ("c", "order") for i_ in x[1]):
                        best = {i_[1][0][1]: tshow(i_[1][1]) for i_ in x[1]}
        return best
    fm = ix.func("pandapipes.multinet.multinet.get_default_multinet_structure")
    fn_ = ix.func("pandapipes.pandapipes_net.add_default_components")
    run.analysed(fm)
    run.analysed(fn_)
    a, b = schema(fm), schema(fn_)
    if a is None or b is None:
        raise AnalysisError("unrecognised shape: controller table declarations not found (multinet: %s, net: %s)" % (a is not None, b is not None))
    for col in sorted(set(a) | set(b)):
        run.ob("controller-schema|%s" % col, a.get(col) == b.get(col),
               "column %r of the controller table has the same type in a MultiNet (%s) and in a pandapipesNet (%s)" % (col, a.get(col), b.get(col)),
               run.where(fm, fm.node))
    run.floor(5)


def r20_9(run):
    """what the coupled time series reports per step: every member net's output writer gets the step's multinet-wide verdicts
    unchanged (shared with C13 R13.5) -- a per-net flag is only refreshed by a successful run, so a step in which one member diverged
    would be logged as converged by the others"""
    from .c13 import r13_5
    r13_5(run)


RULES = [("R20.1", r20_1), ("R20.2", r20_2), ("R20.3", r20_3), ("R20.4", r20_4), ("R20.5", r20_5), ("R20.6", r20_6), ("R20.7", r20_7), ("R20.8", r20_8), ("R20.9", r20_9)]


def r20_10(run):
    """what a control run steps is decided by the controller tables at the time of the call: prepare_run_ctrl of the multinet derives
    `level` and `controller_order` from the multinet on every call and sets `errors`; none of these stores depends on what the
    ctrl_variables dictionary already holds (a dictionary handed in again -- run_control fills the caller's dictionary in place -- must
    not bring back the controller order of an earlier run: controllers added since are never stepped, dropped ones still write)."""
    from ..arrnf import ANF, C, contains, show as tshow, walk
    ix = run.index
    f = ix.func("pandapipes.multinet.control.run_control_multinet.prepare_run_ctrl")
    run.analysed(f)
    ps = f.params()
    if len(ps) < 2:
        raise AnalysisError("prepare_run_ctrl(multinet, ctrl_variables, ...) expected")
    mn, cv = ("n", ps[0]), ("n", ps[1])
    r = ANF(ix, f, strip=False).run()
    for k in ("level", "controller_order", "errors"):
        st = [e for e in r.stores() if e.index == (C(k),)]
        if not st:
            run.ob("prepare_run_ctrl|%s|set-on-every-call" % k, False, "prepare_run_ctrl stores ctrl_variables[%r]" % k, run.where(f, f.node))
            continue
        bad = []
        for e in st:
            for c_, _p in e.cond:
                # `ctrl_variables is None` only decides which dictionary is filled; any other look into it makes the store depend on it
                if contains(c_, cv) and not (c_[0] == "cmp" and c_[1] in ("is", "is not", "==", "!=") and C(None) in c_[2:4]):
                    bad.append(tshow(c_)[:80])
        from_net = k == "errors" or all(contains(e.value, mn) for e in st)
        run.ob("prepare_run_ctrl|%s|set-on-every-call" % k, not bad and from_net,
               "ctrl_variables[%r] is derived anew on every call (no test on what the dictionary already holds)" % k,
               run.where(f, st[0].node), detail="; ".join(bad) if bad else None)
    run.floor(3)


RULES.append(("R20.10", r20_10))

EXPLANATION += (' ' + '(R20.11, shared with C13 R13.3) pipeflow resets net.converged before anything can raise, so the coupled run -- which derives the verdict of a '
                'member net from that flag -- never reads the verdict of an earlier calculation.')


def r20_11(run):
    """the coupled run equals the decoupled calculation: run_control_multinet takes the convergence of each member net from
    net.converged.  pipeflow therefore resets the flag before the connectivity check (which may raise before any solver stage runs);
    a stale True would let the multinet be reported converged next to NaN results -- shared with C13 R13.3."""
    from .c13 import r13_3
    r13_3(run)


RULES.append(("R20.11", r20_11))
