"""C15 -- saving and loading a network loses nothing (structural part).

 R15.1 serialisable state: every JSONSerializableClass of the package stores JSON-native state, or excludes the
       attribute and restores it in a matching to_dict / from_dict pair
 R15.2 symmetry of the storage paths: encryption, geodata transforms, dropped keys, decoder arms, module changes,
       conversion of member nets
 R15.3 format conversion renames onto columns the components define
"""
import ast

from ..astutil import U, assignments, calls, callee_name, const_str, own_walk
from ..source import AnalysisError

IO = "pandapipes.io.file_io"
IU = "pandapipes.io.io_utils"
CF = "pandapipes.io.convert_format"

EXPLANATION = (
    '(R15.1) all subclasses of JSONSerializableClass defined in the package are enumerated; every attribute they assign '
    '(self.x = ..., including through update_/init_ helpers) is classified from its defining expression: literals, '
    'parameters, arrays, numbers, strings and other serialisable objects are JSON-native, results of interp1d / np.poly1d'
    ' / np.polyint / interpolation_function are not. A non-native attribute must be listed in json_excludes AND the class'
    ' must define to_dict and from_dict such that the keys to_dict adds are the keys from_dict consumes and from_dict '
    'rebuilds the attribute. (R15.2) to_json encrypts after dumping and from_json_string decrypts before loading, '
    'from_json forwards the key; to_pickle/from_pickle use the same geodata table lists; the net encoder drops exactly '
    "the keys starting with '_'; the decoder registry has an arm for every class the encoder writes a signature for "
    '(pandapipesNet, MultiNet, serialisable classes, component classes); MODULE_CHANGES targets exist; member nets of a '
    'MultiNet are converted individually. (R15.3) every column that convert_format renames to is a column of the '
    "component's get_component_input. (R15.4) loading runs convert_format on every file, so for a net of the current "
    'format it must be the identity: every store into the net that precedes its `format_version >= current` return (with '
    'the helper steps inlined) is guarded by the *absence* of the key it sets (`k not in net`, `not hasattr(net, k)`, '
    '`net.get(k) is None`), never by a test on the value, and add_default_components is called without overwrite. (R15.7)'
    ' the isinstance hook handed to the encoder excepts only the pandapipes net classes and delegates every other object '
    "to pandapower's isinstance_partial (which keeps tuples tagged). (R15.6) custom to_dict/from_dict pairs agree "
    'unconditionally: to_dict never removes an entry from the dictionary it returns and from_dict never invents a value '
    '(setdefault / constant fallback) the writer did not store. (R15.5) a to_dict that copies private attributes out of a'
    " library object (scipy's interp1d.__dict__) converts them to JSON-native values explicitly (.item(), .tolist(), "
    'float() ...) because private state has no type contract. (R15.8) the from_dict classmethods of the std-type classes '
    'set attributes of the restored object only from the stored dictionary or under an absence test (not hasattr / key '
    'not in d); an unconditional store of a constant (sector reset to ALL) is a restored object that differs from the '
    'saved one. (R15.9) loading converts, and converting calls add_new_component for every default component: '
    'net[<table>] is written (item store or net.update) only under path conditions that are unsatisfiable together with '
    '`table in net` and `not overwrite` (propositional check). Not decided: equality of a loaded net with the original '
    "(runtime; pandapower's encoder/decoder are trusted).")
ASSUMPTIONS = ["pandapower's PPJSONEncoder/PPJSONDecoder round-trip JSON-native values, numpy arrays, pandas objects and registered classes",
               "user-defined classes are outside the tree"]
TECHNIQUE = "class-attribute provenance classification, writer/reader key-table agreement, registry agreement"
EXPLANATION += (' ' + '(R15.10) in the functions reachable from convert_format (they run on every load) no isinstance test discriminates net.<attr> / net[<key>] against an Enum class of the package: Enum members come back from JSON as their values.')

NON_NATIVE_CALLS = {"interp1d", "poly1d", "polyint", "interpolation_function", "partial"}


def _serialisable_classes(ix):
    out = []
    for c in ix.all_classes():
        if c.module.startswith("pandapipes") and (any("JSONSerializableClass" in b or b in ("Controller",) for b in ix.external_bases(c))
                                                  or any(cc.name != c.name and any("JSONSerializableClass" in b or b == "Controller" for b in ix.external_bases(cc))
                                                         for cc in ix.mro(c))):
            out.append(c)
    return sorted(out, key=lambda c: c.qualname)


def _non_native(ix, fi, expr, depth=0):
    """name of the non-native constructor the value of expr comes from, or None"""
    if depth > 4:
        return None
    if isinstance(expr, ast.Call):
        nm = callee_name(expr)
        if nm in NON_NATIVE_CALLS:
            return nm
        return None
    if isinstance(expr, ast.Lambda):
        return "lambda"
    if isinstance(expr, ast.Name):
        for _, v, pos in assignments(fi.node, expr.id):
            r = _non_native(ix, fi, v, depth + 1) if pos is None else None
            if r:
                return r
    return None


def _excludes(ix, ci):
    out = set()
    for c in ix.mro(ci):
        if "json_excludes" in c.attrs:
            for n in ast.walk(c.attrs["json_excludes"]):
                if isinstance(n, ast.Constant) and isinstance(n.value, str):
                    out.add(n.value)
    return out


def _own_method(ix, ci, name):
    for c in ix.mro(ci):
        if name in c.methods:
            return c.methods[name]
    return None


def r15_1(run):
    ix = run.index
    classes = _serialisable_classes(ix)
    run.ob("serialisable-classes-found", len(classes) >= 10, "JSON-serialisable classes of the package: %s" % [c.name for c in classes], "src/pandapipes")
    for ci in classes:
        attrs = {}
        for m in ci.methods.values():
            for n in own_walk(m.node):
                if isinstance(n, ast.Assign):
                    for t in n.targets:
                        if isinstance(t, ast.Attribute) and isinstance(t.value, ast.Name) and t.value.id in ("self", "obj", "int_st", "reg_st") \
                                and m.name not in ("from_dict",):
                            attrs.setdefault(t.attr, []).append((m, n))
        excl = _excludes(ix, ci)
        for a, sites in sorted(attrs.items()):
            kinds = {(_non_native(ix, m, n.value)) for m, n in sites}
            kinds.discard(None)
            w = run.where(sites[0][0], sites[0][1])
            if not kinds:
                run.ob("%s|%s|native" % (ci.name, a), True, "attribute %s holds JSON-native state" % a, w)
                continue
            td, fd = _own_method(ix, ci, "to_dict"), _own_method(ix, ci, "from_dict")
            custom = td is not None and fd is not None
            restored = False
            keys_w, keys_r = set(), set()
            if custom:
                for n in ast.walk(td.node):
                    if isinstance(n, ast.Call) and callee_name(n) == "update" and n.args:
                        d = n.args[0]
                        if isinstance(d, ast.Dict):
                            keys_w |= {const_str(k) for k in d.keys if const_str(k)}
                        elif isinstance(d, ast.DictComp):
                            tk_ = _table_keys(ix, ci, d.generators[0].iter)
                            keys_w |= tk_ if tk_ is not None else {"<unknown table:%s>" % U(d.generators[0].iter)}
                    if isinstance(n, ast.Assign) and isinstance(n.targets[0], ast.Subscript) and const_str(n.targets[0].slice):
                        keys_w.add(const_str(n.targets[0].slice))
                # the same on terms: item stores with a constant key, whatever loop / update / comprehension produced them
                try:
                    from ..arrnf import ANF as _ANF
                    for e_ in _ANF(ix, td).run().stores():
                        if len(e_.index) == 1 and e_.index[0][0] == "c" and isinstance(e_.index[0][1], str) and not e_.index[0][1].startswith("."):
                            keys_w.add(e_.index[0][1])
                except AnalysisError:
                    pass
                for n in ast.walk(fd.node):
                    if isinstance(n, ast.Subscript) and isinstance(n.ctx, ast.Load) and U(n.value) == "d" and const_str(n.slice):
                        keys_r.add(const_str(n.slice))
                    if isinstance(n, ast.Compare) and any(isinstance(o, (ast.In, ast.NotIn)) for o in n.ops) \
                            and _table_keys(ix, ci, n.comparators[0]) is not None:
                        keys_r |= _table_keys(ix, ci, n.comparators[0])
                    if isinstance(n, ast.Assign):
                        for t in n.targets:
                            if (isinstance(t, ast.Attribute) and t.attr == a) or (isinstance(t, ast.Subscript) and const_str(t.slice) == a):
                                restored = True
            ok = a in excl and custom and restored and keys_w and keys_w == keys_r
            run.ob("%s|%s|non-native-handled" % (ci.name, a), bool(ok),
                   "attribute %s holds a %s object (not JSON-native): it is excluded from the generic dump and a matching "
                   "to_dict/from_dict pair stores and rebuilds it" % (a, "/".join(sorted(kinds))), w,
                   detail="excluded=%s custom pair=%s restored=%s keys written=%s read=%s" % (a in excl, custom, restored, sorted(keys_w), sorted(keys_r)))
    run.floor(30)


def _table_keys(ix, ci, e):
    """keys of a class-level key table used as `self.X`, `cls.X`, `X.keys()` or (substituted at its use) as a dict display"""
    if isinstance(e, ast.Call) and isinstance(e.func, ast.Attribute) and e.func.attr == "keys" and not e.args:
        e = e.func.value
    if isinstance(e, ast.Attribute) and isinstance(e.value, ast.Name) and e.value.id in ("self", "cls"):
        for kc in ix.mro(ci):
            if e.attr in kc.attrs:
                e = kc.attrs[e.attr]
                break
    if isinstance(e, ast.Dict) and all(const_str(k) is not None for k in e.keys):
        return {const_str(k) for k in e.keys}
    if isinstance(e, (ast.Tuple, ast.List)) and e.elts and all(const_str(k) is not None for k in e.elts):
        return {const_str(k) for k in e.elts}         # `k in <table>` arrives as `k in (<keys of the table>)`
    return None


def _table_attr(e):
    """name of the class-level key table in `self.X`, `cls.X`, `self.X.keys()`, `cls.X.keys()` (None otherwise)"""
    if isinstance(e, ast.Call) and isinstance(e.func, ast.Attribute) and e.func.attr == "keys" and not e.args:
        e = e.func.value
    if isinstance(e, ast.Attribute) and isinstance(e.value, ast.Name) and e.value.id in ("self", "cls"):
        return e.attr
    return None


def _sh(ok, what):
    if not ok:
        raise AnalysisError("unrecognised shape: " + what)


def r15_2(run):
    from ..arrnf import ANF, C, contains, key as tkey, match, norm_cond, show as tshow, walk
    ix = run.index
    tj = ix.func(IO + ".to_json")
    run.analysed(tj)
    ps = tj.params()
    r = ANF(ix, tj, param_alias={ps[0]: "net", ps[2]: "encryption_key"}).run()
    dumps = [c for c in r.calls() if c.fn == ("x", "json.dumps")]
    _sh(len(dumps) == 1 and dumps[0].args[:1] == (("n", "net"),), "to_json dumps the net once")
    J = dumps[0].term
    kw = dict(dumps[0].kw)
    run.ob("to_json|pandapipes-encoder", kw.get("cls", ("?",))[0] == "x" and kw["cls"][1].endswith("PPJSONEncoder"),
           "the net is dumped with pandapower's JSON encoder (which dispatches to the to_serializable hooks)", run.where(tj, dumps[0].node))
    ifn = kw.get("isinstance_func")
    run.ob("to_json|pandapipes-isinstance-hook", ifn is not None and ifn != C(None),
           "the encoder is told not to treat pandapipes nets as plain dicts", run.where(tj, dumps[0].node))
    key_set = ("cmp", "is not", ("n", "encryption_key"), C(None))
    enc = [c for c in r.calls() if c.fn[0] in ("x", "f") and c.fn[1].endswith("encrypt_string")]
    want = ("ite", key_set, enc[0].term, J) if len(enc) == 1 else None
    outs = [e.value for e in r.returns() if e.value != C(None)] + \
           [c.args[0] for c in r.calls() if c.fn[0] == "attr" and c.fn[2] == "write" and c.args]
    ok = want is not None and enc[0].args == (J, ("n", "encryption_key")) and len(outs) >= 2 and all(tkey(o) == tkey(want) for o in outs)
    run.ob("to_json|encrypt-after-dump", ok,
           "every output of to_json (returned string, written file) is the dump, encrypted exactly when a key is given", run.where(tj, tj.node),
           detail="; ".join(tshow(o)[:80] for o in outs))
    fj = ix.func(IO + ".from_json_string")
    run.analysed(fj)
    ps = fj.params()
    r = ANF(ix, fj, param_alias={ps[0]: "json_string"}).run()
    loads = [c for c in r.calls() if c.fn == ("x", "json.loads")]
    _sh(len(loads) == 1 and loads[0].args, "from_json_string decodes once")
    dec = [c for c in r.calls() if c.fn[0] in ("x", "f") and c.fn[1].endswith("decrypt_string")]
    want = ("ite", key_set, dec[0].term, ("n", "json_string")) if len(dec) == 1 else None
    run.ob("from_json_string|decrypt-before-load", want is not None and dec[0].args == (("n", "json_string"), ("n", "encryption_key"))
           and tkey(loads[0].args[0]) == tkey(want),
           "the string that is decoded is the input, decrypted exactly when a key is given", run.where(fj, loads[0].node))
    kw = dict(loads[0].kw)
    reg = kw.get("registry_class")
    run.ob("from_json_string|pandapipes-registry", kw.get("cls", ("?", ""))[1].endswith("PPJSONDecoder") and reg is not None
           and reg == ("f", IU + ".FromSerializableRegistryPpipe"),
           "decoding uses pandapower's decoder with the pandapipes registry", run.where(fj, loads[0].node))
    rets = r.returns()
    run.ob("from_json_string|returns-decoded-net", len(rets) >= 1 and all(tkey(e.value) == tkey(loads[0].term) for e in rets),
           "the decoded object is what is returned", run.where(fj, fj.node))
    f2 = ix.func(IO + ".from_json")
    run.analysed(f2)
    r2 = ANF(ix, f2).run()
    cs = [c for c in r2.calls() if c.fn == ("f", fj.qualname)]
    ok = len(cs) == 1
    if ok:
        a_ = dict(zip(fj.params(), cs[0].args))
        a_.update(dict(cs[0].kw))
        ok = all(a_.get(k) == ("n", k) for k in ("convert", "encryption_key", "ignore_unknown_objects"))
    run.ob("from_json|forwards-options", ok, "from_json forwards convert, encryption_key and ignore_unknown_objects", run.where(f2, f2.node))
    # member nets of a multinet: every member net object is converted itself
    conv = [c for c in r.calls() if c.fn[0] in ("f", "x") and c.fn[1].endswith("convert_format") and c.loops]
    ok = len(conv) == 2
    if ok:
        lid = conv[0].loops[-1]
        it = r.loops[lid]["iter"]
        # loops over a mapping are normalised to `for k in d.keys(): v = d[k]` (items() / values() / keys()+subscript alike)
        vals = it[0] == "call" and it[1][0] == "attr" and it[1][2] == "keys" and contains(it[1][1], C("nets")) \
            and contains(it[1][1], loads[0].term)
        member = ("idx", it[1][1], (("loop", lid, 0),)) if vals else None
        ok = vals and all(c.args == (member,) for c in conv) and {c.fn[1] for c in conv} == {CF + ".convert_format", "pandapower.convert_format.convert_format"} \
            or (vals and all(c.args == (member,) for c in conv) and len({c.fn[1] for c in conv}) == 2)
    run.ob("from_json_string|member-nets-converted", ok,
           "with convert=True every member net of a MultiNet is converted itself (iteration over the nets, not their names)", run.where(fj, fj.node))
    top = [c for c in r.calls() if c.fn == ("f", CF + ".convert_format") and not c.loops]
    run.ob("from_json_string|net-converted", len(top) == 1 and top[0].args == (loads[0].term,)
           and any(contains(c_, ("n", "convert")) for c_, p_ in top[0].cond),
           "with convert=True a loaded pandapipes net is passed through convert_format", run.where(fj, fj.node))
    # pickle
    tp, fp = ix.func(IO + ".to_pickle"), ix.func(IO + ".from_pickle")
    ra, rb = ANF(ix, tp).run(), ANF(ix, fp).run()
    a = [c.args[1:] for c in ra.calls() if c.fn[0] == "x" and c.fn[1].endswith("to_dict_with_coord_transform")]
    b_ = [c.args[1:] for c in rb.calls() if c.fn[0] == "x" and c.fn[1].endswith("transform_net_with_df_and_geo")]
    run.ob("pickle|same-geodata-lists", len(a) == 1 and a == b_ and len(a[0]) == 2,
           "to_pickle and from_pickle transform the same geodata tables: %s" % ([tshow(x) for x in a[0]] if a else None), run.where(tp, tp.node))
    # encoder: dropped keys
    from ..index import FunctionInfo
    mi = ix.module(IU)
    for n in mi.tree.body:
        if isinstance(n, ast.FunctionDef) and n.name == "json_net":
            fi = FunctionInfo(IU, n.name, n)
            rj = ANF(ix, fi).run()
            p0 = fi.params()[0]
            ok = False
            for e in rj.returns():
                v = e.value
                if v[0] == "call" and v[1][0] in ("x", "f") and v[1][1].endswith("with_signature") and len(v[2]) == 2 and v[2][0] == ("n", p0):
                    dc = v[2][1]
                    # {k: obj[k] for k in obj.keys() if not k.startswith("_")}   (normal form of the loop over obj.items())
                    if dc[0] == "comp" and dc[1] == "DictComp" and dc[2] == ("kv", ("b", 0), ("idx", ("n", p0), (("b", 0),))) and len(dc[3]) == 1:
                        bv, it, ifs = dc[3][0]
                        keep = ("u", "not", ("call", ("attr", ("b", 0), "startswith"), (C("_"),), ()))
                        ok = it == ("call", ("attr", ("n", p0), "keys"), (), ()) and ifs == (keep,)
            for d_ in (n.decorator_list or [None]):         # one obligation per registered class (the registrations may be stacked)
                dec = U(d_)[:40] if d_ is not None else "-"
                run.ob("json_net|drops-internal-keys-only|%s" % dec, ok,
                       "the net encoder writes every entry of the net except exactly the keys starting with '_'", "%s:%d" % (ix.sp.relpath(IU), n.lineno))
    # decoder arms
    reg = ix.cls(IU + ".FromSerializableRegistryPpipe")
    arms = {}
    for m in reg.methods.values():
        for d in m.node.decorator_list:
            if isinstance(d, ast.Call) and "register" in U(d.func):
                arms[m.name] = {k.arg: const_str(k.value) for k in d.keywords}
    run.ob("decoder|net-arms", arms.get("pandapipesNet", {}).get("class_name") == "pandapipesNet" and arms.get("MultiNet", {}).get("class_name") == "MultiNet",
           "the decoder has arms for pandapipesNet and MultiNet", run.where(reg, reg.node), detail=str(arms))
    rest = reg.methods.get("rest")
    ok_ser = ok_comp = False
    if rest is not None:
        rr = ANF(ix, rest).run()

        def sub_of(c_, name):
            return any(x[0] == "call" and x[1] == ("x", "builtins.issubclass") and len(x[2]) == 2 and x[2][1][0] in ("f", "x")
                       and x[2][1][1].endswith(name) for x in walk(c_))
        for e in rr.returns():
            v = e.value
            if v[0] == "call" and v[1][0] == "attr" and v[1][2] == "from_dict" and any(p_ and sub_of(c_, "JSONSerializableClass") for c_, p_ in e.cond):
                cls_t = v[1][1]
                ok_ser = any(x[0] == "call" and x[1] == ("x", "builtins.issubclass") and x[2][0] == cls_t for c_, p_ in e.cond for x in walk(c_))
            if any(p_ and sub_of(c_, ".Component") for c_, p_ in e.cond):
                ok_comp = any(x[0] == "call" and x[1] == ("x", "builtins.issubclass") and x[2][0] == v for c_, p_ in e.cond for x in walk(c_))
    run.ob("decoder|serialisable-and-component-classes", ok_ser and ok_comp,
           "the generic arm rebuilds serialisable objects through <class>.from_dict and returns component classes themselves",
           run.where(reg, reg.node))
    enc = [n for n in mi.tree.body if isinstance(n, ast.FunctionDef) and n.name == "json_component"]
    ok = False
    if len(enc) == 1:
        fe = FunctionInfo(IU, "json_component", enc[0])
        re_ = ANF(ix, fe).run()
        p0 = fe.params()[0]
        from ..arrnf import norm_cond as _nc

        def is_component_test(c_, p_):
            c_, p_ = _nc(c_, p_)
            return p_ and c_[0] == "call" and c_[1] == ("x", "builtins.issubclass") and len(c_[2]) == 2 and c_[2][0] == ("n", p0) \
                and c_[2][1][0] in ("f", "x") and c_[2][1][1].endswith(".Component")
        ok = any(e.value[0] == "call" and e.value[1][1].endswith("with_signature") and any(is_component_test(c_, p_) for c_, p_ in e.cond)
                 for e in re_.returns() if e.value[0] == "call" and e.value[1][0] in ("x", "f"))
    run.ob("encoder|component-classes", ok,
           "component classes (net.component_list) are written with a signature", ix.sp.relpath(IU))
    mc = ix.const(IU, "MODULE_CHANGES")
    for cname, modname in sorted(mc.items()):
        ok = ix.has_module(modname) and cname in ix.module(modname).classes
        run.ob("module-change|%s" % cname, ok, "moved class %s is defined in %s" % (cname, modname), ix.sp.relpath(IU))
    run.floor(12)


def r15_3(run):
    from ..arrnf import ANF, C, show as tshow, walk
    ix = run.index
    comps = {ix.method_const(c, "table_name"): [x[0] for x in (ix.method_const(c, "get_component_input") or [])] for c in ix.components()}
    n_ren = 0
    for fname in ("_rename_columns", "_rename_pipe_columns", "_rename_valve_columns", "_rename_heat_exchanger_columns"):
        g = ix.func(CF + "." + fname)
        run.analysed(g)
        r = ANF(ix, g, param_alias={g.params()[0]: "net"}).run()
        per = {}
        for c in r.calls():
            if c.fn[0] == "attr" and c.fn[2] == "rename" and c.fn[1][0] == "idx" and c.fn[1][1] == ("n", "net") and c.fn[1][2][0][0] == "c":
                tbl = c.fn[1][2][0][1]
                cols = dict(c.kw).get("columns")
                if cols is None or cols[0] != "dict" or not all(k_[0] == "c" and v_[0] == "c" for k_, v_ in cols[1]):
                    raise AnalysisError("%s: rename with a computed column mapping: %s" % (fname, tshow(c.term)[:120]))
                for k_, v_ in cols[1]:
                    # a rename that is applied only if the old column exists may name a column of a sibling component
                    guarded = any(x[0] == "cmp" and x[1] == "in" and x[2] == k_ and p_ for c_, p_ in c.cond for x in walk(c_))
                    if guarded and v_[1] not in comps.get(tbl, []) and any(v_[1] in cs_ for cs_ in comps.values()):
                        continue
                    per.setdefault(tbl, {})[k_[1]] = v_[1]
        for tbl, mp in sorted(per.items()):
            n_ren += len(mp)
            bad = sorted(v for v in mp.values() if v not in comps.get(tbl, []))
            run.ob("rename|%s|%s" % (fname, tbl), tbl in comps and not bad,
                   "columns renamed to for %s (%s) are input columns of the component" % (tbl, sorted(set(mp.values()))), run.where(g, g.node),
                   detail="not an input column: %s" % bad if bad else None)
        if fname == "_rename_valve_columns":
            valve = next(c for c in ix.components() if ix.method_const(c, "table_name") == "valve")
            ft = list(ix.method_const(valve, "from_to_node_cols"))
            mp = per.get("valve", {})
            run.ob("rename|valve|from_to_node_cols", [mp.get("from_junction"), mp.get("to_junction")] == ft and
                   any(s_.base == ("idx", ("n", "net"), (C("valve"),)) and s_.index == (C("et"),) and s_.value == C("ju") for s_ in r.stores()),
                   "old junction-junction valves get the class's reference columns and et = 'ju'", run.where(g, g.node))
    run.ob("renames-found", n_ren >= 12, "column renames analysed: %d" % n_ren, CF)
    a = ix.func(CF + "._add_missing_columns")
    ra = ANF(ix, a, param_alias={a.params()[0]: "net"}).run()
    ok = "outer_diameter_mm" in comps["pipe"] and any(s_.base == ("idx", ("n", "net"), (C("pipe"),)) and s_.index == (C("outer_diameter_mm"),)
                                                         and s_.value == C("nan") for s_ in ra.stores())
    run.ob("missing-column|pipe.outer_diameter_mm", ok, "the added pipe column exists in the component and is filled with NaN", run.where(a, a.node))
    cf = ix.func(CF + ".convert_format")
    order = [callee_name(c) for c in calls(cf.node)]
    run.ob("convert_format|steps", [x for x in order if x in ("_add_sector", "add_default_components", "_rename_columns", "_add_missing_columns", "_rename_attributes")]
           == ["_add_sector", "add_default_components", "_rename_columns", "_add_missing_columns", "_rename_attributes"],
           "convert_format adds the sector and default components, then renames and completes columns", run.where(cf, cf.node))
    run.floor(7)


def r15_4(run):
    """loading runs convert_format on every file: for a net written by the current version it must be the identity.  Everything
    convert_format does before its `format_version >= current` return has to be guarded by the *absence* of what it adds (a test
    on the value can match a legitimate value, e.g. the sector 'None')"""
    from ..arrnf import ANF, C, base_of, key as tkey, norm_cond, show as tshow, walk
    ix = run.index
    cf = ix.func(CF + ".convert_format")
    run.analysed(cf)
    inl = {g.qualname for g in ix.module(CF).functions.values() if g.name != "convert_format"}
    ps = cf.params()
    r = ANF(ix, cf, inline=inl, param_alias={ps[0]: "net"}).run()
    rets = [e for e in r.events if e.kind == "return"]
    early = [e for e in rets if e.cond and any(x[0] == "cmp" and x[1] in (">=", "<=", "<", ">", "==") for c, _ in e.cond for x in walk(c))]
    run.ob("convert_format|early-return-for-current-format", len(early) >= 1 and early[0].value == ("n", "net"),
           "convert_format returns the net unchanged when its format version is current", run.where(cf, cf.node))
    if not early:
        return
    pre = [e for e in r.events if e.kind == "store" and e.seq < early[0].seq and tkey(base_of(e.base)) == tkey(("n", "net"))]
    run.ob("convert_format|pre-guard-stores-found", len(pre) >= 2, "stores executed for every loaded net: %d" % len(pre), run.where(cf, cf.node))
    for e in pre:
        k = e.index[0]
        if k[0] != "c":
            raise AnalysisError("convert_format stores under a computed key before the version guard: %s" % tshow(k))
        name = k[1]
        absent = False
        for c, pol in e.cond:
            c, pol = norm_cond(c, pol)
            if c[0] == "cmp" and c[1] == "in" and c[2] == C(name) and c[3] == ("n", "net") and not pol:
                absent = True
            if c[0] == "cmp" and c[1] == "not in" and c[2] == C(name) and c[3] == ("n", "net") and pol:
                absent = True
            if c[0] == "call" and c[1] == ("x", "builtins.hasattr") and c[2] == (("n", "net"), C(name)) and not pol:
                absent = True
            if c[0] == "cmp" and c[1] in ("is", "==") and C(None) in (c[2], c[3]) and pol and any(
                    x[0] == "call" and x[1] == ("attr", ("n", "net"), "get") and x[2][:1] == (C(name),) for x in (c[2], c[3])):
                absent = True
        run.ob("convert_format|only-adds-what-is-absent|%s" % name, absent,
               "net[%r] is set by convert_format only when the loaded net does not have it (so a net of the current format is "
               "returned as saved)" % name, run.where(cf, e.node),
               detail="conditions: %s" % "; ".join("%s%s" % ("" if p_ else "not ", tshow(c)[:100]) for c, p_ in e.cond))
    # add_default_components is called without overwrite
    adc = [c for c in r.calls() if c.fn[0] == "f" and c.fn[1].endswith(".add_default_components")]
    ok = len(adc) == 1 and dict(adc[0].kw).get("overwrite", adc[0].args[1] if len(adc[0].args) > 1 else C(False)) == C(False)
    run.ob("convert_format|default-components-not-overwritten", ok, "existing component tables are not overwritten on load", run.where(cf, cf.node))
    run.floor(5)


CONVERSIONS = {"item", "tolist", "float", "int", "str", "bool", "list"}


def _leaves(t):
    if isinstance(t, tuple) and t and t[0] == "ite" and len(t) == 4:
        return _leaves(t[2]) + _leaves(t[3])
    return [((), t)]


def r15_5(run):
    """state that a to_dict copies out of a foreign (library) object's private attributes has no type contract: it is
    JSON-encodable only if the method normalises it explicitly (.item() / .tolist() / float() ...) before returning.
    Decided on the terms of the method: a read `<obj>.__dict__["_name"]` / `vars(<obj>)["_name"]` of an object other than self
    (also through a key table, whose comprehension arrives expanded), and a store of a conversion call under the same key"""
    from ..arrnf import ANF, C, walk, key as tkey
    ix = run.index
    n = 0
    for ci in _serialisable_classes(ix):
        td = _own_method(ix, ci, "to_dict")
        if td is None:
            continue
        run.analysed(td)
        r = ANF(ix, td, strip=False).run()
        private = {}
        for e in r.events:
            for t in ([e.term] if e.kind == "call" else [getattr(e, "value", None)]):
                if t is None:
                    continue
                for x in walk(t):
                    if x[0] == "idx" and len(x[2]) == 1 and x[2][0][0] == "c" and isinstance(x[2][0][1], str) and x[2][0][1].startswith("_") \
                            and x[1][0] == "attr" and x[1][2] == "__dict__" and x[1][1] != ("n", "self"):
                        private.setdefault(x[2][0][1], e)
                    if x[0] == "comp" and any(y[0] == "attr" and y[2] == "__dict__" and y[1] != ("n", "self") for y in walk(x[2])):
                        raise AnalysisError("%s.to_dict copies foreign __dict__ entries over a key table that is not known at analysis time" % ci.name)
        for key_, ev in sorted(private.items()):
            n += 1
            conv = False
            for s_ in r.stores():
                if s_.index == (C(key_),):
                    for _c, leaf in _leaves(s_.value):
                        if leaf[0] == "call" and ((leaf[1][0] == "attr" and leaf[1][2] in CONVERSIONS)
                                                  or (leaf[1][0] == "x" and leaf[1][1].rsplit(".", 1)[-1] in CONVERSIONS)):
                            conv = True
            run.ob("%s|to_dict|private-foreign-state-normalised|%s" % (ci.name, key_), conv,
                   "%s.to_dict exports the private attribute %s of a library object; it is converted to a JSON-native value "
                   "before it is returned" % (ci.name, key_), run.where(td, ev.node))
    run.ob("foreign-private-exports-found", n >= 1, "to_dict methods exporting private library state: %d" % n, "src/pandapipes")
    run.floor(2)


def r15_6(run):
    """writer/reader agreement of custom to_dict/from_dict pairs is unconditional: to_dict never removes an entry it exports
    (no `del d[k]` / `d.pop(k)` on the returned dict, conditional or not) and from_dict never invents a value the writer did not
    store (no `setdefault` / constant default for a reconstruction argument) -- otherwise some object states are written
    without a field and read back with a different one"""
    from ..arrnf import ANF, roots, show as tshow, walk
    ix = run.index
    n = 0
    for ci in _serialisable_classes(ix):
        td, fd = _own_method(ix, ci, "to_dict"), _own_method(ix, ci, "from_dict")
        if td is None or fd is None:
            continue
        n += 1
        run.analysed(td)
        run.analysed(fd)
        r = ANF(ix, td).run()
        ret_roots = set()
        for e in r.returns():
            ret_roots |= roots(e.value)
        removed = [e for e in r.events if e.kind == "delete" and roots(e.target[1] if e.target[0] == "idx" else e.target) & ret_roots]
        removed += [c for c in r.calls() if c.fn[0] == "attr" and c.fn[2] in ("pop", "popitem", "clear") and roots(c.fn[1]) & ret_roots]
        run.ob("%s|to_dict|exports-unconditionally" % ci.name, not removed,
               "%s.to_dict never removes an entry from the dictionary it returns" % ci.name,
               run.where(td, removed[0].node if removed else td.node))
        r2 = ANF(ix, fd).run()
        invented = [c for c in r2.calls() if c.fn[0] == "attr" and c.fn[2] == "setdefault"]
        invented += [c for c in r2.calls() if c.fn[0] == "attr" and c.fn[2] == "get" and len(c.args) == 2 and c.args[1][0] == "c"
                     and c.args[1][1] is not None]
        run.ob("%s|from_dict|no-invented-defaults" % ci.name, not invented,
               "%s.from_dict rebuilds the object only from stored entries (no setdefault / constant fallback)" % ci.name,
               run.where(fd, invented[0].node if invented else fd.node),
               detail="; ".join(tshow(c.term)[:100] for c in invented))
    run.ob("custom-pairs-found", n >= 1, "classes with their own to_dict/from_dict pair: %d" % n, "src/pandapipes")
    run.floor(3)


def r15_7(run):
    """the type test handed to the JSON encoder refines pandapower's: pandapower's isinstance_partial also denies that a tuple is a
    list-like built-in (so tuples are written with a type tag and come back as tuples).  The pandapipes hook may add cases (its own
    net classes) but must delegate every other object to pandapower's hook with the same arguments"""
    from ..arrnf import ANF, norm_cond, show as tshow, walk
    ix = run.index
    f = ix.func(IU + ".isinstance_partial")
    run.analysed(f)
    ps = f.params()
    r = ANF(ix, f).run()
    rets = sorted(r.returns(), key=lambda e: e.seq)
    dele = [e for e in rets if e.value[0] == "call" and e.value[1][0] == "x" and e.value[1][1].startswith("pandapower") and e.value[1][1].endswith("isinstance_partial")
            and e.value[2] == tuple(("n", p_) for p_ in ps)]
    run.ob("isinstance_partial|delegates-to-pandapower", len(dele) == 1 and dele[0] is rets[-1],
           "objects that are not pandapipes nets are classified by pandapower's isinstance_partial(obj, cls)", run.where(f, f.node),
           detail="; ".join(tshow(e.value)[:80] for e in rets))
    special = [e for e in rets if e not in dele]
    ok = all(e.value == ("c", False) and e.cond and all(
        any(x[0] == "call" and x[1] == ("x", "builtins.isinstance") and x[2][0] == ("n", ps[0]) for x in walk(c_)) for c_, p_ in e.cond[-1:]) for e in special)
    run.ob("isinstance_partial|only-net-classes-excepted", ok and len(special) >= 1,
           "the only special cases are pandapipes net classes, which are not to be treated as plain dicts", run.where(f, f.node))
    # and it is this hook that to_json hands to the encoder
    tj = ix.func(IO + ".to_json")
    rt = ANF(ix, tj).run()
    d = [c for c in rt.calls() if c.fn == ("x", "json.dumps")]
    hook = dict(d[0].kw).get("isinstance_func") if d else None
    run.ob("to_json|uses-the-pandapipes-hook", hook == ("f", f.qualname), "to_json passes this hook as isinstance_func", run.where(tj, tj.node),
           detail=tshow(hook) if hook else None)
    run.floor(3)


def r15_8(run):
    """loading restores what was saved: a from_dict may *add* an attribute that an old file does not have (a migration, guarded by
    `not hasattr(obj, <name>)`), but it never replaces the value of an attribute that was stored -- a "default for invalid
    values" applied while loading changes the loaded object whenever the stored value is outside what the default's author
    thought of.  Every attribute assignment on the restored object in a from_dict of the package is therefore under an
    absence test of that attribute."""
    from ..arrnf import ANF, _facts_of, key as tkey, show as tshow
    ix = run.index
    n = 0
    for f in ix.all_functions():
        if f.name != "from_dict" or f.cls is None or ".test." in f.module:
            continue
        try:
            r = ANF(ix, f).run()
        except AnalysisError as ex:
            raise AnalysisError("unrecognised shape: %s: %s" % (f.qualname, ex))
        run.analysed(f)
        n += 1
        from ..arrnf import contains
        dpar = ("n", f.params()[1]) if len(f.params()) > 1 else None
        sets_ = []
        for e in r.events:
            if e.kind == "call" and e.fn == ("x", "builtins.setattr") and len(e.args) == 3 and e.args[1][0] == "c":
                sets_.append((e, e.args[0], e.args[1][1], e.args[2]))
            elif e.kind == "store" and len(e.index) == 1 and e.index[0][0] == "c" and isinstance(e.index[0][1], str) \
                    and e.index[0][1].startswith(".") and e.base[0] in ("call", "n") and e.base != ("n", "cls"):
                sets_.append((e, e.base, e.index[0][1][1:], e.value))
            elif e.kind == "store" and len(e.index) == 1 and e.index[0][0] == "c" and isinstance(e.index[0][1], str) \
                    and e.base[0] == "attr" and e.base[2] == "__dict__" and e.base[1] != ("n", "cls"):
                sets_.append((e, e.base[1], e.index[0][1], e.value))        # obj.__dict__["name"] = v  is  obj.name = v
        for e, obj, name, value in sets_:
            facts = _facts_of(e.cond, r) if e.cond else {}
            dct = ("attr", obj, "__dict__")
            absent = any(facts.get(tkey(a)) is False for a in (
                ("call", ("x", "builtins.hasattr"), (obj, ("c", name)), ()),
                ("cmp", "in", ("c", name), dct),
                ("cmp", "in", ("c", name), ("call", ("attr", dct, "keys"), (), ())),
                ("cmp", "in", ("c", name), ("call", ("x", "builtins.vars"), (obj,), ()))))
            # rebuilding an attribute from what was stored (the dictionary, other restored attributes) is restoring, not defaulting
            rebuilt = (dpar is not None and contains(value, dpar)) or contains(value, obj)
            run.ob("%s.from_dict|%s|restored-not-defaulted" % (f.cls.name, name), absent or rebuilt,
                   "%s.from_dict sets attribute %r from the stored data, or only where the loaded object does not have it"
                   % (f.cls.name, name), run.where(f, e.node),
                   detail="value %s under %s" % (tshow(value)[:80], [(tshow(c)[:80], p) for c, p in e.cond]))
        # the same for the stored dictionary itself: an entry of it is not replaced on its way to the constructor / to the base
        # class -- neither by a later key of a merged display ({**d, "k": v} lets "k": v win) nor by an unguarded item store
        if dpar is not None:
            from ..arrnf import walk as _walk, C as _C
            for e in r.events:
                for t in ([e.term] if e.kind == "call" else [getattr(e, "value", None)]):
                    if t is None:
                        continue
                    for x in _walk(t):
                        if x[0] == "dict" and any(k_ == _C("**") and v_ == dpar for k_, v_ in x[1]):
                            seen_spread = False
                            for k_, v_ in x[1]:
                                if k_ == _C("**") and v_ == dpar:
                                    seen_spread = True
                                elif seen_spread and k_[0] == "c" and not contains(v_, dpar):
                                    run.ob("%s.from_dict|%s|stored-entry-not-overridden" % (f.cls.name, k_[1]), False,
                                           "%s.from_dict hands the stored entries on unchanged (a key written after **%s replaces the stored value)"
                                           % (f.cls.name, dpar[1]), run.where(f, e.node), detail=tshow(x)[:120])
                if e.kind == "store" and e.base == dpar and len(e.index) == 1 and e.index[0][0] == "c" and not contains(e.value, dpar):
                    facts = _facts_of(e.cond, r) if e.cond else {}
                    absent = facts.get(tkey(("cmp", "in", e.index[0], dpar))) is False
                    run.ob("%s.from_dict|%s|stored-entry-not-overridden" % (f.cls.name, e.index[0][1]), absent,
                           "%s.from_dict replaces an entry of the stored dictionary only where it is absent" % f.cls.name, run.where(f, e.node),
                           detail=tshow(e.value)[:80])
    run.ob("from_dict-methods-scanned", n >= 2, "from_dict methods of the package scanned: %d" % n, "src/pandapipes")
    run.floor(2)


def _sat_with(conds, fixed):
    """is the conjunction of the path conditions satisfiable when the atoms in `fixed` ({term key: bool}) have those values?
    (propositional: and / or / not over opaque atoms; `x not in y` is not (x in y))"""
    import itertools
    from ..arrnf import key as tkey

    def norm(t):
        if t[0] == "cmp" and t[1] == "not in":
            return ("u", "not", ("cmp", "in", t[2], t[3]))
        if t[0] == "cmp" and t[1] == "is not":
            return ("u", "not", ("cmp", "is", t[2], t[3]))
        return t

    def atoms(t, acc):
        t = norm(t)
        if t[0] == "bool":
            for x in t[2]:
                atoms(x, acc)
        elif t[0] == "u" and t[1] == "not":
            atoms(t[2], acc)
        else:
            acc.add(tkey(t))
        return acc

    def ev(t, env):
        t = norm(t)
        if t[0] == "bool":
            vals = [ev(x, env) for x in t[2]]
            return all(vals) if t[1] == "and" else any(vals)
        if t[0] == "u" and t[1] == "not":
            return not ev(t[2], env)
        return env[tkey(t)]
    names = set()
    for c, _ in conds:
        atoms(c, names)
    free = sorted(names - set(fixed))
    if len(free) > 10:
        return True
    for vals in itertools.product((False, True), repeat=len(free)):
        env = dict(fixed)
        env.update(zip(free, vals))
        for k in names:
            env.setdefault(k, False)
        if all(ev(c, env) == pol for c, pol in conds):
            return True
    return False


def r15_9(run):
    """loading converts: convert_format -> add_default_components(net, overwrite=False) -> add_new_component for every default
    component.  A table that is already in the net must survive that: add_new_component writes net[<table>] (item store or
    net.update({<table>: ...})) only on paths where the table is absent or overwrite was asked for -- otherwise a loaded net comes back
    with an emptied element table"""
    from ..arrnf import ANF, key as tkey, roots, show as tshow
    ix = run.index
    f = ix.func("pandapipes.component_models.component_toolbox.add_new_component")
    run.analysed(f)
    ps = f.params()
    _sh = lambda ok, what: None if ok else (_ for _ in ()).throw(AnalysisError("unrecognised shape: " + what))
    _sh(len(ps) >= 3, "add_new_component(net, component, overwrite)")
    r = ANF(ix, f, param_alias={ps[0]: "net", ps[1]: "component", ps[2]: "overwrite"}).run()
    name = ("call", ("attr", ("n", "component"), "table_name"), (), ())
    present = tkey(("cmp", "in", name, ("n", "net")))
    fixed = {present: True, tkey(("n", "overwrite")): False}
    writes = []
    for e in r.stores():
        if e.index == (name,) and tkey(("n", "net")) in roots(e.base):
            writes.append(e)
    for c in r.calls():
        if c.fn[0] == "attr" and c.fn[2] == "update" and tkey(("n", "net")) in roots(c.fn[1]) and c.args and c.args[0][0] == "dict" \
                and any(tkey(k_) == tkey(name) for k_, _ in c.args[0][1]):
            writes.append(c)
    _sh(len(writes) >= 1, "add_new_component writes net[component.table_name()]")
    for i, e in enumerate(writes):
        ok = not _sat_with(e.cond, fixed)
        run.ob("add_new_component|existing-table-kept|%d" % i, ok,
               "net[<table>] is written only if the table is absent or overwrite is set", run.where(f, e.node),
               detail="path condition: %s" % [(tshow(c_)[:70], p_) for c_, p_ in e.cond])
    run.floor(1)


RULES = [("R15.7", r15_7), ("R15.6", r15_6), ("R15.1", r15_1), ("R15.2", r15_2), ("R15.3", r15_3), ("R15.4", r15_4), ("R15.5", r15_5), ("R15.8", r15_8), ("R15.9", r15_9)]


def r15_10(run):
    """what is read back is the JSON-native form of what was stored: an Enum member (net.sector) comes back as its value, a plain
    string.  The code that runs on every load (convert_format and what it calls, e.g. add_default_components) therefore compares
    such state by value and never discriminates it with isinstance(net.<attr>, <Enum class>) -- that test is True for a freshly
    created net and False for the same net after a round trip, so the loaded net takes another branch (a gas net comes back with the
    components of all sectors)."""
    from ..callgraph import CallGraph
    ix = run.index
    cg = CallGraph(ix)
    root = ix.func("pandapipes.io.convert_format.convert_format")
    funcs = [f for f in cg.reachable([root]).values() if f.module.startswith("pandapipes")]
    enums = set()
    for ci in ix.all_classes():
        if any(U(b).rsplit(".", 1)[-1] in ("Enum", "StrEnum", "IntEnum", "Flag", "IntFlag") for b in ci.node.bases):
            enums.add(ci.name)
    n = 0
    for f in funcs:
        run.analysed(f)
        for c in calls(f.raw_node):
            if isinstance(c.func, ast.Name) and c.func.id == "isinstance" and len(c.args) == 2:
                n += 1
                a0 = c.args[0]
                stored = (isinstance(a0, ast.Attribute) and isinstance(a0.value, ast.Name) and a0.value.id == "net") or \
                         (isinstance(a0, ast.Subscript) and isinstance(a0.value, ast.Name) and a0.value.id == "net")
                types_ = [U(x).rsplit(".", 1)[-1] for x in (c.args[1].elts if isinstance(c.args[1], (ast.Tuple, ast.List)) else [c.args[1]])]
                hit = [t for t in types_ if t in enums]
                if stored and hit:
                    run.ob("%s|isinstance(%s, %s)|stored-state-compared-by-value" % (f.short, U(a0), hit[0]), False,
                           "on the load path stored state is not discriminated by an Enum type test", run.where(f, c))
    run.stat("functions_on_the_load_path", len(funcs))
    if len(funcs) < 3 or not enums:
        raise AnalysisError("load path / Enum classes not found (%d functions, %d Enum classes)" % (len(funcs), len(enums)))
    run.ob("load-path-scanned", True, "functions reachable from convert_format: %d; Enum classes of the package: %s"
           % (len(funcs), sorted(enums)), "src/pandapipes/io/convert_format.py")
    run.floor(1)


RULES.append(("R15.10", r15_10))

EXPLANATION += (' ' + '(R15.11) what the solver itself stores in net.user_pf_options (set_user_pf_options calls and direct stores in pipeflow.py, pf/, '
                'component_models/, timeseries/, multinet/) is a Python literal or an explicit bool()/int()/float()/str() conversion: the '
                'dictionary is saved as plain JSON, where a numpy scalar (net.converged is a numpy bool) is written as text and comes back as '
                'another value.')

_UPO_SCOPE = ("pandapipes.pipeflow", "pandapipes.pf.", "pandapipes.component_models.", "pandapipes.timeseries.", "pandapipes.multinet.",
              "pandapipes.control.")


def r15_11(run):
    """user_pf_options is a plain dict and is written to JSON as such: pandapower's encoder keeps Python bool / int / float / str exactly,
    but a numpy bool is written as the string "false" and read back as numpy.bool("false") == True.  The package writes one entry of
    this dictionary itself (hyd_flag, the "hydraulics have converged" marker that gates heat-only runs): every value the solver side
    stores there must be JSON-native by construction -- a literal, or an explicit bool()/int()/float()/str() conversion."""
    ix = run.index
    n = 0

    def native(e, fi):
        if isinstance(e, ast.Constant):
            return True
        if isinstance(e, ast.Call) and isinstance(e.func, ast.Name) and e.func.id in ("bool", "int", "float", "str") and len(e.args) == 1:
            return True
        if isinstance(e, ast.UnaryOp) and isinstance(e.op, (ast.USub, ast.Not)):
            return native(e.operand, fi) if isinstance(e.op, ast.USub) else True
        if isinstance(e, ast.Compare) and all(isinstance(o, (ast.Is, ast.IsNot, ast.In, ast.NotIn)) for o in e.ops):
            return True  # identity / membership tests give a Python bool
        if isinstance(e, ast.Name):
            defs = assignments(fi.node, e.id)
            return bool(defs) and all(d[2] is None and native(d[1], fi) for d in defs)
        if isinstance(e, (ast.Tuple, ast.List)):
            return all(native(x, fi) for x in e.elts)
        return False

    for fi in ix.all_functions():
        if not any(fi.module == s or fi.module.startswith(s) for s in _UPO_SCOPE) or ".test." in fi.module:
            continue
        if fi.short == "set_user_pf_options":
            continue
        for c in calls(fi.raw_node):
            if callee_name(c) == "set_user_pf_options":
                for kw in c.keywords:
                    if kw.arg is None:
                        # **mapping handed on: where it comes from is the caller's business (the public entry point)
                        continue
                    if kw.arg == "reset":
                        continue
                    n += 1
                    run.ob("%s|set_user_pf_options(%s=%s)|json-native" % (fi.short, kw.arg, U(kw.value)[:40]), native(kw.value, fi),
                           "a value the solver stores in user_pf_options is a literal or an explicit bool/int/float/str conversion "
                           "(a numpy scalar does not survive the JSON round trip)", run.where(fi, c))
        for st in own_walk(fi.raw_node):
            if isinstance(st, ast.Assign):
                for t in st.targets:
                    if isinstance(t, ast.Subscript) and "user_pf_options" in U(t.value) and not U(t.value).startswith("kwargs"):
                        n += 1
                        run.ob("%s|%s=%s|json-native" % (fi.short, U(t)[:50], U(st.value)[:40]), native(st.value, fi),
                               "a value the solver stores in user_pf_options is a literal or an explicit conversion", run.where(fi, st))
    run.stat("solver_side_stores_into_user_pf_options", n)
    if n < 2:
        raise AnalysisError("the solver's own stores into user_pf_options (hyd_flag) were not found (%d sites)" % n)
    run.floor(2)


RULES.append(("R15.11", r15_11))
