"""C13 -- each time-series step equals a stand-alone calculation (registration clause only).

 R13.1 the loop drivers register pipeflow as run function and the complete set of non-convergence exception classes
 R13.2 the step loop carries no pandapipes-side state: one run_time_step per time step, ts_variables passed unchanged
"""
import ast

from ..astutil import U, assignments, bind_args, calls, callee_name, const_str, own_walk
from ..callgraph import CallGraph
from ..source import AnalysisError

TS = "pandapipes.timeseries.run_time_series"
RC = "pandapipes.control.run_control"
MRC = "pandapipes.multinet.control.run_control_multinet"
MTS = "pandapipes.multinet.timeseries.run_time_series_multinet"
P = "pandapipes.pipeflow"

EXPLANATION = (
    "What the loop drivers register decides whether a diverged step is reported and survived: (R13.1) the set E of "
    "non-convergence exception classes is computed from the repository (exception classes defined in the package that "
    "are raised in functions reachable from pandapipes.pipeflow: today PipeflowNotConverged); control.prepare_run_ctrl "
    "must register pandapipes.pipeflow as `run` and an `errors` tuple containing E, timeseries.init_time_series must "
    "pass run=pipeflow by default and register E, and the multi-energy driver's top-level `errors` tuple (the one "
    "pandapower's run_time_step catches) must cover E of its pandapipes members, because the per-net handler re-raises "
    "the member's error; the named arguments continue_on_divergence and verbose reach ts_variables. (R13.2) run_loop "
    "calls run_time_step exactly once per element of ts_variables['time_steps'], passes ts_variables on unchanged, "
    "stores nothing on the net, and the only per-step keyword it injects is the transient step counter. (R13.3, shared with "
    "C05 R5.2) pandapower decides from net.converged whether a step whose error it swallowed (continue_on_divergence) was "
    "calculated, and the output writer logs whatever the result tables hold, so the reset of net.converged and of the result "
    "tables must precede every call of pipeflow that can raise: a step without solution then never carries the previous "
    "step's results. Not decided: "
    "equality of logged results with a fresh run (runtime; rests on C12).")
ASSUMPTIONS = ["pandapower's run_time_step catches ts_variables['errors'] and calls pf_not_converged, which re-raises unless "
               "continue_on_divergence", "pandapower's _evaluate_net re-raises the member net's error unless the member's "
               "continue_on_divergence is set"]
TECHNIQUE = "call-graph raise-set computation, registration-table agreement, loop-shape check"


def nonconvergence_classes(ix):
    """exception classes defined in the package and raised in functions reachable from pipeflow"""
    cg = CallGraph(ix)
    pf = ix.func(P + ".pipeflow")
    reach = cg.reachable([pf])
    defined = {c.name for c in ix.all_classes() if any("Exception" in b or "ppException" in b or "Error" in b for b in ix.external_bases(c))
               or any(ix.is_subclass(c, n) for n in ("Exception",))}
    raised = set()
    for f in reach.values():
        for n in ast.walk(f.node):
            if isinstance(n, ast.Raise) and n.exc is not None:
                e = n.exc.func if isinstance(n.exc, ast.Call) else n.exc
                raised.add(U(e).split(".")[-1])
    return (raised & defined), len(reach)


def _errors_tuple(ix, fi):
    """names in the tuple assigned to <x>['errors'] in function fi"""
    out = []
    for n in own_walk(fi.node):
        if isinstance(n, ast.Assign) and isinstance(n.targets[0], ast.Subscript) and const_str(n.targets[0].slice) == "errors":
            v = n.value
            if isinstance(v, ast.Call) and callee_name(v) == "tuple" and v.args:
                v = v.args[0]
            if isinstance(v, (ast.Tuple, ast.List)):
                out.append(([U(e).split(".")[-1] for e in v.elts], n))
    return out


def r13_1(run):
    ix = run.index
    E, n_reach = nonconvergence_classes(ix)
    run.stat("functions_reachable_from_pipeflow", n_reach)
    run.ob("nonconvergence-classes", E == {"PipeflowNotConverged"} or len(E) >= 1,
           "non-convergence exception classes raised by pipeflow (computed): %s" % sorted(E), P)
    # single-net controller loop
    f = ix.func(RC + ".prepare_run_ctrl")
    run.analysed(f)
    w = run.where(f, f.node)
    runs = [n for n in own_walk(f.node) if isinstance(n, ast.Assign) and isinstance(n.targets[0], ast.Subscript) and const_str(n.targets[0].slice) == "run"]
    ok = False
    if len(runs) == 1:
        v = runs[0].value
        if isinstance(v, ast.Attribute) and isinstance(v.value, ast.Name):
            r = ix.resolve_in(f, v.value.id)
            if r and r[0] == "module":
                rr = ix.resolve(r[1], v.attr)
                ok = bool(rr and rr[0] == "func" and rr[1].qualname == P + ".pipeflow")
        elif isinstance(v, ast.Name):
            rr = ix.resolve_in(f, v.id)
            ok = bool(rr and rr[0] == "func" and rr[1].qualname == P + ".pipeflow")
    run.ob("control.prepare_run_ctrl|run=pipeflow", ok, "ctrl_variables['run'] is pandapipes.pipeflow", w)
    et = _errors_tuple(ix, f)
    run.ob("control.prepare_run_ctrl|errors", len(et) == 1 and E <= set(et[0][0]),
           "ctrl_variables['errors'] contains %s" % sorted(E), w, detail=str([e for e, _ in et]))
    # the errors are set on every path (also when ctrl_variables is passed in)
    if et:
        from ..pathcond import path_condition, parents
        pc = path_condition(f.node, et[0][1], parents(f.node))
        run.ob("control.prepare_run_ctrl|errors-unconditional", not pc, "the error classes are registered on every path", w, detail=str(sorted(pc)))
    # time series
    f = ix.func(TS + ".init_time_series")
    run.analysed(f)
    w = run.where(f, f.node)
    rdef = [v for _, v, _ in assignments(f.node, "run")]
    ok = len(rdef) == 1 and isinstance(rdef[0], ast.Call) and callee_name(rdef[0]) == "pop" and const_str(rdef[0].args[0]) == "run" \
        and len(rdef[0].args) == 2 and isinstance(rdef[0].args[1], ast.Name)
    if ok:
        rr = ix.resolve_in(f, rdef[0].args[1].id)
        ok = bool(rr and rr[0] == "func" and rr[1].qualname == P + ".pipeflow")
    run.ob("timeseries.init_time_series|run-default=pipeflow", ok, "the default run function of a time series is pandapipes.pipeflow", w)
    c = [x for x in calls(f.node) if callee_name(x) == "init_time_series_pp"]
    ok = len(c) == 1 and [U(a) for a in c[0].args[:4]] == ["net", "time_steps", "continue_on_divergence", "verbose"] \
        and any(k.arg == "run" and U(k.value) == "run" for k in c[0].keywords)
    run.ob("timeseries.init_time_series|forwards-arguments", ok,
           "time_steps, continue_on_divergence, verbose and run are forwarded to pandapower's init_time_series", w)
    et = _errors_tuple(ix, f)
    run.ob("timeseries.init_time_series|errors", len(et) == 1 and E <= set(et[0][0]), "ts_variables['errors'] contains %s" % sorted(E), w,
           detail=str([e for e, _ in et]))
    f = ix.func(TS + ".run_timeseries")
    c = [x for x in calls(f.node) if callee_name(x) == "init_time_series"]
    ok = len(c) == 1 and [U(a) for a in c[0].args] == ["net", "time_steps", "continue_on_divergence", "verbose"] and \
        any(k.arg is None and U(k.value) == "kwargs" for k in c[0].keywords)
    run.ob("timeseries.run_timeseries|forwards-arguments", ok, "run_timeseries forwards its named arguments and kwargs", run.where(f, f.node))
    pnc = ix.func(TS + ".pf_not_converged")
    ok = any(isinstance(n, ast.If) and U(n.test).replace(" ", "").replace('"', "'") == "notts_variables['continue_on_divergence']"
             and any(isinstance(x, ast.Raise) for x in n.body) for n in own_walk(pnc.node))
    run.ob("timeseries.pf_not_converged|raises-unless-continue", ok,
           "a diverged step is re-raised unless continue_on_divergence", run.where(pnc, pnc.node))
    # multi-energy drivers
    f = ix.func(MRC + ".prepare_run_ctrl")
    run.analysed(f)
    et = _errors_tuple(ix, f)
    run.ob("multinet.prepare_run_ctrl|errors", len(et) == 1 and E <= set(et[0][0]),
           "the multinet's top-level ctrl_variables['errors'] (caught by run_time_step) covers %s of its pandapipes members" % sorted(E),
           run.where(f, f.node), detail=str([e for e, _ in et]))
    g = ix.func(MRC + ".prepare_ctrl_variables_for_net")
    run.analysed(g)
    src = U(g.node)
    ok = "prepare_run_ctrl_ppipes(net, None, **kwargs)" in src and "isinstance(net, ppipes.pandapipesNet)" in src
    run.ob("multinet.prepare_ctrl_variables_for_net|pandapipes-members", ok,
           "pandapipes members get their run function and error classes from pandapipes.control.prepare_run_ctrl", run.where(g, g.node))
    h = ix.func(MTS + ".init_time_series")
    run.analysed(h)
    src = [U(n).replace(" ", "").replace('"', "'") for n in own_walk(h.node) if isinstance(n, ast.Assign)]
    ok = "ts_variables['continue_on_divergence']=continue_on_divergence" in src and "ts_variables['verbose']=verbose" in src \
        and "ts_variables['time_steps']=time_steps" in src
    run.ob("multinet.init_time_series|forwards-arguments", ok,
           "continue_on_divergence, verbose and the time steps reach ts_variables", run.where(h, h.node))
    run.floor(12)


def r13_2(run):
    ix = run.index
    f = ix.func(TS + ".run_loop")
    run.analysed(f)
    w = run.where(f, f.node)
    loops = [n for n in own_walk(f.node) if isinstance(n, ast.For)]
    ok = len(loops) == 1 and U(loops[0].iter).replace(" ", "").replace('"', "'") == "enumerate(ts_variables['time_steps'])"
    run.ob("run_loop|one-pass-over-time-steps", ok, "run_loop iterates once over ts_variables['time_steps']", w)
    if ok:
        body = loops[0].body
        rts = [c for s in body for c in calls(s) if callee_name(c) == "run_time_step"]
        ok2 = len(rts) == 1 and [U(a) for a in rts[0].args] == ["net", "time_step", "ts_variables", "run_control_fct", "output_writer_fct"]
        # not nested in a conditional
        direct = any(isinstance(s, ast.Expr) and isinstance(s.value, ast.Call) and callee_name(s.value) == "run_time_step" for s in body)
        run.ob("run_loop|run_time_step-once-per-step", ok2 and direct,
               "run_time_step is called exactly once per step with the unchanged ts_variables", w)
        stores = [n for n in ast.walk(loops[0]) if isinstance(n, (ast.Assign, ast.AugAssign))]
        tg = [U(t) for n in stores for t in (n.targets if isinstance(n, ast.Assign) else [n.target])]
        bad = [t for t in tg if t.startswith("net") or t.startswith("ts_variables")]
        run.ob("run_loop|no-state-on-net", not bad, "the loop stores nothing on the net or in ts_variables", w, detail=str(bad))
        kw = [t for t in tg if t.startswith("kwargs[")]
        run.ob("run_loop|only-transient-counter-injected", kw in ([], ["kwargs['simulation_time_step']"], ['kwargs["simulation_time_step"]']),
               "the only keyword injected per step is the transient step counter", w, detail=str(kw))
    for q in (TS + ".run_timeseries", MTS + ".run_timeseries"):
        g = ix.func(q)
        run.analysed(g)
        rl = [c for c in calls(g.node) if callee_name(c) == "run_loop"]
        run.ob("%s|uses-run_loop" % q.split(".", 1)[1], len(rl) == 1 and U(rl[0].args[1]) == "ts_variables",
               "the driver delegates the step loop to run_loop with its ts_variables", run.where(g, g.node))
    run.floor(6)


def r13_3(run):
    from .c05 import r5_2
    r5_2(run)


RULES = [("R13.1", r13_1), ("R13.2", r13_2), ("R13.3", r13_3)]
