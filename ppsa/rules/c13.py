"""C13 -- each time-series step equals a stand-alone calculation (registration clause only).

 R13.1 the loop drivers register pipeflow as run function and the complete set of non-convergence exception classes
 R13.2 the step loop carries no pandapipes-side state: one run_time_step per time step, ts_variables passed unchanged
"""
import ast

from ..astutil import U, assignments, bind_args, calls, callee_name, const_str, own_walk
from ..arrnf import ANF, C, base_of, contains, key, norm_cond, roots, show, walk
from ..callgraph import CallGraph
from ..source import AnalysisError

TS = "pandapipes.timeseries.run_time_series"
RC = "pandapipes.control.run_control"
MRC = "pandapipes.multinet.control.run_control_multinet"
MTS = "pandapipes.multinet.timeseries.run_time_series_multinet"
P = "pandapipes.pipeflow"

EXPLANATION = (
    'What the loop drivers register decides whether a diverged step is reported and survived: (R13.1) the set E of non-'
    'convergence exception classes is computed from the repository (exception classes defined in the package that are '
    'raised in functions reachable from pandapipes.pipeflow: today PipeflowNotConverged); control.prepare_run_ctrl must '
    'register pandapipes.pipeflow as `run` and an `errors` tuple containing E, timeseries.init_time_series must pass '
    "run=pipeflow by default and register E, and the multi-energy driver's top-level `errors` tuple (the one pandapower's"
    " run_time_step catches) must cover E of its pandapipes members, because the per-net handler re-raises the member's "
    'error; the named arguments continue_on_divergence and verbose reach ts_variables. (R13.2) run_loop calls '
    "run_time_step exactly once per element of ts_variables['time_steps'], passes ts_variables on unchanged, stores "
    'nothing on the net, and the only per-step keyword it injects is the transient step counter. (R13.3, shared with C05 '
    'R5.2) pandapower decides from net.converged whether a step whose error it swallowed (continue_on_divergence) was '
    'calculated, and the output writer logs whatever the result tables hold, so the reset of net.converged and of the '
    'result tables must precede every call of pipeflow that can raise: a step without solution then never carries the '
    "previous step's results. (R13.5) the multinet output-writer dispatcher passes the step's time step, pf_converged and"
    " ctrl_converged to every member net's writer unchanged. (R13.4, shared with C20 R20.4/R20.6) in a multi-energy loop "
    'exactly the member nets named by the coupling controllers of a level are recalculated after it, and every net such a'
    " controller writes is named. (R13.6) run_control passes variables handed in by the caller (the time series' run "
    'function, error classes, recycle settings) on unchanged: with prepare_run_ctrl substituted, no store reaches the '
    "caller's dictionary (setdefault-style stores excepted). Not decided: equality of logged results with a fresh run "
    '(runtime; rests on C12).')
ASSUMPTIONS = ["pandapower's run_time_step catches ts_variables['errors'] and calls pf_not_converged, which re-raises unless "
               "continue_on_divergence", "pandapower's _evaluate_net re-raises the member net's error unless the member's "
               "continue_on_divergence is set"]
TECHNIQUE = "call-graph raise-set computation, registration-table agreement, loop-shape check"
EXPLANATION += (' ' + '(R13.7, shared with C07 R7.3) the stage functions create the internal data unless reuse is requested and drop it afterwards, and init_options may only switch reuse_internal_data off (when the matrix-update option is off): a time-series step starts from the same solver state as a stand-alone call.')


def nonconvergence_classes(ix):
    """exception classes defined in the package and raised in functions reachable from pipeflow"""
    cg = CallGraph(ix)
    pf = ix.func(P + ".pipeflow")
    reach = cg.reachable([pf])
    defined = {c.name for c in ix.all_classes() if any("Exception" in b or "ppException" in b or "Error" in b for b in ix.external_bases(c))
               or any(ix.is_subclass(c, n) for n in ("Exception",))}
    raised = set()
    for f in reach.values():
        for n in ast.walk(f.node):
            if isinstance(n, ast.Raise) and n.exc is not None:
                e = n.exc.func if isinstance(n.exc, ast.Call) else n.exc
                raised.add(U(e).split(".")[-1])
    return (raised & defined), len(reach)


def _errors_stores(r):
    """[(class names, store event)] for every store of an `errors` entry in a function summary"""
    out = []
    for s_ in r.stores():
        if s_.index == (C("errors"),):
            v = s_.value
            if v[0] == "call" and v[1] == ("x", "builtins.tuple") and v[2]:
                v = v[2][0]
            if v[0] in ("tuple", "list"):
                out.append(([x[1].split(".")[-1] for x in v[1] if x[0] in ("f", "x", "n")], s_))
    return out


def _is_pipeflow(t):
    return t == ("f", P + ".pipeflow")


def _bound(ev, names):
    """arguments of a recorded call by the callee's (external) parameter names"""
    out = dict(zip(names, ev.args))
    out.update({k: v for k, v in ev.kw if k != "**"})
    return out


def r13_1(run):
    ix = run.index
    E, n_reach = nonconvergence_classes(ix)
    run.stat("functions_reachable_from_pipeflow", n_reach)
    run.ob("nonconvergence-classes", E == {"PipeflowNotConverged"} or len(E) >= 1,
           "non-convergence exception classes raised by pipeflow (computed): %s" % sorted(E), P)
    # single-net controller loop
    f = ix.func(RC + ".prepare_run_ctrl")
    run.analysed(f)
    w = run.where(f, f.node)
    r = ANF(ix, f).run()
    runs = [s_ for s_ in r.stores() if s_.index == (C("run"),)]
    run.ob("control.prepare_run_ctrl|run=pipeflow", len(runs) == 1 and _is_pipeflow(runs[0].value),
           "ctrl_variables['run'] is pandapipes.pipeflow", w)
    et = _errors_stores(r)
    run.ob("control.prepare_run_ctrl|errors", len(et) == 1 and E <= set(et[0][0]),
           "ctrl_variables['errors'] contains %s" % sorted(E), w, detail=str([e for e, _ in et]))
    if et:
        run.ob("control.prepare_run_ctrl|errors-unconditional", not et[0][1].cond, "the error classes are registered on every path", w,
               detail=str([(show(c)[:60], p) for c, p in et[0][1].cond]))
    # time series
    f = ix.func(TS + ".init_time_series")
    run.analysed(f)
    w = run.where(f, f.node)
    r = ANF(ix, f).run()
    cs = [c for c in r.calls() if c.fn[0] == "x" and c.fn[1].endswith("run_time_series.init_time_series")]
    _shape(len(cs) == 1, "init_time_series wraps pandapower's init_time_series")
    a_ = _bound(cs[0], ("net", "time_steps", "continue_on_divergence", "verbose"))
    rv = a_.get("run")
    ok = rv is not None and rv[0] == "call" and rv[1][0] == "attr" and rv[1][2] in ("pop", "get") and rv[2][:1] == (C("run"),) \
        and len(rv[2]) == 2 and _is_pipeflow(rv[2][1])
    run.ob("timeseries.init_time_series|run-default=pipeflow", ok or (rv is not None and _is_pipeflow(rv)),
           "the default run function of a time series is pandapipes.pipeflow", w, detail=show(rv)[:100] if rv else None)
    ps = f.params()
    ok = all(a_.get(k) == ("n", k) for k in ("net", "time_steps", "continue_on_divergence", "verbose")) and any(k == "**" for k, _ in cs[0].kw)
    run.ob("timeseries.init_time_series|forwards-arguments", ok,
           "time_steps, continue_on_divergence, verbose and the keyword arguments are forwarded to pandapower's init_time_series", w)
    et = _errors_stores(r)
    run.ob("timeseries.init_time_series|errors", len(et) == 1 and E <= set(et[0][0]) and not et[0][1].cond
           and key(base_of(et[0][1].base)) == key(cs[0].term),
           "ts_variables['errors'] of the returned variables contains %s" % sorted(E), w, detail=str([e for e, _ in et]))
    rets = r.returns()
    run.ob("timeseries.init_time_series|returns-those-variables", len(rets) == 1 and key(base_of(rets[0].value)) == key(cs[0].term),
           "the variables with the registered errors are what is returned", w)
    f = ix.func(TS + ".run_timeseries")
    run.analysed(f)
    r = ANF(ix, f).run()
    its = ix.func(TS + ".init_time_series")
    cs = [c for c in r.calls() if c.fn == ("f", its.qualname)]
    ok = len(cs) == 1
    if ok:
        a_ = _bound(cs[0], its.params())
        ok = all(a_.get(k) == ("n", k) for k in ("net", "time_steps", "continue_on_divergence", "verbose")) and any(k == "**" for k, _ in cs[0].kw)
    run.ob("timeseries.run_timeseries|forwards-arguments", ok, "run_timeseries forwards its named arguments and kwargs", run.where(f, f.node))
    pnc = ix.func(TS + ".pf_not_converged")
    run.analysed(pnc)
    r = ANF(ix, pnc).run()
    tsv = pnc.params()[1] if len(pnc.params()) > 1 else "ts_variables"
    good = [e for e in r.raises() if len(e.cond) == 1 and norm_cond(*e.cond[0]) == (("idx", ("n", tsv), (C("continue_on_divergence"),)), False)]
    run.ob("timeseries.pf_not_converged|raises-unless-continue", len(good) == 1 and len(r.raises()) == 1,
           "a diverged step is re-raised unless continue_on_divergence", run.where(pnc, pnc.node))
    # multi-energy drivers
    f = ix.func(MRC + ".prepare_run_ctrl")
    run.analysed(f)
    r = ANF(ix, f).run()
    et = _errors_stores(r)
    run.ob("multinet.prepare_run_ctrl|errors", len(et) == 1 and E <= set(et[0][0]) and not et[0][1].cond,
           "the multinet's top-level ctrl_variables['errors'] (caught by run_time_step) covers %s of its pandapipes members" % sorted(E),
           run.where(f, f.node), detail=str([e for e, _ in et]))
    g = ix.func(MRC + ".prepare_ctrl_variables_for_net")
    run.analysed(g)
    r = ANF(ix, g).run()
    cs = [c for c in r.calls() if c.fn == ("f", RC + ".prepare_run_ctrl")]
    ok = len(cs) == 1 and len(cs[0].cond) >= 1
    if ok:
        c0, p0 = norm_cond(*cs[0].cond[-1])
        ok = p0 and c0[0] == "call" and c0[1] == ("x", "builtins.isinstance") and c0[2][1][0] == "f" and c0[2][1][1].endswith(".pandapipesNet") \
            and key(c0[2][0]) == key(cs[0].args[0]) and cs[0].args[1:2] == (C(None),)
    run.ob("multinet.prepare_ctrl_variables_for_net|pandapipes-members", ok,
           "pandapipes members get their run function and error classes from pandapipes.control.prepare_run_ctrl", run.where(g, g.node))
    if cs:
        for k in ("run", "errors"):
            st = [s_ for s_ in r.stores() if s_.index == (C(k),)]
            ok = len(st) == 1 and contains(st[0].value, cs[0].term) and any(x[0] == "idx" and x[2] == (C(k),) for x in walk(st[0].value)) or \
                (len(st) == 1 and st[0].value[0] == "call" and st[0].value[1][2] == "get" and st[0].value[2][:1] == (C(k),)
                 and contains(st[0].value, cs[0].term))
            run.ob("multinet.prepare_ctrl_variables_for_net|member-%s" % k, ok,
                   "the member's %s entry defaults to what pandapipes.control.prepare_run_ctrl registered" % k, run.where(g, g.node))
    h = ix.func(MTS + ".init_time_series")
    run.analysed(h)
    r = ANF(ix, h).run()
    ret = r.returns()
    _shape(len(ret) == 1, "multinet init_time_series has one return")
    root = roots(ret[0].value)
    for k in ("continue_on_divergence", "verbose"):
        st = [s_ for s_ in r.stores() if s_.index == (C(k),) and roots(s_.base) & root]
        run.ob("multinet.init_time_series|forwards|%s" % k, len(st) == 1 and st[0].value == ("n", k) and not st[0].cond,
               "%s reaches the returned ts_variables" % k, run.where(h, h.node))
    st = [s_ for s_ in r.stores() if s_.index == (C("time_steps"),) and roots(s_.base) & root]
    run.ob("multinet.init_time_series|forwards|time_steps", len(st) == 1 and contains(st[0].value, ("n", "time_steps")),
           "the time steps reach the returned ts_variables", run.where(h, h.node))
    run.floor(12)


def _shape(ok, what):
    if not ok:
        raise AnalysisError("unrecognised shape: " + what)


def r13_2(run):
    ix = run.index
    f = ix.func(TS + ".run_loop")
    run.analysed(f)
    w = run.where(f, f.node)
    ps = f.params()
    _shape(len(ps) >= 4, "run_loop(net, ts_variables, run_control_fct, output_writer_fct)")
    r = ANF(ix, f, param_alias=dict(zip(ps, ("net", "ts_variables", "run_control_fct", "output_writer_fct")))).run()
    steps = ("idx", ("n", "ts_variables"), (C("time_steps"),))
    loops = {lid: l for lid, l in r.loops.items()}
    ok = len(loops) == 1
    lid = next(iter(loops)) if ok else None
    step_var = None
    if ok:
        it = loops[lid]["iter"]
        if key(it) == key(("call", ("x", "builtins.enumerate"), (steps,), ())):
            step_var = ("loop", lid, 1)
        elif key(it) == key(steps):
            step_var = ("loop", lid, 0)
        ok = step_var is not None
    run.ob("run_loop|one-pass-over-time-steps", ok, "run_loop iterates once over ts_variables['time_steps']", w)
    if ok:
        rts = [c for c in r.calls() if c.fn[0] == "x" and c.fn[1].endswith("run_time_step")]
        ok2 = len(rts) == 1 and rts[0].loops == (lid,) and not rts[0].cond
        if ok2:
            a_ = _bound(rts[0], ("net", "time_step", "ts_variables", "run_control_fct", "output_writer_fct"))
            ok2 = a_.get("net") == ("n", "net") and a_.get("time_step") == step_var and a_.get("ts_variables") == ("n", "ts_variables") \
                and a_.get("run_control_fct") == ("n", "run_control_fct") and a_.get("output_writer_fct") == ("n", "output_writer_fct")
        run.ob("run_loop|run_time_step-once-per-step", ok2,
               "run_time_step is called exactly once per step, unconditionally, with the step and the unchanged ts_variables", w)
        bad = [s_ for s_ in r.stores() if key(base_of(s_.base)) in (key(("n", "net")), key(("n", "ts_variables")))
               or (s_.base[0] in ("idx", "attr") and any(x in (("n", "net"), ("n", "ts_variables")) for x in walk(s_.base)))]
        mut = [c for c in r.calls() if c.fn[0] == "attr" and c.fn[2] in ("update", "pop", "clear", "setdefault", "append")
               and any(x in (("n", "net"), ("n", "ts_variables")) for x in walk(c.fn[1]))]
        run.ob("run_loop|no-state-on-net", not bad and not mut, "the loop stores nothing on the net or in ts_variables", w,
               detail=str([show(s_.base)[:60] for s_ in bad]))
        kw = sorted({s_.index[0][1] for s_ in r.stores() if s_.base[0] == "n" and s_.base[1] == "kwargs" and s_.index[0][0] == "c"} |
                    {"<computed>" for s_ in r.stores() if key(base_of(s_.base)) == key(("n", "kwargs")) and s_.index[0][0] != "c"})
        run.ob("run_loop|only-transient-counter-injected", kw in ([], ["simulation_time_step"]),
               "the only keyword injected per step is the transient step counter", w, detail=str(kw))
    rl = ix.func(TS + ".run_loop")
    for q in (TS + ".run_timeseries", MTS + ".run_timeseries"):
        g = ix.func(q)
        run.analysed(g)
        rg = ANF(ix, g).run()
        cs = [c for c in rg.calls() if c.fn == ("f", rl.qualname)]
        init = [c for c in rg.calls() if c.fn[0] == "f" and c.fn[1].endswith(".init_time_series")]
        ok = len(cs) == 1 and len(init) == 1 and len(cs[0].args) >= 2 and key(base_of(cs[0].args[1])) == key(init[0].term)
        run.ob("%s|uses-run_loop" % q.split(".", 1)[1], ok,
               "the driver delegates the step loop to run_loop with the ts_variables it initialised", run.where(g, g.node))
    run.floor(6)


def r13_3(run):
    from .c05 import r5_2
    r5_2(run)


def r13_4(run):
    """multi-energy time series: after a coupling controller acted, the member nets it names are recalculated; a net that
    is written but not named would log the results of the previous step (shared with C20 R20.4 / R20.6)"""
    from .c20 import r20_4, r20_6
    r20_4(run)
    r20_6(run)


def r13_5(run):
    """what is logged for a step: the multinet output-writer dispatcher hands the step's verdicts (pf_converged, ctrl_converged)
    and the time step to every member net's output writer unchanged -- a member net that was not recalculated in a diverged step
    still carries results and a converged flag of the previous step, so a per-net re-interpretation of the verdict logs old
    results as this step's"""
    ix = run.index
    f = ix.func(MTS + "._call_output_writer")
    run.analysed(f)
    ps = f.params()
    _shape(len(ps) == 5, "_call_output_writer(multinet, time_step, pf_converged, ctrl_converged, ts_variables)")
    r = ANF(ix, f, param_alias=dict(zip(ps, ("multinet", "time_step", "pf_converged", "ctrl_converged", "ts_variables")))).run()
    cs = [c for c in r.calls() if c.fn[0] == "x" and c.fn[1].endswith("output_writer_routine")]
    _shape(len(cs) >= 1, "_call_output_writer calls pandapower's output_writer_routine")
    for i, c in enumerate(cs):
        a_ = _bound(c, ("net", "time_step", "pf_converged", "ctrl_converged", "recycle_options"))
        ok = c.loops and a_.get("time_step") == ("n", "time_step") and a_.get("pf_converged") == ("n", "pf_converged") \
            and a_.get("ctrl_converged") == ("n", "ctrl_converged")
        run.ob("multinet._call_output_writer|verdicts-passed-unchanged|%d" % i, bool(ok),
               "every member net's output writer receives the step's time step, pf_converged and ctrl_converged unchanged",
               run.where(f, c.node), detail="pf_converged=%s" % show(a_.get("pf_converged"))[:120] if a_.get("pf_converged") else None)
        net_t = a_.get("net")
        run.ob("multinet._call_output_writer|member-net|%d" % i, net_t is not None and contains(net_t, ("idx", ("n", "multinet"), (C("nets"),))),
               "the writer is called for the member nets of the multinet", run.where(f, c.node))
    run.floor(2)


def r13_6(run):
    """run_control is what every time step calls with the time series' own variables (run function, error classes, recycle
    settings): variables handed in by the caller are passed on as they are -- the defaults of prepare_run_ctrl are only built when
    none were given, so the error classes registered by init_time_series (which include the controller loop's
    NetCalculationNotConverged) survive the first step"""
    from ..arrnf import roots, key as tkey
    ix = run.index
    f = ix.func(RC + ".run_control")
    run.analysed(f)
    ps = f.params()
    _shape(len(ps) >= 2, "run_control(net, ctrl_variables, ...)")
    r = ANF(ix, f, inline={RC + ".prepare_run_ctrl"}, param_alias={ps[0]: "net", ps[1]: "ctrl_variables"}).run()
    given = tkey(("n", "ctrl_variables"))
    def keeps(e):
        # d[k] = d.get(k, default) / d.setdefault(k, default): an entry the caller gave is kept
        v = e.value
        return v[0] == "call" and v[1][0] == "attr" and v[1][2] == "get" and tkey(v[1][1]) == tkey(e.base) and v[2][:1] == e.index
    bad = [e for e in r.stores() if given in roots(e.base) and not keeps(e)]
    run.ob("control.run_control|given-variables-unchanged", not bad,
           "ctrl_variables handed in by the caller (the time series' run / errors / recycle entries) are not written by run_control",
           run.where(f, bad[0].node if bad else f.node),
           detail="; ".join("[%s] = %s" % (show(e.index[0])[:30], show(e.value)[:60]) for e in bad[:3]) if bad else None)
    cs = [c for c in r.calls() if c.fn[0] == "x" and c.fn[1].endswith("run_control")]
    ok = len(cs) >= 1 and all(any(contains(a_, ("n", "ctrl_variables")) for a_ in list(c.args) + [v for _, v in c.kw]) for c in cs)
    run.ob("control.run_control|variables-passed-on", ok, "the variables reach pandapower's run_control", run.where(f, f.node))
    run.floor(2)


def r13_7(run):
    """every step of a time series is a stand-alone calculation: it starts from fresh internal data unless the user asked for reuse
    (shared with C07 R7.3 / C12 R12.5: the life cycle of net['_internal_data'] in the stage functions, and init_options only ever
    switching reuse off)"""
    from .c07 import internal_data_lifecycle, reuse_coupling
    internal_data_lifecycle(run)
    reuse_coupling(run)


RULES = [("R13.1", r13_1), ("R13.2", r13_2), ("R13.3", r13_3), ("R13.4", r13_4), ("R13.5", r13_5), ("R13.6", r13_6), ("R13.7", r13_7)]

EXPLANATION += (' ' + '(R13.8, shared with C05 R5.8) every calculation of a time step rebinds every result table to a fresh all-NaN frame, so a step in which an '
                'element gets no result logs NaN and not the value of the step before.')


def r13_8(run):
    """a logged step equals the stand-alone calculation: what a step reports for an element that takes no part in it (closed valve, out
    of service) is NaN as in a fresh run, not the number of the preceding step -- init_results_element rebinds the table on every path
    (shared with C05 R5.8)."""
    from .c05 import r5_8
    r5_8(run)


RULES.append(("R13.8", r13_8))
