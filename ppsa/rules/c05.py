"""C05 -- a returned result is converged and finite; a failed run leaves no results.

Structural clauses decided (see DESIGN.md section 4, C05):
 R5.1 stage exits are gated by the convergence verdict                     (CFG must-pass-through)
 R5.2 pipeflow resets results/verdict before anything can raise; extraction after the stages
 R5.3 the verdict is NaN-safe, conjunctive and accepts only undamped steps  (abstract interpretation)
 R5.4 the Newton loop is bounded by the stage's max_iter option
 R5.5 variable / tolerance / pit-name / result-pair tables agree at every newton_raphson call site
 R5.6 the NaN guards of the thermal solve return a literal NaN residual
 R5.7 the step-rejection loop restores the right column of the right pit
"""
import ast
import itertools

from ..absint import ANet, Interp, Opaque, Oracle, Raised, Recorder, Tok
from ..astutil import (U, assignments, bind_args, calls, callee_name, const_str, eval_str_expr,
                       full_slice, own_walk, returns, subscript_parts)
from ..callgraph import CallGraph
from ..cfg import CFG, calls_in
from ..source import AnalysisError

P = "pandapipes.pipeflow"
PS = "pandapipes.pf.pipeflow_setup"

EXPLANATION = (
    "Static analysis of pandapipes/pipeflow.py and pf/pipeflow_setup.py: (R5.1) in the statement CFG of "
    "hydraulics/heat_transfer/bidirectional every path from a statement that may assign net.converged to a "
    "normal exit crosses the false edge of an `if not net.converged: raise PipeflowNotConverged` guard, and "
    "result extraction is only reachable through that edge; (R5.2) in pipeflow() the result-table reset and "
    "`net.converged = False` precede every call whose transitive raise-set contains PipeflowNotConverged and "
    "extract_all_results is reachable only after the stage calls; (R5.3) finalize_iteration and "
    "set_damping_factor are interpreted abstractly over the finite domain {error_i: <tol, =tol, >tol, NaN}^k x "
    "{residual: <,=,>,NaN} x {error_i increased or not} x alpha classes x nonlinear_method, exhaustively, and "
    "net.converged may become True only if every change and the residual are within tolerance and, with "
    "automatic damping, the step that was just taken was undamped; (R5.4) the while test of newton_raphson "
    "conjoins niter < max_iter, niter += 1 lies on every path through the body, and each stage passes its own "
    "iteration option; (R5.5) solver_vars, tolerances, pit_names, the (new, old) result pairs and the filter "
    "list returned by the registered solve function agree in length, order, pit namespace and column; "
    "(R5.6) both early returns of solve_temperature return a literal NaN residual; (R5.7) the rejection loop "
    "zips five equally long sequences and writes vals_old back to column VAR+'INIT' of the named pit. "
    "The check decides these structural clauses, which are necessary conditions of the property; it does not "
    "decide that non-convergence is detected for every input nor the finiteness of results as such.")
ASSUMPTIONS = [
    "scipy.sparse.linalg.spsolve returns an array (possibly containing NaN/inf) and does not raise on singular input",
    "numpy comparisons with NaN evaluate to False (IEEE-754)",
    "components registered at run time by user code are outside the analysed tree",
]
TECHNIQUE = "statement CFG must-pass-through + call-graph effect/raise summaries + exhaustive abstract interpretation of the convergence verdict + table-agreement checks"
EXPLANATION += (' ' + "(R5.8, shared with C06 R6.9 / C12 R12.7) on every path init_results_element rebinds net['res_<element>'] to a new all-NaN frame with the element's index, so a failed run cannot leave earlier numbers behind. (R5.9, the analysis of C14 R14.1 / R14.2, obligations keep their R14 labels) resolving the options writes into none of the stored layers, so the iteration budget in force is what the layers say at the time of the call.")
EXPLANATION += (' ' + '(R5.2, extended) every init_results method reaches init_results_element (or super().init_results) under no condition, so no component keeps the result rows of an earlier run, e.g. after all its elements were removed.')


# ---------------------------------------------------------------------------------------------
def _is_net_converged(node):
    return isinstance(node, ast.Attribute) and node.attr == "converged" and isinstance(node.value, ast.Name) \
        and node.value.id == "net"


def _assigns_converged_direct(fi):
    for n in ast.walk(fi.node):
        if isinstance(n, (ast.Assign, ast.AugAssign)):
            tg = n.targets if isinstance(n, ast.Assign) else [n.target]
            for t in tg:
                if _is_net_converged(t):
                    return True
                if isinstance(t, ast.Subscript) and U(t.value) == "net" and const_str(t.slice) == "converged":
                    return True
    return False


def _guard_kind(test):
    """'neg' for `not net.converged`-like tests, 'pos' for `net.converged`, else None."""
    if isinstance(test, ast.UnaryOp) and isinstance(test.op, ast.Not) and _is_net_converged(test.operand):
        return "neg"
    if _is_net_converged(test):
        return "pos"
    if isinstance(test, ast.Compare) and _is_net_converged(test.left) and len(test.ops) == 1 \
            and isinstance(test.comparators[0], ast.Constant):
        v = test.comparators[0].value
        op = test.ops[0]
        if isinstance(op, (ast.Is, ast.Eq)):
            return "pos" if v is True else ("neg" if v is False else None)
        if isinstance(op, (ast.IsNot, ast.NotEq)):
            return "neg" if v is True else ("pos" if v is False else None)
    return None


def _raises_pnc(cfg, entry):
    """every path from `entry` ends in an uncaught raise, and the raises name PipeflowNotConverged"""
    if not cfg.always_raises([entry]):
        return False
    seen, work, ok = set(), [entry], False
    while work:
        a = work.pop()
        if a in seen:
            continue
        seen.add(a)
        n = cfg.nodes[a]
        if n.kind == "stmt" and isinstance(n.ast, ast.Raise):
            if n.ast.exc is None or "PipeflowNotConverged" not in U(n.ast.exc):
                return False
            ok = True
        work.extend(b for b, _ in cfg.succ[a])
    return ok


def r5_1(run):
    ix = run.index
    cg = CallGraph(ix)
    mod = ix.module(P)
    funcs = list(mod.functions.values())
    W = cg.transitive(_assigns_converged_direct, funcs)
    for name in ("hydraulics", "heat_transfer", "bidirectional"):
        fi = ix.func(P + "." + name)
        run.analysed(fi)
        cfg = CFG(fi.node)
        guards = {}
        for n in cfg.nodes:
            if n.kind == "if":
                k = _guard_kind(n.test)
                t_edge = [b for b, lab in cfg.succ[n.id] if lab == "T"]
                f_edge = [b for b, lab in cfg.succ[n.id] if lab == "F"]
                if k == "neg" and t_edge and _raises_pnc(cfg, t_edge[0]):
                    guards[n.id] = "F"      # normal flow continues on the false edge
                elif k == "pos" and f_edge and _raises_pnc(cfg, f_edge[0]):
                    guards[n.id] = "T"
        run.ob("%s|has-convergence-guard" % name, bool(guards),
               "stage function has an `if not net.converged: raise PipeflowNotConverged` guard",
               run.where(fi, fi.node))

        def edge_ok(a, b, lab):
            return not (a in guards and lab == guards[a])

        # writers of the verdict
        wnodes = []
        for n in cfg.nodes:
            if n.ast is None:
                continue
            is_w = False
            if n.kind == "stmt" and isinstance(n.ast, ast.Assign) and any(_is_net_converged(t) for t in n.ast.targets):
                is_w = True
            for c in calls_in(n):
                for tgt in cg.call_targets(fi, c):
                    if tgt.qualname in W:
                        is_w = True
                for a in c.args:
                    if isinstance(a, ast.Name):
                        r = ix.resolve_in(fi, a.id)
                        if r and r[0] == "func" and r[1].qualname in W:
                            is_w = True
            if is_w:
                wnodes.append(n)
        for n in wnodes:
            reach = cfg.reachable([n.id], edge_ok)
            construct = U(n.ast if n.test is None else n.test).split("\n")[0][:70]
            run.ob("%s|verdict-writer-gated|%s" % (name, construct), cfg.exit not in reach,
                   "every path from this writer of net.converged to a normal exit passes the "
                   "`not net.converged -> raise` guard", run.where(fi, n.ast),
                   detail=None if cfg.exit not in reach else "normal exit reachable without crossing the guard")
        # extraction only behind the guard
        ungated = cfg.reachable([cfg.entry], edge_ok)
        for n in cfg.nodes:
            for c in calls_in(n):
                if callee_name(c) == "extract_results_active_pit":
                    run.ob("%s|extraction-behind-guard" % name, n.id not in ungated,
                           "extract_results_active_pit is reachable only through the guard's pass edge",
                           run.where(fi, c))
    run.floor(3 + 6)


# ---------------------------------------------------------------------------------------------
def _raise_sets(ix, cg, funcs):
    """function qualname -> set of exception class names it may raise (transitively, uncaught
    approximated as: raised anywhere in the function or its callees)."""
    direct = {}
    for f in funcs:
        s = set()
        for n in ast.walk(f.node):
            if isinstance(n, ast.Raise) and n.exc is not None:
                e = n.exc.func if isinstance(n.exc, ast.Call) else n.exc
                s.add(U(e).split(".")[-1])
        direct[f.qualname] = s
    changed = True
    while changed:
        changed = False
        for f in funcs:
            for c in cg.callees(f):
                extra = direct.get(c.qualname, set()) - direct[f.qualname]
                if extra:
                    direct[f.qualname] |= extra
                    changed = True
    return direct


def r5_2(run):
    ix = run.index
    cg = CallGraph(ix)
    fi = ix.func(P + ".pipeflow")
    run.analysed(fi)
    reach = cg.reachable([fi])
    funcs = list(reach.values())
    rs = _raise_sets(ix, cg, funcs)
    run.stat("functions_reachable_from_pipeflow", len(funcs))
    cfg = CFG(fi.node)
    dom = cfg.dominators()

    def node_calls(n):
        out = []
        for c in calls_in(n):
            out.append((c, cg.call_targets(fi, c)))
        return out

    reset_nodes = [n for n in cfg.nodes if any(callee_name(c) == "init_all_result_tables" for c in calls_in(n))]
    flag_nodes = [n for n in cfg.nodes if n.kind == "stmt" and isinstance(n.ast, ast.Assign)
                  and any(_is_net_converged(t) for t in n.ast.targets)
                  and isinstance(n.ast.value, ast.Constant) and n.ast.value.value is False]
    run.ob("pipeflow|resets-result-tables", len(reset_nodes) >= 1, "pipeflow calls init_all_result_tables",
           run.where(fi, fi.node))
    run.ob("pipeflow|resets-verdict", len(flag_nodes) >= 1, "pipeflow assigns net.converged = False",
           run.where(fi, fi.node))
    # init_all_result_tables really re-creates every result table with NaN
    iar = ix.func(PS + ".init_all_result_tables")
    ok_loop = any(isinstance(n, ast.For) and "component_list" in U(n.iter)
                  and any(callee_name(c) == "init_results" for c in calls(n)) for n in ast.walk(iar.node))
    run.ob("init_all_result_tables|all-components", ok_loop,
           "init_all_result_tables calls init_results for every entry of net['component_list']", run.where(iar, iar.node))
    # ... and every component's init_results gets to init_results_element on every path (no early exit that keeps an old table)
    n_ir = 0
    for ci_ in ix.all_classes():
        m_ = ci_.methods.get("init_results")
        if m_ is None or ".test." in m_.module:
            continue
        from ..arrnf import ANF as _ANF0
        r_ = _ANF0(ix, m_, strip=False).run()
        resets = [e for e in r_.events if e.kind == "call" and (
            (e.term[1][0] == "f" and e.term[1][1].endswith(".init_results_element")) or
            (e.term[1][0] == "attr" and e.term[1][2] == "init_results" and e.term[1][1][0] == "call" and e.term[1][1][1] == ("x", "builtins.super")))]
        n_ir += 1
        run.analysed(m_)
        run.ob("%s.init_results|resets-on-every-path" % ci_.name, any(not e.cond for e in resets),
               "%s.init_results re-creates the result table unconditionally (init_results_element / super().init_results under no condition)" % ci_.name,
               run.where(m_, m_.node), detail="; ".join(str([(U(c_) if isinstance(c_, ast.AST) else str(c_)[:60], p_) for c_, p_ in e.cond]) for e in resets)[:200] or "no reset call")
    if not n_ir:
        raise AnalysisError("no init_results method found in the component classes")
    ire = ix.func("pandapipes.component_models.component_toolbox.init_results_element")
    # on every path the store that is in effect at the end is a DataFrame of NaN indexed like the element table
    from ..arrnf import ANF as _ANF, key as _tkey, show as _tshow
    pe = ire.params()
    if len(pe) != 4:
        raise AnalysisError("init_results_element no longer has 4 parameters")
    re_ = _ANF(ix, ire, param_alias=dict(zip(pe, ("net", "element", "output", "all_float")))).run()
    st_ = [e for e in re_.stores() if e.base[0] in ("n", "upd") and _tkey(_base(e.base)) == _tkey(("n", "net"))]
    finals = _final_stores(st_)
    def nan_frame(v):
        if not (v[0] == "call" and v[1][0] == "x" and v[1][1].endswith("DataFrame")):
            return False
        kw = dict(v[3])
        data = v[2][0] if v[2] else kw.get("data")
        idx = kw.get("index")
        return data == ("c", "nan") and idx is not None and idx[0] == "attr" and idx[2] == "index" and idx[1][0] == "idx" \
            and _base(idx[1][1]) == ("n", "net") and idx[1][2] == (("n", "element"),)
    run.ob("init_results_element|nan-filled", bool(finals) and all(nan_frame(e.value) for e in finals),
           "on every path the result table in effect at the end of init_results_element is a DataFrame of np.nan indexed like the "
           "element table", run.where(ire, ire.node), detail="; ".join(_tshow(e.value)[:90] for e in finals))
    run.analysed(iar)
    run.analysed(ire)

    raising = []
    for n in cfg.nodes:
        if n.ast is None:
            continue
        for c, tgts in node_calls(n):
            if any("PipeflowNotConverged" in rs.get(t.qualname, ()) for t in tgts):
                raising.append((n, c))
    run.stat("pipeflow_calls_that_may_raise_PipeflowNotConverged", len(raising))
    for n, c in raising:
        nm = callee_name(c)
        ok = any(r.id in dom[n.id] for r in reset_nodes) and any(r.id in dom[n.id] for r in flag_nodes)
        if nm in ("init_options", "create_lookups", "initialize_pit"):
            # these precede the reset by design only if they cannot raise the non-convergence error
            pass
        run.ob("pipeflow|reset-dominates|%s" % nm, ok,
               "result-table reset and net.converged=False dominate the call of %s (which may raise "
               "PipeflowNotConverged)" % nm, run.where(fi, c))
    # extract_all_results only after the stage calls, on the normal path
    stage_names = {"hydraulics", "heat_transfer", "bidirectional"}
    ext_nodes = [n for n in cfg.nodes if any(callee_name(c) == "extract_all_results" for c in calls_in(n))]
    run.ob("pipeflow|extracts-results", len(ext_nodes) == 1, "pipeflow calls extract_all_results exactly once",
           run.where(fi, fi.node))
    for n in cfg.nodes:
        for c in calls_in(n):
            if callee_name(c) in stage_names:
                after = cfg.reachable([n.id])
                run.ob("pipeflow|extraction-after|%s" % callee_name(c),
                       all(e.id in after for e in ext_nodes) and not any(n.id in cfg.reachable([e.id]) for e in ext_nodes),
                       "extract_all_results follows the stage call and the stage is not re-entered after it",
                       run.where(fi, c))
    # nothing on the raise paths writes a res_ table: the writers of res_* are extract_results methods,
    # reachable only through extract_all_results
    res_writers = set()
    for f in funcs:
        for n in ast.walk(f.node):
            if isinstance(n, ast.Subscript) and isinstance(n.ctx, ast.Store) or isinstance(n, ast.Assign):
                pass
        src_writes = [n for n in ast.walk(f.node) if isinstance(n, ast.Assign)
                      and any(_writes_res_table(t) for t in n.targets)]
        if src_writes:
            res_writers.add(f.qualname)
    ear = ix.func("pandapipes.pf.result_extraction.extract_all_results")
    behind = set(cg.reachable([ear]).keys()) | {iar.qualname} | set(cg.reachable([iar]).keys())
    for w in sorted(res_writers):
        run.ob("res-writer-behind-extraction|%s" % w.replace("pandapipes.", ""), w in behind,
               "function storing into a res_ table is reachable only via extract_all_results / init_all_result_tables",
               w)
    run.floor(10)


def _base(t):
    from ..arrnf import base_of
    return base_of(t)


def _final_stores(stores):
    """the stores that are still in effect at the end of some path: not followed by a store to the same place whose path
    condition is implied by theirs"""
    from ..arrnf import key as tkey
    out = []
    for s_ in stores:
        c1 = {(tkey(c), p) for c, p in s_.cond}
        over = False
        for s2 in stores:
            if s2.seq > s_.seq and tkey(s2.index) == tkey(s_.index):
                c2 = {(tkey(c), p) for c, p in s2.cond}
                if c2 <= c1:
                    over = True
                    break
        if not over:
            out.append(s_)
    return out


def _branches_of(fnode):
    """statement lists of the leaf arms of the top-level if/else chain of a function body"""
    body = [s for s in fnode.body if not (isinstance(s, ast.Expr) and isinstance(s.value, ast.Constant))]
    ifs = [s for s in body if isinstance(s, ast.If)]
    if not ifs:
        return [body]
    out = []

    def rec(st):
        out.append(st.body)
        if len(st.orelse) == 1 and isinstance(st.orelse[0], ast.If):
            rec(st.orelse[0])
        elif st.orelse:
            out.append(st.orelse)
    rec(ifs[-1])
    return out


def _writes_res_table(t):
    """target like net['res_' + x][...] / res_table[...]... = ; conservative syntactic detector"""
    s = U(t)
    return ("res_table[" in s or "net['res_" in s or 'net["res_' in s or "net[res_" in s) \
        and isinstance(t, (ast.Subscript, ast.Attribute))


# ---------------------------------------------------------------------------------------------
def _nr_sites(run):
    ix = run.index
    nr = ix.func(P + ".newton_raphson")
    sites = []
    for f in ix.module(P).functions.values():
        for c in calls(f.node, "newton_raphson"):
            if isinstance(c.func, ast.Name):
                sites.append((f, c, bind_args(nr, c)))
    if len(sites) < 3:
        raise AnalysisError("fewer than 3 newton_raphson call sites found (%d)" % len(sites))
    return nr, sites


def _static_seq(fi, expr, depth=0):
    """element expressions of a sequence written as a display, a concatenation of displays, list(...) / tuple(...) of one, a
    starred splice, or a local name bound once to such an expression (None when it is none of these)"""
    if depth > 6:
        return None
    if isinstance(expr, ast.Name):
        asg = assignments(fi.node, expr.id)
        if len(asg) != 1 or asg[0][2] is not None:
            return None
        return _static_seq(fi, asg[0][1], depth + 1)
    if isinstance(expr, (ast.List, ast.Tuple)):
        out = []
        for e in expr.elts:
            if isinstance(e, ast.Starred):
                sub = _static_seq(fi, e.value, depth + 1)
                if sub is None:
                    return None
                out.extend(sub)
            else:
                out.append(e)
        return out
    if isinstance(expr, ast.BinOp) and isinstance(expr.op, ast.Add):
        a, b = _static_seq(fi, expr.left, depth + 1), _static_seq(fi, expr.right, depth + 1)
        return None if a is None or b is None else a + b
    if isinstance(expr, ast.Call) and callee_name(expr) in ("list", "tuple") and len(expr.args) == 1 and not expr.keywords:
        return _static_seq(fi, expr.args[0], depth + 1)
    return None


def _list_of_strs(fi, expr):
    seq = _static_seq(fi, expr)
    if seq is not None and all(const_str(e) is not None for e in seq):
        return [e.value for e in seq]
    raise AnalysisError("expected a literal list of strings, got %s in %s" % (U(expr), fi.qualname))


def _tol_options(fi, expr):
    """tols argument -> list of option names each tolerance was read from"""
    seq = _static_seq(fi, expr)
    if seq is None:
        # all tolerances read at once: list(get_net_options(net, "tol_m", "tol_p", ...)) gives the options in argument order
        e0 = expr
        if isinstance(e0, ast.Name):
            asg = assignments(fi.node, e0.id)
            e0 = asg[0][1] if len(asg) == 1 and asg[0][2] is None else e0
        while isinstance(e0, ast.Call) and callee_name(e0) in ("list", "tuple") and len(e0.args) == 1:
            e0 = e0.args[0]
        if isinstance(e0, ast.Call) and callee_name(e0) == "get_net_options" and not e0.keywords \
                and all(const_str(a) is not None for a in e0.args[1:]):
            return [const_str(a) for a in e0.args[1:]]
        raise AnalysisError("tols is not a list display: %s" % U(expr))
    out = []
    for e in seq:
        if not isinstance(e, ast.Name):
            raise AnalysisError("tolerance entry %s is not a local name" % U(e))
        asg = assignments(fi.node, e.id)
        if len(asg) != 1:
            raise AnalysisError("tolerance %s not uniquely bound in %s" % (e.id, fi.qualname))
        _, val, pos = asg[0]
        call = val
        if isinstance(call, ast.Call) and callee_name(call) == "next" and call.args:
            call = call.args[0]
            pos = 0
        if isinstance(call, ast.Call) and callee_name(call) in ("get_net_options",):
            names = [const_str(a) for a in call.args[1:]]
            out.append(names[pos if pos is not None else 0])
        elif isinstance(call, ast.Call) and callee_name(call) == "get_net_option":
            out.append(const_str(call.args[1]))
        else:
            raise AnalysisError("tolerance %s is not read with get_net_option(s): %s" % (e.id, U(val)))
    return out


def _pit_of(fi, name):
    """local `name` bound to net["_active_pit"]["branch"|"node"] -> 'branch'|'node'"""
    for _, val, pos in assignments(fi.node, name):
        if pos is None and isinstance(val, ast.Subscript):
            k = const_str(val.slice)
            if k in ("branch", "node") and "pit" in U(val.value):
                return k
    return None


def fold_list(ix, fi, expr, depth=0):
    """statically fold a list-valued expression into [(owner FunctionInfo, element expr)]"""
    if depth > 6:
        raise AnalysisError("list folding too deep at %s" % U(expr))
    if isinstance(expr, (ast.List, ast.Tuple)):
        return [(fi, e) for e in expr.elts]
    if isinstance(expr, ast.BinOp) and isinstance(expr.op, ast.Add):
        return fold_list(ix, fi, expr.left, depth + 1) + fold_list(ix, fi, expr.right, depth + 1)
    if isinstance(expr, ast.Name):
        asg = assignments(fi.node, expr.id)
        if len(asg) != 1:
            raise AnalysisError("%s in %s not bound exactly once" % (expr.id, fi.qualname))
        _, val, pos = asg[0]
        if pos is None:
            return fold_list(ix, fi, val, depth + 1)
        if isinstance(val, ast.Call):
            tg = ix.resolve_call(fi, val)
            if len(tg) == 1:
                g = tg[0]
                folded = None
                for r in returns(g.node):
                    if not isinstance(r.value, ast.Tuple) or pos >= len(r.value.elts):
                        raise AnalysisError("return of %s is not a tuple display" % g.qualname)
                    f2 = fold_list(ix, g, r.value.elts[pos], depth + 1)
                    if folded is None:
                        folded = f2
                    elif [U(e) for _, e in f2] != [U(e) for _, e in folded]:
                        raise AnalysisError("returns of %s disagree on element %d" % (g.qualname, pos))
                if folded is None:
                    raise AnalysisError("%s has no return" % g.qualname)
                return folded
    raise AnalysisError("cannot fold list expression %s in %s" % (U(expr), fi.qualname))


EXPECTED_TOL = {"mdot": "tol_m", "mdotslack": "tol_m", "p": "tol_p", "t": "tol_T", "tout": "tol_T"}


def _column_name_expr(ix):
    """how finalize_iteration finds the pit column of a solver variable: `globals()[<expr of the variable>]` or a lookup in a
    table `{<name>: <COLUMN>, ...}[<expr of the variable>]` (a module-level dict, substituted at its use).
    Returns (resolve, variable name) with resolve(v) -> (column name, defining idx module, attribute) for the solver variable v"""
    fin = ix.func(P + ".finalize_iteration")
    pmod = ix.module(P)
    found = []
    for n in ast.walk(fin.node):
        if isinstance(n, ast.Subscript) and isinstance(n.value, ast.Call) and U(n.value.func) == "globals":
            found.append(("globals", n.slice, None))
        elif isinstance(n, ast.Subscript) and isinstance(n.value, ast.Dict) and n.value.keys and all(const_str(k) is not None for k in n.value.keys) \
                and all(isinstance(v, ast.Name) for v in n.value.values):
            found.append(("table", n.slice, {const_str(k): v.id for k, v in zip(n.value.keys, n.value.values)}))
    forms = {(k, U(sl)) for k, sl, _ in found}
    if len(forms) != 1:
        raise AnalysisError("finalize_iteration: expected one globals()[...] / table[...] column expression, found %s" % sorted(forms))
    kind, node, table = found[0]
    names = [x.id for x in ast.walk(node) if isinstance(x, ast.Name)]
    if len(set(names)) != 1:
        raise AnalysisError("column expression %s does not depend on exactly one variable" % U(node))

    def resolve(v):
        k = eval_str_expr(node, {names[0]: v})
        cname = k if kind == "globals" else table.get(k)
        if cname is None:
            return "%s[%r]" % ("table", k), None, None
        imp = pmod.imports.get(cname)
        if imp is None:
            imp = ix.func_imports(fin).get(cname)
        ok = imp is not None and imp[0] == "attr" and imp[1] in ("pandapipes.idx_branch", "pandapipes.idx_node")
        return cname, (imp[1] if ok else None), (imp[2] if ok else None)
    return resolve, names[0]


def _solve_results(ix, g, depth=0):
    """[(result items, filter items, function)] per return of a solve function; an item is (term, updates) where updates
    are the augmented stores of the function the term was evaluated in.  Lists taken from other solve functions
    (solve_bidirectional) are substituted."""
    from ..arrnf import ANF
    if depth > 3:
        raise AnalysisError("solve functions nested too deep")
    ps = g.params()
    r = ANF(ix, g, param_alias={ps[0]: "net"}, strip=False).run()
    upd = [e for e in r.stores() if e.aug]
    out = []

    def items(t):
        if t[0] in ("list", "tuple"):
            return [(x, upd) for x in t[1]]
        if t[0] == "op" and t[1] == "++":
            return items(t[2]) + items(t[3])
        if t[0] == "proj" and t[1][0] == "call" and t[1][1][0] == "f":
            sub = _solve_results(ix, ix.func(t[1][1][1]), depth + 1)
            if t[2] not in (0, 2):
                raise AnalysisError("unrecognised shape: component %d of a solve function used as list" % t[2])
            # the normal (last) return of the callee; its early returns are checked when the callee is a stage function itself
            return list(sub[-1][0 if t[2] == 0 else 1])
        raise AnalysisError("unrecognised shape: result list %s" % str(t)[:100])
    for e in r.returns():
        v = e.value
        if not (v[0] == "tuple" and len(v[1]) == 3):
            raise AnalysisError("unrecognised shape: %s does not return (results, residual, filtered)" % g.qualname)
        out.append((items(v[1][0]), items(v[1][2]), g))
    if not out:
        raise AnalysisError("%s has no return" % g.qualname)
    return out


def _pair_ok_t(new_i, old_i, cmod, cattr, pit, filt_i):
    from ..arrnf import FULL, C, base_of, key as tkey, show as tshow
    (new, upd), (old, _) = new_i, old_i
    ns = (cmod or "").rsplit(".", 1)[-1]
    colk = ("k", "%s.%s" % (ns, cattr))
    # old: <pit>[rows, COL].copy() of the not yet updated pit
    if not (old[0] == "call" and old[1][0] == "attr" and old[1][2] == "copy"):
        return False, "old value is not a .copy() (%s)" % tshow(old)[:60]
    src = old[1][1]
    if not (src[0] == "idx" and len(src[2]) == 2):
        return False, "old value copies %s" % tshow(src)[:60]
    P0, rows, col = src[1], src[2][0], src[2][1]
    if P0[0] == "upd":
        # reading through an updated array is fine as long as the update did not touch this column
        if any(isinstance(x, tuple) and x and x[0] == "upd" and len(x[2]) == 2 and x[2][1] == col for x in _upd_chain(P0)):
            return False, "old value is copied after the update of the column"
        P0 = base_of(P0)
    want_pit = ("idx", ("idx", ("n", "net"), (C("_active_pit"),)), (C(pit),))
    if pit is not None and tkey(P0) != tkey(want_pit):
        return False, "old value reads %s, not the active %s pit" % (tshow(P0)[:50], pit)
    if col != colk:
        return False, "old value copies column %s" % tshow(col)
    # new: the current value of the same entries
    cur = ("idx", P0, (rows, col))
    updates = [e for e in upd if tkey(base_of(e.base)) == tkey(P0) and len(e.index) == 2 and e.index[1] == col]
    if tkey(new) == tkey(cur):
        if rows != FULL and updates:
            return False, "new value is a fancy-indexed copy taken before the update"
    else:
        if not any(tkey(e.index[0]) == tkey(rows) and tkey(e.value) == tkey(new) for e in updates):
            return False, "new value %s is not the (updated) column %s of the same rows" % (tshow(new)[:60], cattr)
    if filt_i is not None:
        ft = filt_i[0]
        if (ft == C(None)) != (rows == FULL):
            return False, "row selection %s does not match filter entry %s" % (tshow(rows)[:40], tshow(ft)[:40])
        if ft != C(None) and tkey(ft) != tkey(rows):
            return False, "row selection %s differs from filter entry %s" % (tshow(rows)[:40], tshow(ft)[:40])
    return True, "ok"


def _upd_chain(t):
    out = []
    while isinstance(t, tuple) and t and t[0] == "upd":
        out.append(t)
        t = t[1]
    return out


def r5_5(run):
    ix = run.index
    nr, sites = _nr_sites(run)
    col_expr, col_var = _column_name_expr(ix)
    pmod = ix.module(P)
    for fi, call, b in sites:
        run.analysed(fi)
        stage = fi.name
        w = run.where(fi, call)
        svars = _list_of_strs(fi, b["solver_vars"])
        pits = _list_of_strs(fi, b["pit_names"])
        tols = _tol_options(fi, b["tols"])
        run.ob("%s|len(tols)==len(solver_vars)" % stage, len(tols) == len(svars),
               "one tolerance per solver variable (%d vs %d)" % (len(tols), len(svars)), w)
        run.ob("%s|len(pit_names)==len(solver_vars)" % stage, len(pits) == len(svars),
               "one pit name per solver variable (%d vs %d)" % (len(pits), len(svars)), w)
        cols = []
        for i, v in enumerate(svars):
            cname, cmod_, cattr_ = col_expr(v)
            ok = cmod_ is not None
            ns = cmod_.rsplit("_", 1)[1] if ok else None
            cols.append((cname, cmod_, cattr_))
            run.ob("%s|column-resolves|%s" % (stage, v), ok,
                   "column name %s resolves in pipeflow's globals to an idx constant" % cname, w)
            if ok and i < len(pits):
                run.ob("%s|column-namespace|%s" % (stage, v), ns == pits[i],
                       "%s is a %s-pit column and pit_names[%d] == %r" % (cname, ns, i, pits[i]), w)
            if i < len(tols):
                exp = EXPECTED_TOL.get(v.lower())
                run.ob("%s|tolerance-of|%s" % (stage, v), exp is not None and tols[i] == exp,
                       "variable %s is tested against option %s (documented: %s)" % (v, tols[i], exp), w)
        # result pairs of the registered solve function (whole-function terms: temporaries, helper functions and the place
        # where the result list is built do not matter)
        fexpr = b["funct"]
        r = ix.resolve_in(fi, fexpr.id) if isinstance(fexpr, ast.Name) else None
        if not (r and r[0] == "func"):
            raise AnalysisError("solve function %s of %s not resolvable" % (U(fexpr), stage))
        g = r[1]
        run.analysed(g)
        for n_ret, (res, filt, gq) in enumerate(_solve_results(ix, g)):
            key = "%s|%s" % (stage, g.name)
            wg = run.where(g, g.node)
            run.ob("%s|result-pairs==2*len(solver_vars)" % key, len(res) == 2 * len(svars),
                   "%s returns %d result entries for %d solver variables (needs %d)" % (g.name, len(res), len(svars), 2 * len(svars)), wg)
            run.ob("%s|len(filtered)==len(solver_vars)" % key, len(filt) == len(svars),
                   "%s returns %d filter entries for %d solver variables" % (g.name, len(filt), len(svars)), wg)
            for i, v in enumerate(svars):
                if 2 * i + 1 >= len(res):
                    break
                cname, cmod, cattr = cols[i]
                ok, why = _pair_ok_t(res[2 * i], res[2 * i + 1], cmod, cattr, pits[i] if i < len(pits) else None,
                                     filt[i] if i < len(filt) else None)
                run.ob("%s|pair-%d-is|%s" % (key, i, v), ok,
                       "result pair %d is (current value, copy taken before the update) of column %s in the %s pit with the row filter of "
                       "filtered[%d]: %s" % (i, cname, pits[i] if i < len(pits) else "?", i, why), wg)
    run.floor(30)


def _col_identity(ix, fi, colnode):
    if not isinstance(colnode, ast.Name):
        return None
    mi = ix.module(fi.module)
    imp = mi.imports.get(colnode.id)
    if imp and imp[0] == "attr":
        return (imp[1], imp[2])
    return None


def _pair_ok(ix, fn_new, new, fn_old, old, cmod, cattr, pit, filt):
    sp = subscript_parts(new)
    if not sp or len(sp[1]) != 2 or not isinstance(sp[0], ast.Name):
        return False, "new value is not pit[rows, COL]"
    pitk = _pit_of(fn_new, sp[0].id)
    if pit is not None and pitk != pit:
        return False, "new value reads the %s pit" % pitk
    if _col_identity(ix, fn_new, sp[1][1]) != (cmod, cattr):
        return False, "new value reads column %s" % U(sp[1][1])
    rows = sp[1][0]
    if not isinstance(old, ast.Name):
        return False, "old value is not a saved local"
    asg = assignments(fn_old.node, old.id)
    if len(asg) != 1:
        return False, "old value %s not bound once" % old.id
    val = asg[0][1]
    if not (isinstance(val, ast.Call) and isinstance(val.func, ast.Attribute) and val.func.attr == "copy"):
        return False, "old value is not a .copy() taken before the update"
    sp2 = subscript_parts(val.func.value)
    if not sp2 or U(sp2[0]) != U(sp[0]) or len(sp2[1]) != 2:
        return False, "old value copies %s" % U(val.func.value)
    if _col_identity(ix, fn_old, sp2[1][1]) != (cmod, cattr):
        return False, "old value copies column %s" % U(sp2[1][1])
    if U(sp2[1][0]) != U(rows):
        return False, "old and new use different row selections"
    if filt is not None:
        f_none = isinstance(filt, ast.Constant) and filt.value is None
        if f_none != full_slice(rows):
            return False, "row selection %s does not match filter entry %s" % (U(rows), U(filt))
        if not f_none and U(filt) != U(rows):
            return False, "row selection %s differs from filter entry %s" % (U(rows), U(filt))
    # the copy must be taken before the in-place update of that column
    upd = [n for n in own_walk(fn_new.node) if isinstance(n, ast.AugAssign) and U(n.target) == U(new)]
    if upd and not all(asg[0][0].lineno < u.lineno for u in upd):
        return False, "old value is copied after the update"
    return True, "ok"


# ---------------------------------------------------------------------------------------------
def stage_iteration_options(run):
    """each solver stage reads the iteration limit of its own mode (shared with C14: the option in force for a stage is the
    option of that stage)"""
    ix = run.index
    nr, sites = _nr_sites(run)
    expect = {"hydraulics": "max_iter_hyd", "heat_transfer": "max_iter_therm", "bidirectional": "max_iter_bidirect"}
    ps = ix.module(PS)
    defaults = ix.eval_const(PS, ps.assigns["default_options"])
    for fi, call, b in sites:
        nm = const_str(b["iter_name"])
        run.ob("%s|iter-option" % fi.name, nm == expect.get(fi.name),
               "stage %s passes iteration option %r (expected %r)" % (fi.name, nm, expect.get(fi.name)),
               run.where(fi, call))
        run.ob("%s|iter-option-has-default" % fi.name, nm in defaults and isinstance(defaults.get(nm), int),
               "option %r has an integer default" % nm, run.where(fi, call))


def r5_4(run):
    ix = run.index
    nr, sites = _nr_sites(run)
    run.analysed(nr)
    # whole-function terms: the loop test as every pass evaluates it, the counter as a loop-carried value
    from ..arrnf import ANF as _ANF, conjuncts as _conj, key as _tk, show as _ts, norm_cond as _nc, mk_opn as _mk
    pnr = nr.params()
    if len(pnr) != 7:
        raise AnalysisError("newton_raphson no longer has 7 parameters")
    rnr = _ANF(ix, nr, param_alias=dict(zip(pnr, ("net", "funct", "mode", "solver_vars", "tols", "pit_names", "iter_name")))).run()
    wl_ = [(lid, L) for lid, L in rnr.loops.items() if isinstance(L["node"], ast.While) and not L["cond"] and len([x for x in rnr.loops.values() if isinstance(x["node"], ast.While)]) >= 1]
    whiles = [(lid, L) for lid, L in rnr.loops.items() if isinstance(L["node"], ast.While)]
    run.ob("newton_raphson|single-while", len(whiles) == 1, "newton_raphson has exactly one iteration loop", run.where(nr, nr.node))
    if len(whiles) != 1:
        return
    lid, L = whiles[0]
    wl = L["node"]
    test = L["iter"][1]
    conj = list(test[2]) if test[0] == "bool" and test[1] == "and" else [test]
    bound = [c for c in conj if c[0] == "cmp" and c[1] in ("<", ">") and any(x[0] == "carried" and x[3] == lid for x in c[2:4])]
    run.ob("newton_raphson|loop-bounded", len(bound) == 1,
           "the while test conjoins `<counter> < <limit>`: %s" % _ts(test)[:120], run.where(nr, wl))
    if len(bound) != 1:
        return
    b = bound[0]
    ctr, lim = (b[2], b[3]) if b[2][0] == "carried" else (b[3], b[2])
    strict_lt = (b[1] == "<") == (b[2][0] == "carried")
    run.ob("newton_raphson|counter-below-limit", strict_lt, "the loop continues while the counter is below the limit", run.where(nr, wl))
    # limit comes from the option named by parameter iter_name
    def from_iter_name(t):
        if t[0] == "call" and t[1][0] == "f" and t[1][1].endswith(".get_net_option") and len(t[2]) == 2:
            return t[2][1] == ("n", "iter_name")
        if t[0] in ("proj", "idx"):
            c_ = t[1]
            k_ = t[2] if t[0] == "proj" else (t[2][0][1] if len(t[2]) == 1 and t[2][0][0] == "c" else None)
            if c_[0] == "call" and c_[1][0] == "f" and c_[1][1].endswith(".get_net_options") and isinstance(k_, int) and 1 + k_ < len(c_[2]):
                return c_[2][1 + k_] == ("n", "iter_name")
        return False
    run.ob("newton_raphson|limit-from-iter_name", from_iter_name(lim),
           "the loop limit is the option named by parameter iter_name and is not reassigned", run.where(nr, wl), detail=_ts(lim)[:100])
    # counter: initialised to a constant before, incremented by 1 on every path through the body
    run.ob("newton_raphson|counter-init", ctr[2][0] == "c" and isinstance(ctr[2][1], int), "the counter is initialised once before the loop",
           run.where(nr, wl), detail=_ts(ctr[2]))
    nxt = L["env"].get(ctr[1])
    run.ob("newton_raphson|counter-incremented-on-every-path", nxt is not None and _tk(nxt) == _tk(_mk("+", [ctr, ("c", 1)])),
           "the counter is increased by exactly 1 on every path through the loop body (also on `continue` paths)", run.where(nr, wl),
           detail=_ts(nxt)[:120] if nxt is not None else None)
    # mode-specific option names
    stage_iteration_options(run)
    # solve_hydraulics' inner restart loop must make progress: it only repeats while the connectivity changed
    sh = ix.func(P + ".solve_hydraulics")
    inner = [n for n in own_walk(sh.node) if isinstance(n, ast.While)]
    for wl2 in inner:
        # accepted forms: (A) `while flag: ...; flag = _restart_connectivity_check(net)`   (B) `while True: ...; if not _restart_...(net): break`
        def is_check(e):
            return isinstance(e, ast.Call) and callee_name(e) == "_restart_connectivity_check"
        ok, form = False, "?"
        if isinstance(wl2.test, ast.Name):
            flag = wl2.test.id
            reassigned = [n for n in ast.walk(wl2) if isinstance(n, ast.Assign) and any(U(t) == flag for t in n.targets)]
            ok = bool(reassigned) and all(is_check(n.value) for n in reassigned) and \
                any(n in wl2.body for n in reassigned)
            form = "flag `%s` recomputed" % flag
        elif isinstance(wl2.test, ast.Constant) and wl2.test.value is True and wl2.body:
            last = wl2.body[-1]
            brk = lambda b: len(b) == 1 and isinstance(b[0], ast.Break)
            if isinstance(last, ast.If) and isinstance(last.test, ast.UnaryOp) and isinstance(last.test.op, ast.Not) \
                    and is_check(last.test.operand) and brk(last.body) and not last.orelse:
                ok = True
            elif isinstance(last, ast.If) and is_check(last.test) and brk(last.orelse) and \
                    (not last.body or all(isinstance(x, (ast.Continue, ast.Pass)) for x in last.body)):
                ok = True
            # no other way round the loop: no `continue` before the final test
            ok = ok and not any(isinstance(n, ast.Continue) for st_ in wl2.body[:-1] for n in ast.walk(st_))
            form = "`while True` left when the check returns False"
        else:
            raise AnalysisError("unrecognised shape: restart loop of solve_hydraulics `while %s`" % U(wl2.test)[:60])
        run.ob("solve_hydraulics|restart-loop-flag-recomputed", ok,
               "the restart loop repeats only while _restart_connectivity_check reports a changed connectivity (%s)" % form,
               run.where(sh, wl2))
    run.floor(10)


# ---------------------------------------------------------------------------------------------
def r5_6(run):
    """NaN guards of the thermal solve, on whole-function terms: which early return is taken under which condition, and that
    the in-place update happens only on the path where both guards passed (no names, no line numbers)"""
    from ..arrnf import ANF as _ANF, norm_cond as _nc, key as _tk, show as _ts, walk as _walk
    ix = run.index
    st = ix.func(P + ".solve_temperature")
    run.analysed(st)
    w = run.where(st, st.node)
    r = _ANF(ix, st, param_alias={st.params()[0]: "net"}).run()

    def nan_residual(v):
        # (results, np.array([np.nan]), filtered)
        return v[0] == "tuple" and len(v[1]) == 3 and v[1][1][0] == "call" and v[1][1][1] == ("x", "numpy.array") and v[1][1][2] \
            and v[1][1][2][0] == ("list", (("c", "nan"),))

    def is_infeed_guard(c_, pol):
        c_, pol = _nc(c_, pol)
        return (not pol) and c_[0] == "call" and c_[1][0] == "f" and c_[1][1].endswith(".check_infeed_number")

    def is_nan_guard(c_, pol):
        c_, pol = _nc(c_, pol)
        # np.any(np.isnan(x)) / np.isnan(x).any() with x the result of the linear solve
        if not (pol and c_[0] == "call" and c_[1] in (("x", "numpy.any"), ("x", "builtins.any")) and len(c_[2]) == 1):
            return False
        a = c_[2][0]
        return a[0] == "call" and a[1] == ("x", "numpy.isnan") and len(a[2]) == 1 and a[2][0][0] == "call" \
            and a[2][0][1][0] == "x" and a[2][0][1][1].endswith("spsolve")
    rets = r.returns()
    g_infeed = [e for e in rets if any(is_infeed_guard(c_, p_) for c_, p_ in e.cond)]
    g_nan = [e for e in rets if any(is_nan_guard(c_, p_) for c_, p_ in e.cond)]
    run.ob("solve_temperature|two-nan-guards", len(g_infeed) >= 1 and len(g_nan) >= 1,
           "solve_temperature guards on check_infeed_number and on NaN in the linear solution", w)
    for label, grp in (("check_infeed_number", g_infeed), ("isnan(solution)", g_nan)):
        run.ob("solve_temperature|guard-returns-nan-residual|%s" % label, bool(grp) and all(nan_residual(e.value) for e in grp),
               "the guard's early return yields a literal NaN residual array", w,
               detail="; ".join(_ts(e.value[1][1])[:60] for e in grp if e.value[0] == "tuple" and len(e.value[1]) == 3))
    upd = [e for e in r.stores() if e.aug and len(e.index) == 2 and e.index[1][0] == "k"]
    for label, neg in (("check_infeed_number", is_infeed_guard), ("isnan(solution)", is_nan_guard)):
        # on the path of the update the guard was evaluated and not taken
        def passed(e):
            for c_, p_ in e.cond:
                c2, p2 = _nc(c_, p_)
                if neg(c2, not p2):
                    return True
            return False
        run.ob("solve_temperature|guard-before-update|%s" % label, len(upd) >= 2 and all(passed(e) for e in upd),
               "the in-place update of TINIT/TOUTINIT happens only where the guard was passed", w)
    run.ob("solve_temperature|nan-test-on-solution", len(g_nan) >= 1, "the NaN guard tests the spsolve result", w)
    # newton_raphson computes residual_norm = max(abs(residual)) -> NaN propagates
    nr = ix.func(P + ".newton_raphson")
    from ..arrnf import ANF, walk as twalk
    rnr = ANF(ix, nr).run()
    fin = ix.func(P + ".finalize_iteration")
    ok = False
    for c_ in rnr.calls():
        if c_.fn == ("f", fin.qualname):
            a_ = dict(zip(fin.params(), c_.args))
            a_.update(dict(c_.kw))
            v = a_.get("residual_norm")
            # max(abs(<residual returned by the solve>)): NaN in the residual makes the norm NaN
            ok = ok or (v is not None and v[0] == "call" and v[1] in (("x", "numpy.max"), ("x", "numpy.nanmax")) and v[1] == ("x", "numpy.max")
                        and v[2] and v[2][0][0] == "call" and v[2][0][1] in (("x", "numpy.abs"), ("x", "numpy.absolute"))
                        and v[2][0][2][0][0] in ("idx", "proj"))
    run.ob("newton_raphson|residual-norm-nan-propagating", ok,
           "residual_norm = np.max(np.abs(residual)) (propagates NaN)", run.where(nr, nr.node))
    run.floor(4)


# ---------------------------------------------------------------------------------------------
class VerdictOracle(Oracle):
    """abstract state: err class per variable, residual class, 'increased' flag per variable"""

    def __init__(self, ecls, rcls, inc):
        self.ecls, self.rcls, self.inc = ecls, rcls, inc

    @staticmethod
    def _rel(cls, op):
        # cls in LT, EQ, GT, NAN : relation of value to its tolerance
        if cls == "NAN":
            return op == "!="
        return {"<": cls == "LT", "<=": cls in ("LT", "EQ"), ">": cls == "GT", ">=": cls in ("GT", "EQ"),
                "==": cls == "EQ", "!=": cls != "EQ"}[op]

    def compare(self, op, a, b):
        flip = {"<": ">", "<=": ">=", ">": "<", ">=": "<=", "==": "==", "!=": "!="}
        if isinstance(a, Tok) and isinstance(b, Tok):
            an, bn = a.name, b.name
            for x, y, o in ((an, bn, op), (bn, an, flip[op])):
                if x.startswith("err_cur_") and y == "tol_" + x[8:]:
                    return self._rel(self.ecls[int(x[8:])], o)
                if x == "residual" and y == "tol_res":
                    return self._rel(self.rcls, o)
                if x.startswith("err_cur_") and y == "err_prev_" + x[8:]:
                    i = int(x[8:])
                    if self.ecls[i] == "NAN":
                        return o == "!="
                    return {">": self.inc[i], "<=": not self.inc[i]}.get(o, None) \
                        if o in (">", "<=") else Oracle.compare(self, op, a, b)
        return Oracle.compare(self, op, a, b)


def _some_solver_vars(ix, k):
    """k distinct solver variable names that a stage really registers (the column of a variable may be looked up in a table that
    knows only those), made-up names when no stage has that many"""
    cache = getattr(ix, "_c05_svars", None)
    if cache is None:
        cache = []
        nr = ix.func(P + ".newton_raphson")
        for f in ix.module(P).functions.values():
            for c in calls(f.node, "newton_raphson"):
                if isinstance(c.func, ast.Name):
                    try:
                        names = _list_of_strs(f, bind_args(nr, c)["solver_vars"])
                    except (AnalysisError, KeyError):
                        continue
                    for n_ in names:
                        if n_ not in cache:
                            cache.append(n_)
        ix._c05_svars = cache
    return list(cache[:k]) if len(cache) >= k else ["v%d" % i for i in range(k)]


def _run_finalize(ix, k, method, alpha0, ecls, rcls, inc):
    fin = ix.func(P + ".finalize_iteration")
    svars = _some_solver_vars(ix, k)
    it = Interp(ix, VerdictOracle(ecls, rcls, inc))
    net = ANet()
    net["_options"] = {"alpha": alpha0}
    net["_active_pit"] = Recorder(it, ("_active_pit",))
    net["converged"] = "UNSET"
    errors = {v: [Tok("err_prev_%d" % i), Tok("err_cur_%d" % i)] for i, v in enumerate(svars)}
    it.call_function(fin, [net, 1, Tok("residual"), method], dict(
        errors=errors, tols=[Tok("tol_%d" % i) for i in range(k)], tol_res=Tok("tol_res"),
        vals_old=[Tok("old_%d" % i) for i in range(k)], solver_vars=svars,
        pit_names=["pit%d" % i for i in range(k)], filtered=[None if i % 2 == 0 else Tok("rows_%d" % i) for i in range(k)]))
    return net["converged"], net["_options"]["alpha"], it.stores


def _alpha_reps(ix):
    """representatives of the alpha classes induced by the numeric literals alpha is compared with"""
    sdf = ix.func(P + ".set_damping_factor")
    fin = ix.func(P + ".finalize_iteration")
    lits = set()
    for f in (sdf, fin):
        for n in ast.walk(f.node):
            if isinstance(n, ast.Compare):
                for c in [n.left] + n.comparators:
                    if isinstance(c, ast.Constant) and isinstance(c.value, (int, float)) and not isinstance(c.value, bool):
                        lits.add(float(c.value))
    lits |= {1.0}
    pts = sorted(lits)
    reps = set(pts)
    for a, b in zip(pts, pts[1:]):
        reps.add((a + b) / 2)
    reps.add(pts[0] / 2)
    return sorted(r for r in reps if 0 < r <= 1.0)


def r5_3(run):
    ix = run.index
    fin = ix.func(P + ".finalize_iteration")
    sdf = ix.func(P + ".set_damping_factor")
    run.analysed(fin)
    run.analysed(sdf)
    reps = _alpha_reps(ix)
    classes = ("LT", "EQ", "GT", "NAN")
    ks = (2, 3) if run.tier == "quick" else (2, 3, 4)
    n_cases = 0
    bad = {}   # kind -> first witness
    never_true = True
    alpha_escape = None
    for k in ks:
        for method in ("constant", "automatic", "other"):
            alphas = reps if method == "automatic" else [1.0, reps[0]]
            for alpha0 in alphas:
                for ecls in itertools.product(classes, repeat=k):
                    for rcls in classes:
                        incs = itertools.product((False, True), repeat=k) if method == "automatic" else [tuple([False] * k)]
                        for inc in incs:
                            n_cases += 1
                            try:
                                conv, alpha1, stores = _run_finalize(ix, k, method, alpha0, ecls, rcls, inc)
                            except Raised as r:
                                bad.setdefault("raises", (k, method, alpha0, ecls, rcls, inc, str(r)))
                                continue
                            case = dict(k=k, method=method, alpha_of_step=alpha0, errors=ecls, residual=rcls,
                                        increased=inc, verdict=conv, alpha_after=alpha1)
                            if conv not in (True, False):
                                bad.setdefault("verdict-not-boolean", case)
                                continue
                            if conv:
                                never_true = False
                                if any(c in ("GT", "NAN") for c in ecls):
                                    bad.setdefault("accepts-change-above-tolerance-or-NaN", case)
                                if rcls in ("GT", "NAN"):
                                    bad.setdefault("accepts-residual-above-tolerance-or-NaN", case)
                                if method == "automatic" and alpha0 != 1.0:
                                    bad.setdefault("accepts-damped-step", case)
                            else:
                                good = all(c == "LT" for c in ecls) and rcls == "LT"
                                if good and (method != "automatic" or (alpha0 == 1.0 and not all(inc))):
                                    bad.setdefault("rejects-converged-undamped-step", case)
                            if method == "automatic" and not (0 < alpha1 <= 1.0):
                                alpha_escape = case
    run.stat("abstract_cases_enumerated", n_cases)
    run.stat("alpha_representatives", len(reps))
    w = run.where(fin, fin.node)
    for kind, text in (
            ("accepts-change-above-tolerance-or-NaN", "net.converged becomes True only if every change is within its tolerance (NaN counts as not within)"),
            ("accepts-residual-above-tolerance-or-NaN", "net.converged becomes True only if the residual norm is within tol_res (NaN counts as not within)"),
            ("accepts-damped-step", "with automatic damping net.converged becomes True only after an undamped step (alpha of the step == 1)"),
            ("rejects-converged-undamped-step", "an undamped step with every change and the residual below tolerance is accepted (non-vacuity of the verdict)"),
            ("verdict-not-boolean", "finalize_iteration always assigns a boolean verdict"),
            ("raises", "finalize_iteration does not raise for any abstract input")):
        run.ob("finalize_iteration|%s" % kind, kind not in bad, text, w,
               detail=None if kind not in bad else "abstract witness: %s" % (bad[kind],))
    run.ob("finalize_iteration|verdict-reachable", not never_true, "some abstract input yields net.converged == True", w)
    run.ob("set_damping_factor|alpha-stays-in-(0,1]", alpha_escape is None,
           "automatic damping keeps alpha within (0, 1]", run.where(sdf, sdf.node),
           detail=None if alpha_escape is None else str(alpha_escape))
    run.floor(8)


# ---------------------------------------------------------------------------------------------
def r5_7(run):
    ix = run.index
    fin = ix.func(P + ".finalize_iteration")
    # abstractly: with automatic damping and error_i increased, the old value i is stored to column of var i in pit i
    k = 3
    ok_all, detail = True, None
    seen_store = 0
    col_of, _cv = _column_name_expr(ix)
    svars3 = _some_solver_vars(ix, k)
    for inc in itertools.product((False, True), repeat=k):
        conv, alpha1, stores = _run_finalize(ix, k, "automatic", 1.0, ("LT",) * k, "LT", inc)
        want = []
        for i in range(k):
            if inc[i]:
                want.append(i)
        got = []
        for path, key, val in stores:
            if path and path[0] == "_active_pit":
                seen_store += 1
                i = int(val.name.split("_")[1]) if isinstance(val, Tok) and val.name.startswith("old_") else None
                pit_ok = len(path) == 2 and path[1] == "pit%d" % i
                rows = key[0] if isinstance(key, tuple) and len(key) == 2 else None
                rows_ok = (rows == slice(None, None, None)) if (i is not None and i % 2 == 0) else \
                    (isinstance(rows, Tok) and rows.name == "rows_%d" % i)
                col = key[1] if isinstance(key, tuple) and len(key) == 2 else None
                col_ok = isinstance(col, Opaque)
                if not col_ok and i is not None and isinstance(col, int) and not isinstance(col, bool):
                    # the column was found in a table of constants: it must be the column of variable i
                    _cn, cm_, ca_ = col_of(svars3[i])
                    col_ok = cm_ is not None and ix.try_const(cm_, ca_) == col
                if not (pit_ok and rows_ok and col_ok):
                    ok_all = False
                    detail = "store %s[%s] = %s under increased=%s" % (path, key, val, inc)
                got.append(i)
        if sorted(got) != want:
            ok_all = False
            detail = "increased=%s restores variables %s" % (inc, got)
    run.ob("finalize_iteration|rejected-step-restores-own-variable", ok_all and seen_store > 0,
           "for each variable whose error increased, its own old values are written back into its own pit on "
           "its own row filter (all rows when the filter is None)", run.where(fin, fin.node), detail=detail)
    # the column used for the restore is derived from the same variable as the zip position
    col_expr, col_var = _column_name_expr(ix)
    loops = [n for n in own_walk(fin.node) if isinstance(n, ast.For) and isinstance(n.iter, ast.Call)
             and callee_name(n.iter) == "zip" and any(U(a) == "vals_old" for a in n.iter.args)]
    ok = False
    if len(loops) == 1:
        names = [U(a) for a in loops[0].iter.args]
        tg = [U(t) for t in loops[0].target.elts] if isinstance(loops[0].target, ast.Tuple) else []
        ok = len(names) == len(tg) and "solver_vars" in names and tg[names.index("solver_vars")] == col_var
    run.ob("finalize_iteration|restore-column-from-own-variable", ok,
           "the restored column name is built from the loop variable bound to solver_vars", run.where(fin, fin.node))
    # set_damping_factor returns one flag per solver variable
    sdf = ix.func(P + ".set_damping_factor")
    it = Interp(ix, VerdictOracle(("LT", "LT"), "LT", (True, False)))
    net = ANet()
    net["_options"] = {"alpha": 1.0}
    r = it.call_function(sdf, [net, 1, {"a": [Tok("err_prev_0"), Tok("err_cur_0")], "b": [Tok("err_prev_1"), Tok("err_cur_1")]}])
    run.ob("set_damping_factor|one-flag-per-variable", r == [True, False],
           "set_damping_factor returns one increased-flag per solver variable in order", run.where(sdf, sdf.node),
           detail=str(r))
    run.floor(3)


def _is_element_index(t):
    """net[element].index (net possibly carrying earlier stores of this function)"""
    from ..arrnf import base_of
    return t is not None and t[0] == "attr" and t[2] == "index" and t[1][0] == "idx" and t[1][2] == (("n", "element"),) \
        and base_of(t[1][1]) == ("n", "net")


def _fires(ev, assign):
    return all(assign.get(repr(c)) == p for c, p in ev.cond)


def r5_8(run):
    """a failed run leaves no results: the reset that precedes every solver stage must not depend on how the previous tables are
    laid out in memory.  On every path through init_results_element the entry net['res_<element>'] is *rebound* to a freshly
    constructed all-NaN DataFrame with the element's index (an in-place reset through `.values[:] = nan` writes into a copy as
    soon as the frame holds more than one block and then leaves the old numbers in place)"""
    from ..arrnf import ANF, C, key as tkey, show as tshow
    import itertools
    ix = run.index
    f = ix.func("pandapipes.component_models.component_toolbox.init_results_element")
    run.analysed(f)
    ps = f.params()
    r = ANF(ix, f, param_alias={ps[0]: "net", ps[1]: "element"}).run()
    res_key = ("cat", (C("res_"), ("n", "element")))
    from ..arrnf import base_of
    good = [s_ for s_ in r.stores() if base_of(s_.base) == ("n", "net") and s_.index == (res_key,) and s_.value[0] == "call"
            and s_.value[1] == ("x", "pandas.DataFrame") and s_.value[2][:1] == (C("nan"),)
            and _is_element_index(dict(s_.value[3]).get("index"))]
    run.ob("init_results_element|fresh-nan-table-stored", len(good) >= 1,
           "init_results_element stores a new all-NaN DataFrame with the element's index as net['res_<element>']", run.where(f, f.node))
    events = sorted(good + r.returns(), key=lambda e: e.seq)
    atoms = sorted({repr(c) for e in events for c, p in e.cond})
    missed = []
    if len(atoms) <= 10:
        for vals in itertools.product((True, False), repeat=len(atoms)):
            a = dict(zip(atoms, vals))
            done = False
            for e in events:
                if not _fires(e, a):
                    continue
                if e.kind == "store":
                    done = True
                elif e.kind == "return":
                    break
            if not done:
                missed.append(a)
    else:
        raise AnalysisError("init_results_element has too many path conditions to enumerate")
    run.ob("init_results_element|rebound-on-every-path", not missed,
           "no path through init_results_element ends without rebinding the result table", run.where(f, f.node),
           detail="; ".join(", ".join("%s=%s" % (k[:60], v) for k, v in m.items()) for m in missed[:2]))
    # every component's init_results reaches it
    n = 0
    for c in ix.components():
        m = ix.lookup_method(c, "init_results")
        if m is None:
            continue
        n += 1
    iar = ix.func("pandapipes.pf.pipeflow_setup.init_all_result_tables")
    run.analysed(iar)
    ra = ANF(ix, iar).run()
    ok = any(c.fn[0] == "attr" and c.fn[2] == "init_results" and c.loops and not c.cond for c in ra.calls())
    run.ob("init_all_result_tables|every-component", ok and n >= 10,
           "init_all_result_tables calls init_results of every component of the net unconditionally", run.where(iar, iar.node))
    run.floor(3)


def r5_9(run):
    """"within the iteration budget in force": the budget is what the three option layers say at the time of the call.  Resolving the
    options must not leave traces in a stored layer (an `iter` shorthand expanded *into* net.user_pf_options would overrule a
    smaller `iter` set later) -- shared with C14 R14.1 / R14.2 (abstract interpretation of init_options over all presence patterns;
    the obligations keep their R14 labels)"""
    from .c14 import r14_1
    run.cur_rule = "R14.1"
    try:
        r14_1(run)
    finally:
        run.cur_rule = "R5.9"
    run.floor(0)


RULES = [("R5.1", r5_1), ("R5.2", r5_2), ("R5.3", r5_3), ("R5.4", r5_4), ("R5.5", r5_5), ("R5.6", r5_6),
         ("R5.7", r5_7), ("R5.8", r5_8), ("R5.9", r5_9)]

EXPLANATION += (' ' + "(R5.11) a result column that extract_results fills only under a solver option (compr_power_mw under "
                "calc_compression_power) is put into the result table by get_result_table under the same option and polarity: a column that "
                "is created but not written stays NaN in the rows of supplied, in-service elements of a run that returns normally.")


def r5_11(run):
    """a returned result is finite in every row of a calculated element: the table layout (get_result_table) and the writer
    (extract_results) of a component agree on the solver options a column depends on.  For every component, every column name that
    occurs in extract_results only under a literal `get_net_option(net, X)` / `options[X]` (same polarity at every occurrence) must occur
    in get_result_table only under that literal too."""
    import re
    from ..pathcond import parents, path_condition
    ix = run.index
    opt_re = re.compile(r"""(?:get_net_option\(\s*net\s*,\s*|options\[|options\.get\(\s*)['"](\w+)['"]""")

    def opt_lits(fnode, node, par):
        """option literals that hold when `node` is evaluated: enclosing tests, and the negated tests of earlier sibling statements
        `if <test>: return / raise / continue` (guard clauses) at every enclosing block level"""
        from ..pathcond import literals
        raw = set(path_condition(fnode, node, par))
        cur = node
        while cur in par and cur is not fnode:
            up = par[cur]
            for field in ("body", "orelse", "finalbody"):
                block = getattr(up, field, None)
                if isinstance(block, list) and cur in block:
                    for prev in block[:block.index(cur)]:
                        if isinstance(prev, ast.If) and not prev.orelse and prev.body and \
                                isinstance(prev.body[-1], (ast.Return, ast.Raise, ast.Continue)):
                            raw |= literals(fnode, prev.test, False)
            cur = up
        lits = set()
        for lit, pol in raw:
            mo = opt_re.search(lit)
            if mo and lit.strip().startswith(mo.group(0)[:6]):
                lits.add((mo.group(1), pol))
        return lits

    def occurrences(m, ci=None, extra=frozenset(), depth=0):
        par = parents(m.node)
        out = {}
        doc = getattr(m.node.body[0], "value", None) if m.node.body else None
        for n in ast.walk(m.node):
            if isinstance(n, ast.Constant) and isinstance(n.value, str) and n is not doc:
                out.setdefault(n.value, []).append((opt_lits(m.node, n, par) | extra, n))
            elif isinstance(n, ast.Call) and ci is not None and depth < 2 and isinstance(n.func, ast.Attribute) \
                    and isinstance(n.func.value, ast.Name) and n.func.value.id in ("cls", "self"):
                # a helper method of the component called from here: its occurrences hold under the conditions of the call
                h = ix.lookup_method(ci, n.func.attr)
                if h is not None and h is not m and h.short.split(".")[-1] not in ("get_result_table", "extract_results", "table_name"):
                    for col, occ in occurrences(h, ci, opt_lits(m.node, n, par) | extra, depth + 1).items():
                        out.setdefault(col, []).extend(occ)
        return out

    seen = set()
    gated = 0
    for ci in ix.components():
        t = ix.lookup_method(ci, "get_result_table")
        m = ix.lookup_method(ci, "extract_results")
        if t is None or m is None or (t.qualname, m.qualname) in seen:
            continue
        seen.add((t.qualname, m.qualname))
        run.analysed(t)
        run.analysed(m)
        tocc, mocc = occurrences(t, ci), occurrences(m, ci)
        for col, occ in sorted(mocc.items()):
            if col not in tocc:
                continue
            common = set.intersection(*[l for l, _ in occ])
            for L in sorted(common):
                gated += 1
                bad = [n for l, n in tocc[col] if L not in l]
                run.ob("%s|%s|created-iff-written|%s=%s" % (t.short.split(".")[0], col, L[0], L[1]), not bad,
                       "column %r is written only when option %s is %s, so the result table gets it only then" % (col, L[0], L[1]),
                       run.where(t, bad[0] if bad else tocc[col][0][1]))
    run.stat("option_gated_result_columns", gated)
    if gated < 1:
        raise AnalysisError("no option-gated result column found (compr_power_mw under calc_compression_power expected)")
    run.floor(1)


RULES.append(("R5.11", r5_11))
