"""C18 -- the topology graph agrees with the solver about what is connected (structural part).

 R18.1 parameter forwarding of create_nxgraph: every named include_/respect_status_/weighting_ parameter reaches the
       edge creation under the keyword the loop computes for the component's table
 R18.2 edge endpoint typing: both endpoints of an edge are junctions; polymorphic reference columns are discriminated
 R18.3 slack agreement: unsupplied_junctions consults the components the solver treats as pressure-fixing, same row filter
 R18.5 pipe weights and the effect of closed pipe valves
"""
import ast
import re

from .. import phys
from ..astutil import U, assignments, calls, callee_name, const_str, own_walk
from ..arrnf import ANF, C, FULL, contains, expand_comp, expect, key, match, norm_cond, show, walk
from ..phys import component, hook_summary
from ..source import AnalysisError

CG = "pandapipes.topology.create_graph"
GS = "pandapipes.topology.graph_searches"

EXPLANATION = (
    "(R18.1) the named parameters include_X / respect_status_X / weighting_X of create_nxgraph are enumerated from its "
    "signature; every X must be in the list that copies named parameters into branch_params, every X of that list must "
    "have its three named parameters (otherwise a None would override a keyword argument), and the keyword the loop "
    "computes for each branch component's table name ('<table>s', or '<kind>_circ_pumps') must be used for all three "
    "look-ups and, for every branch component of the package, be either a named X or reachable through **kwargs. "
    "(R18.2) add_branch_component takes both endpoints from from_to_node_cols; for a component whose reference column "
    "is polymorphic (valve.element, derived under C17) the rows are filtered by the discriminator so that only "
    "junction-junction valves become edges. (R18.3) the components consulted for supply by unsupplied_junctions equal "
    "the components that call set_fixed_node_entries(..., 'p') on the solver side (computed), with the same row "
    "filter (in service; type contains 'p' where the solver filters by type). (R18.5) the default pipe weight reads "
    "length_km and closed pipe valves clear their pipe's edge only under respect_status_valves. Not decided: equality "
    "(R18.6) every function of graph_searches that runs a weighted shortest-path search on a graph it builds itself builds a "
    "MultiGraph. Not decided: equality "
    "of connected components with the solver's islands for a concrete network (runtime).")
ASSUMPTIONS = ["pandapower's get_edge_table / add_edges add one edge per in-service row between indices[:, 1] and indices[:, 2]"]
TECHNIQUE = "signature/table agreement, keyword-construction check, solver-side slot filling from component hooks"
EXPLANATION += (' ' + '(R18.7, shared with C17 R17.7) the same for the topology functions. (R18.8, shared with C04 R4.9) pipe valves share an internal node exactly when junction and pipe agree, compared row-wise, so that the solver separates where the graph drops the edge.')


def _sh(ok, what):
    if not ok:
        raise AnalysisError("unrecognised shape: " + what)


def _abc_call(ix, r):
    abc = ix.func(CG + ".add_branch_component")
    cs = [c for c in r.calls() if c.fn == ("f", abc.qualname)]
    _sh(len(cs) == 1, "create_nxgraph calls add_branch_component once per component")
    out = dict(zip(abc.params(), cs[0].args))
    out.update(dict(cs[0].kw))
    return abc, cs[0], out


def r18_1(run):
    ix = run.index
    f = ix.func(CG + ".create_nxgraph")
    run.analysed(f)
    w = run.where(f, f.node)
    params = f.params()
    named = {}
    for p in params:
        m = re.match(r"(include|respect_status|weighting)_(\w+)$", p)
        if m and m.group(2) not in ("junctions", "branches_all"):
            named.setdefault(m.group(2), set()).add(m.group(1))
    r0 = ANF(ix, f).run()
    # names copied from the local scope into branch_params: expand the comprehension of locals().get(<name>)
    fw = None
    for c in r0.calls():
        if c.fn[0] == "attr" and c.fn[2] == "update" and c.args and c.args[0][0] in ("comp", "dict"):
            # (a comprehension over displays arrives already expanded, as the dictionary display of its entries)
            els = expand_comp(c.args[0]) if c.args[0][0] == "comp" else [("kv", k_, v_) for k_, v_ in c.args[0][1]]
            if els and all(e[0] == "kv" and e[1][0] == "c" and e[2][0] == "call" and e[2][1][0] == "attr" and e[2][1][2] == "get"
                           and e[2][2][:1] == (e[1],) for e in els):
                fw = sorted(e[1][1] for e in els)
    if fw is None:
        # the same copies written as explicit stores `branch_params[<name>] = locals().get(<name>)` (loops over displays are unrolled)
        st_ = [e for e in r0.stores() if len(e.index) == 1 and e.index[0][0] == "c" and isinstance(e.index[0][1], str)
               and e.value[0] == "call" and e.value[1][0] == "attr" and e.value[1][2] == "get" and e.value[2][:1] == (e.index[0],)]
        if st_:
            fw = sorted(e.index[0][1] for e in st_)
    run.ob("forwarding-list-found", fw is not None and len(fw) >= 24, "names copied from the signature into branch_params: %s" % (fw,), w)
    fw = fw or []
    fwx = {}
    for nme in fw:
        m = re.match(r"(include|respect_status|weighting)_(\w+)$", nme)
        if m:
            fwx.setdefault(m.group(2), set()).add(m.group(1))
    for x, kinds in sorted(named.items()):
        run.ob("named-parameter-forwarded|%s" % x, fwx.get(x) == {"include", "respect_status", "weighting"},
               "the named parameters *_%s are copied into branch_params" % x, w, detail=str(sorted(fwx.get(x, []))))
        run.ob("named-parameter-complete|%s" % x, kinds == {"include", "respect_status", "weighting"},
               "include_/respect_status_/weighting_%s all exist" % x, w, detail=str(sorted(kinds)))
    for nme in fw:
        run.ob("forwarded-name-is-parameter|%s" % nme, nme in params,
               "every forwarded name is a parameter (otherwise locals().get gives None, which overrides a keyword argument)", w)
    # which named suffix controls which table: evaluate the loop body for every branch component table of the package
    controls = {}
    n_tab = 0
    for c in ix.components():
        if not ix.is_subclass(c, "BranchComponent"):
            continue
        t = ix.method_const(c, "table_name")
        n_tab += 1
        r = ANF(ix, f, method_consts={"table_name": t}).run()
        abc, call, args = _abc_call(ix, r)
        keys = {}
        for pn, prefix in (("include_comp", "include_"), ("respect_status", "respect_status_"), ("weight_getter", "weighting_")):
            v = args.get(pn)
            # the lookups that produce the value itself (not those nested in the receiver, e.g. in how branch_params was filled)
            from ..arrnf import ite_leaves as _leaves
            tops = [lf for _, lf in _leaves(v)] if v is not None else []
            ks = [x[2][0][1] for x in tops if x[0] == "call" and x[1][0] == "attr" and x[1][2] == "get" and x[2] and x[2][0][0] == "c"
                  and isinstance(x[2][0][1], str) and x[2][0][1].startswith(prefix)]
            _sh(len(set(ks)) == 1, "%s of %s is looked up in branch_params under one constant key (%s)" % (pn, t, ks))
            keys[prefix] = ks[0][len(prefix):]
        run.ob("keyword|%s|one-suffix" % t, len(set(keys.values())) == 1,
               "include, respect_status and weighting of table %s are looked up under the same suffix: %s" % (t, keys), run.where(f, call.node))
        sfx = keys["include_"]
        controls.setdefault(sfx, []).append(t)
        run.ob("keyword|%s|table-passed" % t, args.get("table_name") == C(t) and args.get("comp") is not None and args["comp"][0] == "loop",
               "the edges are built from the table of the same component", run.where(f, call.node))
        d = {"include_comp": C(True), "weight_getter": C(None)}
        for pn, dv in d.items():
            v = args[pn]
            dflt = [x[2][1] for _, x in _leaves(v) if x[0] == "call" and x[1][0] == "attr" and x[1][2] == "get" and len(x[2]) == 2]
            run.ob("keyword|%s|default|%s" % (t, pn), dflt == [dv], "a table without explicit keyword gets the documented default (%s)" % (dv[1],),
                   run.where(f, call.node))
    run.ob("branch-tables-found", n_tab >= 10, "branch component tables: %d" % n_tab, w)
    for x in sorted(named):
        run.ob("named-parameter-controls-one-table|%s" % x, len(controls.get(x, [])) == 1,
               "the named parameters *_%s control exactly one branch component table: %s" % (x, controls.get(x, [])), w)
    run.floor(25)


def r18_2(run):
    ix = run.index
    f = ix.func(CG + ".add_branch_component")
    run.analysed(f)
    w = run.where(f, f.node)
    ps = f.params()
    r = ANF(ix, f, strip=False).run()
    FJ, TJ = expect(ix, f, "F_JUNCTION"), expect(ix, f, "T_JUNCTION")
    ends = {}
    for s_ in r.stores():
        if len(s_.index) == 2 and s_.index[0] == FULL and s_.index[1] in (FJ, TJ):
            ends[s_.index[1][1].split(".")[-1]] = s_
    _sh(set(ends) == {"F_JUNCTION", "T_JUNCTION"}, "both edge endpoints are stored")
    ftc = ("call", ("attr", ("n", ps[0]), "from_to_node_cols"), (), ())
    tabs = []
    for nm, k in (("F_JUNCTION", 0), ("T_JUNCTION", 1)):
        v = ends[nm].value
        m = match(("attr", ("idx", ("?", "tab"), (("proj", ftc, k),)), "values"), v)
        run.ob("endpoints-from-class|%s" % nm, m is not None,
               "%s of an edge is column from_to_node_cols()[%d] of the component's table" % (nm, k), run.where(f, ends[nm].node), detail=show(v)[:160])
        if m:
            tabs.append(m["tab"])
    run.ob("endpoints-from-same-rows", len(tabs) == 2 and key(tabs[0]) == key(tabs[1]), "both endpoints are read from the same table rows", w)
    from .c17 import polymorphic_columns
    poly = polymorphic_columns(ix)
    run.ob("polymorphic-columns-known", ("valve", "element") in poly, "polymorphic columns derived: %s" % sorted(poly), w)
    for (tbl, col), (dcol, jval, _) in poly.items():
        # the rows turned into edges are restricted to discriminator == junction value whenever the column is a from/to column
        ok = False
        if tabs:
            for x in walk(tabs[0]):
                if x[0] == "ite" and x[2][0] == "idx" and len(x[2][2]) == 1:
                    sel = x[2][2][0]
                    if sel[0] == "cmp" and sel[1] == "==" and C(jval) in (sel[2], sel[3]) and contains(sel, C(dcol)) \
                            and contains(x[1], C(col)) and contains(x[1], ftc):
                        ok = True
        run.ob("polymorphic-endpoint-filtered|%s.%s" % (tbl, col), ok,
               "rows of %s whose %s is not a junction (%s != %r) are not turned into edges" % (tbl, col, dcol, jval), w,
               detail=show(tabs[0])[:200] if tabs else None)
    # status: the component's active identifier column, copied
    ip = ix.func(CG + ".init_par")
    run.analysed(ip)
    cs = [c for c in r.calls() if c.fn == ("f", ip.qualname)]
    _sh(len(cs) == 1, "add_branch_component calls init_par once")
    a_ = dict(zip(ip.params(), cs[0].args))
    a_.update(dict(cs[0].kw))
    ok = a_.get(ip.params()[2]) == ("call", ("attr", ("n", ps[0]), "active_identifier"), (), ()) and a_.get(ip.params()[1]) == ("n", "respect_status")
    run.ob("status-from-active-identifier", ok, "the edge status is the component's active identifier column and respect_status is passed on",
           run.where(f, cs[0].node))
    rp = ANF(ix, ip, strip=False, consts={ip.params()[1]: True}).run()
    good = False
    for e in rp.returns():
        v = e.value
        if v[0] == "tuple" and len(v[1]) == 3:
            st = v[1][2]
            good = good or key(st) == key(expect(ix, ip, "%s[%s].values.copy()" % (ip.params()[0], ip.params()[2]), strip=False))
    run.ob("status-is-a-copy", good, "the status array is a copy of the table column (it is modified for closed valves)", run.where(ip, ip.node))
    rn = ANF(ix, ip, strip=False, consts={ip.params()[1]: False}).run()
    ok = any(e.value[0] == "tuple" and len(e.value[1]) == 3 and e.value[1][2][0] == "call" and e.value[1][2][1] == ("x", "numpy.ones")
             for e in rn.returns())
    run.ob("status-ignored-when-not-respected", ok, "without respect_status every row is an edge", run.where(ip, ip.node))
    g = ix.func(CG + ".create_nxgraph")
    rg = ANF(ix, g).run()
    rm = [c for c in rg.calls() if c.fn[0] == "attr" and c.fn[2] == "remove_node" and c.loops]
    oos = expect(ix, g, "net.junction.index[~net.junction.in_service.values]")
    ok = any(key(rg.loops[c.loops[-1]]["iter"]) == key(oos) and c.args == (("loop", c.loops[-1], 0),)
             and any(key(cc) == key(("n", "respect_status_junctions")) and p for cc, p in c.cond) for c in rm)
    run.ob("out-of-service-junctions-removed", ok, "out-of-service junctions are removed under respect_status_junctions", run.where(g, g.node))
    ad = [c for c in rg.calls() if c.fn[0] == "attr" and c.fn[2] == "add_node" and c.loops]
    ok = any(contains(rg.loops[c.loops[-1]]["iter"], expect(ix, g, "set(net.junction.index)")) and c.args == (("loop", c.loops[-1], 0),) for c in ad)
    # ... or all at once: mg.add_nodes_from(<a set built from the junction index>)
    ok = ok or any(c.fn[0] == "attr" and c.fn[2] == "add_nodes_from" and c.args and contains(c.args[0], expect(ix, g, "set(net.junction.index)"))
                   for c in rg.calls())
    run.ob("isolated-junctions-added", ok, "junctions without edges are graph nodes as well", run.where(g, g.node))
    run.floor(8)


def solver_pressure_sources(ix):
    """components whose create_pit_node_entries fixes pressures: {table: (junction column, filters by type?)}"""
    out = {}
    for c in ix.components():
        m = ix.lookup_method(c, "create_pit_node_entries")
        if m is None:
            continue
        # calls of set_fixed_node_entries(..., mode="p"), whatever the spelling of the arguments
        from ..astutil import bind_args
        sf = ix.func("pandapipes.component_models.component_toolbox.set_fixed_node_entries")
        cs = [x for x in calls(m.node, "set_fixed_node_entries") if const_str(bind_args(sf, x).get("mode")) == "p"]
        if not cs:
            continue
        tbl = ix.method_const(c, "table_name")
        if ix.is_subclass(c, "BranchComponent"):
            col = ix.method_const(c, "from_to_node_cols")[1]
        else:
            col = ix.method_const(c, "get_node_col") or "junction"
        out[tbl] = col
    return out


def r18_3(run):
    ix = run.index
    srcs = solver_pressure_sources(ix)
    run.ob("solver-pressure-sources", set(srcs) >= {"ext_grid", "circ_pump_mass", "circ_pump_pressure"},
           "pressure-fixing components on the solver side (computed): %s" % srcs, "component_models")
    f = ix.func(GS + ".unsupplied_junctions")
    run.analysed(f)
    w = run.where(f, f.node)
    ps = f.params()
    r = ANF(ix, f, consts={ps[2]: None}, param_alias={ps[0]: "net", ps[1]: "mg"}).run()
    # slack set: union of |= contributions; each contribution is set(<table filtered by in_service>.<col>.values[...])
    rets = r.returns()
    _sh(len(rets) == 1, "unsupplied_junctions has one return")
    # collect every set(...) contribution to the slack set from the final condition of the component loop
    contribs = []
    for c in r.calls():
        # slacks |= set(<rows>) and slacks.update(<rows>) are the same event (arrnf): the argument of the update is the contribution
        if c.fn[0] == "attr" and c.fn[2] == "update" and c.args and contains(c.args[0], ("n", "net")):
            contribs.append(c)
    found = {}
    for c in contribs:
        a0 = c.args[0]
        # table name: net[<T>] with T constant or an unrolled loop constant
        tnames = {x[2][0][1] for x in walk(a0) if x[0] == "idx" and x[1] == ("n", "net") and len(x[2]) == 1 and x[2][0][0] == "c"}
        cols = {x[2] for x in walk(a0) if x[0] == "attr" and x[1][0] == "idx" and x[2] not in ("values", "in_service", "type")} | \
               {x[2][0][1] for x in walk(a0) if x[0] == "idx" and len(x[2]) == 1 and x[2][0][0] == "c" and x[1][0] == "idx" and x[1][1] != ("n", "net")}
        insvc = any(x[0] in ("attr", "idx") and (x[2] == "in_service" or x[2] == (C("in_service"),)) for x in walk(a0))
        for t in tnames:
            found[t] = (cols, insvc, a0)
    for tbl, col in sorted(srcs.items()):
        got = found.get(tbl)
        run.ob("slack-table|%s" % tbl, got is not None and col in got[0],
               "unsupplied_junctions uses column %s of %s as supplied junctions" % (col, tbl), w,
               detail=show(got[2])[:200] if got else "tables used: %s" % sorted(found))
        run.ob("slack-filter|in_service|%s" % tbl, got is not None and got[1], "only in-service %s rows supply" % tbl, w)
    for tbl in sorted(found):
        run.ob("slack-table-is-pressure-source|%s" % tbl, tbl in srcs, "%s fixes a pressure on the solver side" % tbl, w)
    eg = found.get("ext_grid")
    ptype = False
    if eg:
        for x in walk(eg[2]):
            if x[0] == "comp" and any(y[0] == "cmp" and y[1] == "in" and y[2] == C("p") for y in walk(x[2])):
                ptype = True
            if x[0] == "call" and x[1] == ("x", "numpy.isin") and len(x[2]) >= 2 and x[2][1][0] in ("list", "tuple") \
                    and {i[1] for i in x[2][1][1]} == {"p", "pt"}:
                ptype = True
    run.ob("slack-filter|pressure-type", ptype,
           "external grids supply pressure only if their type contains 'p' (the solver's valid_types filter)", w)
    sf = ix.func("pandapipes.component_models.component_toolbox.set_fixed_node_entries")
    rs = ANF(ix, sf, consts={sf.params()[-1]: "p"} if sf.params()[-1] not in ("net",) else None).run()
    ok = any(x[0] in ("list", "tuple") and {i[1] for i in x[1] if i[0] == "c"} == {"p", "pt"} for e in rs.events
             for x in walk(getattr(e, "term", getattr(e, "value", ())) or ()))
    run.ob("solver-type-filter", ok, "the solver fixes pressures only for types p / pt", run.where(sf, sf.node))
    # components without a slack are unsupplied
    lp = [l for l in r.loops.values() if l["iter"][0] == "call" and l["iter"][1][0] == "x" and l["iter"][1][1].endswith("connected_components")]
    ok = len(lp) == 1 and lp[0]["iter"][2] and contains(lp[0]["iter"][2][0], ("n", "mg"))
    upd = [c for c in r.calls() if c.fn[0] == "attr" and c.fn[2] == "update" and c.loops]
    ok = ok and len(upd) == 1 and len(upd[0].cond) >= 1
    if ok:
        cnd, pol = norm_cond(*upd[0].cond[-1])
        lv = ("loop", upd[0].loops[-1], 0)
        ok = (not pol) and cnd[0] == "opn" and cnd[1] == "&" and any(contains(x, lv) for x in cnd[2]) and contains(upd[0].args[0], lv)
    if not ok:
        # the same selection written as a comprehension over the connected components that is united into the result
        for e_ in rets:
            for x in walk(e_.value):
                if x[0] == "comp" and len(x[3]) == 1:
                    bv, it_, ifs = x[3][0]
                    if not (it_[0] == "call" and it_[1][0] == "x" and it_[1][1].endswith("connected_components") and it_[2]
                            and contains(it_[2][0], ("n", "mg")) and len(ifs) == 1 and contains(x[2], bv)):
                        continue
                    cnd, pol = norm_cond(ifs[0], True)
                    if (not pol) and cnd[0] == "opn" and cnd[1] == "&" and any(contains(y, bv) for y in cnd[2]) \
                            and any(not contains(y, bv) for y in cnd[2]):
                        ok = True
    run.ob("components-without-slack", ok,
           "exactly the connected components of the graph that contain no slack junction are reported", w)
    run.floor(7)


def r18_5(run):
    ix = run.index
    f = ix.func(CG + ".create_nxgraph")
    gcv = ix.func(CG + ".get_col_value")
    d = {p.arg: dv for p, dv in zip(reversed(f.node.args.args), reversed(f.node.args.defaults))}
    dflt = d.get("weighting_pipes")
    ok = isinstance(dflt, ast.Tuple) and len(dflt.elts) == 2 and isinstance(dflt.elts[0], ast.Name) and \
        ix.resolve(f.module, dflt.elts[0].id) == ("func", gcv) and isinstance(dflt.elts[1], ast.Tuple) and \
        [const_str(e) for e in dflt.elts[1].elts] == ["length_km"]
    run.ob("pipe-weight-default", ok, "pipes are weighted with length_km by default", run.where(f, f.node))
    rg = ANF(ix, gcv).run()
    ps = gcv.params()
    ok = len(rg.returns()) == 1 and key(strip_values(rg.returns()[0].value)) == key(("idx", ("n", ps[1]), (("n", ps[2]),)))
    run.ob("get_col_value", ok, "the weight is the column's value", run.where(gcv, gcv.node))
    # closed pipe valves: only for the pipe table, only under respect_status_valves
    from .c17 import polymorphic_columns
    poly = polymorphic_columns(ix)
    dcol, jval, tbls = poly.get(("valve", "element"), ("et", "ju", {}))
    pval = ([v for v, t in tbls.items() if t == "pipe"] or ["pi"])[0]
    seen = {}
    for c in ix.components():
        if not ix.is_subclass(c, "BranchComponent"):
            continue
        t = ix.method_const(c, "table_name")
        r = ANF(ix, f, method_consts={"table_name": t}).run()
        abc, call, args = _abc_call(ix, r)
        seen[t] = args.get("valve_et_filter")
    want_pipe = ("ite", ("n", "respect_status_valves"), C(pval), C(None))
    run.ob("valve-filter|pipe", seen.get("pipe") == want_pipe,
           "closed valves attached to pipes (et == %r) are considered for the pipe edges under respect_status_valves" % pval,
           run.where(f, f.node), detail=show(seen.get("pipe"))[:120] if seen.get("pipe") else None)
    others = {t: v for t, v in seen.items() if t != "pipe" and not (v == C(None) or v == ("ite", ("n", "respect_status_valves"), C(None), C(None)))}
    run.ob("valve-filter|only-pipes", not others, "no other table is affected by pipe valves", run.where(f, f.node), detail=str(sorted(others)))
    a = ix.func(CG + ".add_branch_component")
    ps = a.params()
    r = ANF(ix, a).run()
    abcargs = [c for c in r.calls() if c.fn[0] in ("f", "x") and c.fn[1].endswith("add_edges")]
    _sh(len(abcargs) == 1 and len(abcargs[0].args) >= 4, "add_branch_component hands indices, parameter, in_service to add_edges")
    ins = abcargs[0].args[3]
    # expected: status & ~isin(indices[:, INDEX], <element of closed valves of the filtered type>)  under valve_et_filter is not None and mask.any()
    mask = expect(ix, a, "(net.valve.%s.values == valve_et_filter) & ~net.valve.opened.values" % dcol)
    closed = expect(ix, a, "net.valve.element.values[M]", env={"M": mask})
    ok = False
    for x in walk(ins):
        if x[0] == "opn" and x[1] == "&":
            for y in x[2]:
                if y[0] == "u" and y[1] == "~" and y[2][0] == "call" and y[2][1] == ("x", "numpy.isin") and len(y[2][2]) == 2 \
                        and key(y[2][2][1]) == key(closed):
                    col = y[2][2][0]
                    ok = col[0] == "idx" and len(col[2]) == 2 and col[2][1] == expect(ix, a, "INDEX") and col[2][0] == FULL
    run.ob("closed-pipe-valve-removes-pipe-edge", ok,
           "a closed valve attached to a pipe takes the edge of the pipe whose *index label* equals valve.element out of service",
           run.where(a, a.node), detail=show(ins)[:300])
    # the INDEX column holds the table's index labels
    ip = ix.func(CG + ".init_par")
    rp = ANF(ix, ip).run()
    ok = any(len(s_.index) == 2 and s_.index[1] == expect(ix, ip, "INDEX") and key(s_.value) == key(expect(ix, ip, "%s.index" % ip.params()[0]))
             for s_ in rp.stores())
    run.ob("index-column-holds-labels", ok, "indices[:, INDEX] holds the index labels of the table", run.where(ip, ip.node))
    wst = [s_ for s_ in r.stores() if len(s_.index) == 2 and s_.index[1] == expect(ix, a, "WEIGHT")]
    ok = len(wst) == 1 and wst[0].value[0] == "call" and wst[0].value[1] == ("idx", ("n", "weight_getter"), (C(0),)) \
        and wst[0].value[2][:1] == (("n", ps[2]),) and any(contains(c, ("n", "weight_getter")) and contains(c, C(None)) for c, p in wst[0].cond)
    run.ob("weight-written", ok, "the weight getter fills the edge weight", run.where(a, a.node), detail=show(wst[0].value)[:160] if wst else None)
    for q in ("calc_distance_to_junction", "calc_distance_to_junctions"):
        g = ix.func(GS + "." + q)
        rq = ANF(ix, g).run()
        ok = any(c.fn[0] == "x" and c.fn[1].endswith("dijkstra_path_length") and dict(c.kw).get("weight") == ("n", "weight") for c in rq.calls())
        run.ob("%s|dijkstra-on-weight" % q, ok, "%s returns shortest-path sums of the edge weights" % q, run.where(g, g.node))
    run.floor(7)


def strip_values(t):
    while isinstance(t, tuple) and t and ((t[0] == "attr" and t[2] == "values") or
                                          (t[0] == "call" and t[1][0] == "attr" and t[1][2] in ("to_numpy",) and not t[2])):
        t = t[1] if t[0] == "attr" else t[1][1]
    return t


def r18_6(run):
    """a weighted search needs the MultiGraph: in a simple nx.Graph parallel branches between the same two junctions collapse into
    one edge that keeps the weight of the branch added last, so path lengths are no longer shortest-path sums of pipe lengths"""
    ix = run.index
    cg = ix.func(CG + ".create_nxgraph")
    n = 0
    for f in ix.module(GS).functions.values():
        r = ANF(ix, f).run()
        graphs = [c for c in r.calls() if c.fn == ("f", cg.qualname)]
        if not graphs:
            continue
        weighted = [c for c in r.calls() if c.fn[0] == "x" and any(s_ in c.fn[1] for s_ in ("dijkstra", "bellman_ford", "shortest_path", "astar"))
                    and dict(c.kw).get("weight", C("weight")) != C(None)]        # networkx searches weight by the edge key "weight" by default
        if not weighted:
            continue
        run.analysed(f)
        for gcall in graphs:
            n += 1
            a_ = dict(zip(cg.params(), gcall.args))
            a_.update(dict(gcall.kw))
            m = a_.get("multi", C(True))
            run.ob("%s|weighted-search-on-multigraph" % f.name, m == C(True),
                   "%s searches weighted paths on a MultiGraph (parallel branches keep their own weights)" % f.name,
                   run.where(f, gcall.node), detail="multi=%s" % show(m))
    run.ob("weighted-searches-found", n >= 3, "weighted searches that build their own graph: %d" % n, GS)
    run.floor(3)


RULES = [("R18.6", r18_6), ("R18.1", r18_1), ("R18.2", r18_2), ("R18.3", r18_3), ("R18.5", r18_5)]


def r18_7(run):
    """the graph is built and searched with the switches the caller gave: a parameter handed on unchanged to another function of the
    topology package goes to the parameter of the same name (shared with C17 R17.7: crossed flags in a positional call)"""
    from .c17 import r17_7
    r17_7(run, modules=("pandapipes.topology",), label="the topology functions", min_n=10)


RULES.append(("R18.7", r18_7))


def r18_8(run):
    """graph and solver agree on where a closed pipe valve separates: the graph drops the edge of the pipe end the valve sits on, the
    solver gives that (junction, pipe) pair its own internal node.  Valves share an internal node exactly when both reference columns
    agree, compared row-wise -- shared with C04 R4.9 (a scalar key merges distinct pipe ends: the solver then lets flow pass a closed
    valve the graph treats as a cut)."""
    from .c04 import r4_9
    r4_9(run)


RULES.append(("R18.8", r18_8))
