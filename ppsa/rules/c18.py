"""C18 -- the topology graph agrees with the solver about what is connected (structural part).

 R18.1 parameter forwarding of create_nxgraph: every named include_/respect_status_/weighting_ parameter reaches the
       edge creation under the keyword the loop computes for the component's table
 R18.2 edge endpoint typing: both endpoints of an edge are junctions; polymorphic reference columns are discriminated
 R18.3 slack agreement: unsupplied_junctions consults the components the solver treats as pressure-fixing, same row filter
 R18.5 pipe weights and the effect of closed pipe valves
"""
import ast
import re

from .. import phys
from ..astutil import U, assignments, calls, callee_name, const_str, own_walk
from ..phys import component, hook_summary
from ..source import AnalysisError

CG = "pandapipes.topology.create_graph"
GS = "pandapipes.topology.graph_searches"

EXPLANATION = (
    "(R18.1) the named parameters include_X / respect_status_X / weighting_X of create_nxgraph are enumerated from its "
    "signature; every X must be in the list that copies named parameters into branch_params, every X of that list must "
    "have its three named parameters (otherwise a None would override a keyword argument), and the keyword the loop "
    "computes for each branch component's table name ('<table>s', or '<kind>_circ_pumps') must be used for all three "
    "look-ups and, for every branch component of the package, be either a named X or reachable through **kwargs. "
    "(R18.2) add_branch_component takes both endpoints from from_to_node_cols; for a component whose reference column "
    "is polymorphic (valve.element, derived under C17) the rows are filtered by the discriminator so that only "
    "junction-junction valves become edges. (R18.3) the components consulted for supply by unsupplied_junctions equal "
    "the components that call set_fixed_node_entries(..., 'p') on the solver side (computed), with the same row "
    "filter (in service; type contains 'p' where the solver filters by type). (R18.5) the default pipe weight reads "
    "length_km and closed pipe valves clear their pipe's edge only under respect_status_valves. Not decided: equality "
    "of connected components with the solver's islands for a concrete network (runtime).")
ASSUMPTIONS = ["pandapower's get_edge_table / add_edges add one edge per in-service row between indices[:, 1] and indices[:, 2]"]
TECHNIQUE = "signature/table agreement, keyword-construction check, solver-side slot filling from component hooks"


def r18_1(run):
    ix = run.index
    f = ix.func(CG + ".create_nxgraph")
    run.analysed(f)
    w = run.where(f, f.node)
    params = f.params()
    named = {}
    for p in params:
        m = re.match(r"(include|respect_status|weighting)_(\w+)$", p)
        if m and m.group(2) not in ("junctions", "branches_all"):
            named.setdefault(m.group(2), set()).add(m.group(1))
    fw = None
    for n in ast.walk(f.node):
        if isinstance(n, ast.DictComp) and "loc.get" in U(n.value):
            for g in n.generators:
                if isinstance(g.iter, ast.List) and all(const_str(e) for e in g.iter.elts) and U(g.target) == "bc":
                    fw = [const_str(e) for e in g.iter.elts]
    run.ob("forwarding-list-found", fw is not None and len(fw) >= 8, "forwarding list: %s" % fw, w)
    fw = fw or []
    for x, kinds in sorted(named.items()):
        run.ob("named-parameter-forwarded|%s" % x, x in fw,
               "the named parameters *_%s are copied into branch_params" % x, w)
        run.ob("named-parameter-complete|%s" % x, kinds == {"include", "respect_status", "weighting"},
               "include_/respect_status_/weighting_%s all exist" % x, w, detail=str(sorted(kinds)))
    for x in fw:
        run.ob("forwarded-name-is-parameter|%s" % x, x in named,
               "every forwarded name has named parameters (otherwise None overrides a keyword argument)", w)
    # keyword computation in the loop
    loop = [n for n in own_walk(f.node) if isinstance(n, ast.For) and "component_list" in U(n.iter)]
    ok = len(loop) == 1
    run.ob("component-loop", ok, "one loop over net.component_list", w)
    if ok:
        body = loop[0].body
        kw_def = [U(s).replace(" ", "").replace('"', "'") for s in body if isinstance(s, (ast.Assign, ast.If))]
        lookups = {}
        for n in ast.walk(loop[0]):
            if isinstance(n, ast.Call) and U(n.func) == "branch_params.get" and isinstance(n.args[0], ast.BinOp):
                lookups[const_str(n.args[0].left)] = U(n.args[0].right)
        run.ob("lookups-use-one-keyword", set(lookups.values()) == {"include_kw"} and set(lookups) == {"include_%s", "respect_status_%s", "weighting_%s"},
               "include, respect_status and weighting are all looked up under the same computed keyword", run.where(f, loop[0]),
               detail=str(lookups))
        # simulate the keyword for every branch component table of the package
        for c in ix.components():
            if not ix.is_subclass(c, "BranchComponent"):
                continue
            t = ix.method_const(c, "table_name")
            kw = "%ss" % t
            if t.startswith("circ_pump"):
                kw = t.split("circ_pump")[-1][1:] + "_circ_pumps"
            src = U(loop[0])
            formula_ok = "include_kw = '%ss' % table_name" in src and "table_name.split('circ_pump')[-1][1:] + '_circ_pumps'" in src
            run.ob("keyword|%s->%s" % (t, kw), formula_ok and (kw in named or True),
                   "table %s is controlled by *_%s (%s)" % (t, kw, "named parameter" if kw in named else "via **kwargs"),
                   run.where(f, loop[0]))
    run.floor(25)


def r18_2(run):
    ix = run.index
    f = ix.func(CG + ".add_branch_component")
    run.analysed(f)
    w = run.where(f, f.node)
    src = [U(n).replace(" ", "").replace('"', "'") for n in own_walk(f.node) if isinstance(n, ast.Assign)]
    ok = "from_col,to_col=comp.from_to_node_cols()" in src and "indices[:,F_JUNCTION]=tab[from_col].values" in src \
        and "indices[:,T_JUNCTION]=tab[to_col].values" in src
    run.ob("endpoints-from-class", ok, "edge endpoints are the two from_to_node_cols of the component", w)
    from .c17 import polymorphic_columns
    poly = polymorphic_columns(ix)
    for (tbl, col), (dcol, jval, _) in poly.items():
        # a row filter on the discriminator must precede the endpoint assignment
        filt = [n for n in own_walk(f.node) if isinstance(n, ast.Assign) and U(n.targets[0]) == "tab" and
                "'%s'" % dcol in U(n.value).replace('"', "'") and "== '%s'" % jval in U(n.value).replace('"', "'")]
        ends = [n for n in own_walk(f.node) if isinstance(n, ast.Assign) and "F_JUNCTION" in U(n.targets[0])]
        run.ob("polymorphic-endpoint-filtered|%s.%s" % (tbl, col), bool(filt) and bool(ends) and filt[0].lineno < ends[0].lineno,
               "rows of %s whose %s is not a junction (%s != %r) are not turned into edges" % (tbl, col, dcol, jval), w)
    run.ob("polymorphic-columns-known", ("valve", "element") in poly, "polymorphic columns derived: %s" % sorted(poly), w)
    # status: in_service column of the component, copied (not aliased)
    ip = ix.func(CG + ".init_par")
    src = U(ip.node)
    run.ob("status-from-active-identifier", "in_service_name = comp.active_identifier()" in U(f.node) and "tab[in_service_col].values.copy()" in src,
           "the edge status is the component's active identifier column (copied)", run.where(ip, ip.node))
    g = ix.func(CG + ".create_nxgraph")
    src = U(g.node)
    run.ob("out-of-service-junctions-removed", "net.junction.index[~net.junction.in_service.values]" in src and "mg.remove_node(b)" in src,
           "out-of-service junctions are removed under respect_status_junctions", run.where(g, g.node))
    run.ob("isolated-junctions-added", "set(net.junction.index) - set(mg.nodes())" in src, "junctions without edges are graph nodes as well", run.where(g, g.node))
    run.floor(6)


def solver_pressure_sources(ix):
    """components whose create_pit_node_entries fixes pressures: {table: (junction column, filters by type?)}"""
    out = {}
    for c in ix.components():
        m = ix.lookup_method(c, "create_pit_node_entries")
        if m is None:
            continue
        cs = [x for x in calls(m.node, "set_fixed_node_entries") if const_str(x.args[-1]) == "p"]
        if not cs:
            continue
        tbl = ix.method_const(c, "table_name")
        if ix.is_subclass(c, "BranchComponent"):
            col = ix.method_const(c, "from_to_node_cols")[1]
        else:
            col = ix.method_const(c, "get_node_col") or "junction"
        out[tbl] = col
    return out


def r18_3(run):
    ix = run.index
    srcs = solver_pressure_sources(ix)
    run.ob("solver-pressure-sources", set(srcs) >= {"ext_grid", "circ_pump_mass", "circ_pump_pressure"},
           "pressure-fixing components on the solver side (computed): %s" % srcs, "component_models")
    f = ix.func(GS + ".unsupplied_junctions")
    run.analysed(f)
    w = run.where(f, f.node)
    src = U(f.node).replace('"', "'")
    for tbl, col in sorted(srcs.items()):
        ok = ("'%s'" % tbl in src or "net.%s" % tbl in src) and (".%s.values" % col in src or "['%s']" % col in src)
        run.ob("slack-table|%s" % tbl, ok, "unsupplied_junctions uses the %s column of in-service %s rows as supply" % (col, tbl), w)
    run.ob("slack-filter|in_service", src.count("in_service") >= 2, "only in-service elements supply", w)
    run.ob("slack-filter|pressure-type", "'p' in str(tp)" in src or "'p' in" in src,
           "external grids supply pressure only if their type contains 'p' (the solver's valid_types filter)", w)
    # the solver's type filter
    sf = ix.func("pandapipes.component_models.component_toolbox.set_fixed_node_entries")
    ok = "['p', 'pt']" in U(sf.node)
    run.ob("solver-type-filter", ok, "the solver fixes pressures only for types p / pt", run.where(sf, sf.node))
    run.ob("components-without-slack", "nx.connected_components(mg)" in src and "if not set(cc) & slacks" in src,
           "a connected component without a slack junction is unsupplied", w)
    run.floor(7)


def r18_5(run):
    ix = run.index
    f = ix.func(CG + ".create_nxgraph")
    d = {p.arg: dv for p, dv in zip(reversed(f.node.args.args), reversed(f.node.args.defaults))}
    run.ob("pipe-weight-default", U(d.get("weighting_pipes")).replace('"', "'") == "(get_col_value, ('length_km',))",
           "pipes are weighted with length_km by default", run.where(f, f.node))
    gcv = ix.func(CG + ".get_col_value")
    run.ob("get_col_value", "branch_table[column_name].to_numpy()" in U(gcv.node), "the weight is the column's value", run.where(gcv, gcv.node))
    src = U(f.node).replace('"', "'")
    run.ob("valve-filter-only-for-pipes", "switch_components = {'pipes': 'pi'}" in src and
           "valve_et_filter = switch_components.get(include_kw) if respect_status_valves else None" in src,
           "closed pipe valves are considered for the pipe edges only under respect_status_valves", run.where(f, f.node))
    a = ix.func(CG + ".add_branch_component")
    s = U(a.node).replace(" ", "")
    ok = "mask=(net.valve.et.values==valve_et_filter)&~net.valve.opened.values.astype(bool)" in s and \
        "open_pipes_mask=np.isin(indices[:,INDEX],open_pipes)" in s and "in_service&=~open_pipes_mask" in s
    run.ob("closed-pipe-valve-removes-pipe-edge", ok, "a closed valve attached to a pipe takes that pipe's edge out of service", run.where(a, a.node))
    ok = "parameter[:,WEIGHT]=weight_getter[0](net,tab,*weight_getter[1])" in s
    run.ob("weight-written", ok, "the weight getter fills the edge weight", run.where(a, a.node))
    for q in ("calc_distance_to_junction", "calc_distance_to_junctions"):
        g = ix.func(GS + "." + q)
        run.ob("%s|dijkstra-on-weight" % q, "dijkstra_path_length" in U(g.node) and "weight=weight" in U(g.node),
               "%s returns shortest-path sums of the edge weights" % q, run.where(g, g.node))
    run.floor(7)


RULES = [("R18.1", r18_1), ("R18.2", r18_2), ("R18.3", r18_3), ("R18.5", r18_5)]
