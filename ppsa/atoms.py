"""Private helpers of the package that rules name as atoms (anchors of obligations): calls to them stay calls.
Every other private helper, and every nested def, is substituted at its call sites (ppsa/flatten.py, arrnf auto-inline)."""
KNOWN_ATOMS = {
    "_sum_by_group", "_sum_by_group_np", "_sum_by_group_numba", "_sum_by_group_sorted", "_sum_values_by_index",
    "_connectivity", "_iteration_check", "_mode_check", "_restart_connectivity_check", "_add_fluid_to_net",
    "_junction_reference_mask", "_deprecation_check_k", "_deprecation_check_u", "_branches_not_zero_flow", "_retrieve_data",
    "_make_lookups", "_evaluate_multinet", "_relevant_nets", "_call_output_writer", "_add_missing_columns", "_add_sector",
    "_rename_attributes", "_rename_columns", "_rename_controller_columns", "_rename_heat_exchanger_columns",
    "_rename_pipe_columns", "_rename_valve_columns", "_add_multiple_branch_geodata", "_auto_ext_grid_type",
    "_auto_ext_grid_types", "_check_branch", "_check_branches", "_check_junction_element",
    "_check_multiple_junction_elements", "_check_std_type", "_preserve_dtypes", "_set_entries", "_set_multiple_entries",
    "_from_list", "_from_path"}

# Named constants of the package that rules name as anchors: uses of them stay names.  Every other module- or class-level
# constant display (tuple / list / set / dict / string, assigned once and never mutated) is substituted at its uses.
KNOWN_CONSTANTS = set()

from .atoms_public import PUBLIC_DEFS  # noqa: E402


def is_atom(name):
    """does a call to a repository function / method of this name stay a call (True) or is it substituted (False)?"""
    if name.startswith("__"):
        return True
    if name.startswith("_"):
        return name in KNOWN_ATOMS
    return name in PUBLIC_DEFS
